#!/venv/bin/python
"""Behaviour-preserving rewriting of the whole tree, as a false-alarm probe.

Every function-local variable that is private to its function (assigned there,
not a parameter, not global / nonlocal, not touched by any nested scope, not
bound by an import) is renamed `<name>_r`, in every non-test module, and the
module re-printed with ast.unparse.  Behaviour is unchanged; every check must
stay silent (exit 0, no VIOLATION line).  An ANALYSIS-ERROR (exit 2) counts as
a failure of the probe as well: the rule matched a name instead of a role.

usage: selftest/alpha.py [--prop C05] [--keep] [--mode locals|params]
"""
from __future__ import annotations

import argparse
import ast
import concurrent.futures
import os
import shutil
import subprocess
import symtable
import sys
import tempfile

VERIF = os.path.dirname(os.path.dirname(os.path.abspath(__file__)))
REPO = os.environ.get('FDLSTATIC_REPO', '/repo')
PROPS = [f'C{i:02d}' for i in range(1, 21)]


def _all_names(tab) -> set:
  out = set(tab.get_identifiers())
  for ch in tab.get_children():
    out |= _all_names(ch)
  return out


def _renamable(tab) -> set:
  if tab.get_type() != 'function':
    return set()
  nested = set()
  for ch in tab.get_children():
    nested |= _all_names(ch)
  out = set()
  for s in tab.get_symbols():
    n = s.get_name()
    if (s.is_local() and s.is_assigned() and not s.is_parameter() and
        not s.is_global() and not s.is_nonlocal() and not s.is_imported() and
        not s.is_free() and not s.is_namespace() and n not in nested and
        not n.startswith('__') and
        n != '_'):
      out.add(n)
  return out


class _Renamer(ast.NodeTransformer):
  """Renames within one function body, not descending into nested scopes."""

  def __init__(self, mapping):
    self.mapping = mapping

  def visit_Name(self, node):
    if node.id in self.mapping:
      node.id = self.mapping[node.id]
    return node

  def visit_ExceptHandler(self, node):
    if node.name in self.mapping:
      node.name = self.mapping[node.name]
    self.generic_visit(node)
    return node

  def _skip(self, node):
    return node

  visit_FunctionDef = visit_AsyncFunctionDef = visit_Lambda = _skip
  visit_ClassDef = _skip
  # comprehensions are transparent (their own targets are never renamed: see
  # _comp_targets)


def _comp_targets(fn) -> set:
  out = set()
  for n in ast.walk(fn):
    if isinstance(n, ast.comprehension):
      out |= {x.id for x in ast.walk(n.target) if isinstance(x, ast.Name)}
  return out


def _uses_dynamic_scope(fn) -> bool:
  for n in ast.walk(fn):
    if isinstance(n, ast.Call) and isinstance(n.func, ast.Name) and n.func.id in (
        'locals', 'vars', 'eval', 'exec'):
      return True
    if isinstance(n, (ast.Match, ast.Global, ast.Nonlocal)):
      return True
  return False


def rewrite(src: str, filename: str) -> tuple:
  tree = ast.parse(src)
  top = symtable.symtable(src, filename, 'exec')
  tabs = {}

  def collect(tab):
    for ch in tab.get_children():
      tabs.setdefault((ch.get_name(), ch.get_lineno()), ch)
      collect(ch)

  collect(top)
  module_names = set(top.get_identifiers())
  n_renamed = 0
  for fn in ast.walk(tree):
    if not isinstance(fn, (ast.FunctionDef, ast.AsyncFunctionDef)):
      continue
    # symtable reports the line of `def`; decorators shift ast's lineno? no:
    # ast.FunctionDef.lineno is the `def` line as well (3.8+).
    tab = tabs.get((fn.name, fn.lineno))
    if tab is None or _uses_dynamic_scope(fn):
      continue
    names = _renamable(tab) - _comp_targets(fn)
    taken = set(tab.get_identifiers()) | module_names
    mapping = {}
    for n in sorted(names):
      new = n + '_r'
      while new in taken:
        new += 'r'
      taken.add(new)
      mapping[n] = new
    if not mapping:
      continue
    r = _Renamer(mapping)
    for st in fn.body:
      r.visit(st)
    n_renamed += len(mapping)
  return ast.unparse(tree) + '\n', n_renamed


class _IfFlipper(ast.NodeTransformer):
  """`if c: A else: B` -> `if not c: B else: A` for plain two-armed ifs (no

  elif chain on either side), and `x if c else y` likewise.  Behaviour is
  unchanged.
  """

  def __init__(self):
    self.count = 0

  def visit_If(self, node):
    self.generic_visit(node)
    if node.orelse and not (len(node.orelse) == 1 and isinstance(
        node.orelse[0], ast.If)) and not (len(node.body) == 1 and isinstance(
            node.body[0], ast.If)):
      self.count += 1
      test = node.test
      if isinstance(test, ast.UnaryOp) and isinstance(test.op, ast.Not):
        new_test = test.operand
      else:
        new_test = ast.UnaryOp(op=ast.Not(), operand=test)
      return ast.copy_location(
          ast.If(test=new_test, body=node.orelse, orelse=node.body), node)
    return node


class _ElseDedenter(ast.NodeTransformer):
  """`if c: ...; return/raise/continue/break  else: B`  ->  the same `if`

  without else, followed by B (guard-clause style).  Applied inside statement
  lists; elif chains are handled from the innermost `if` outwards.
  """

  def __init__(self):
    self.count = 0

  def _terminates(self, body):
    last = body[-1]
    if isinstance(last, (ast.Return, ast.Raise, ast.Continue, ast.Break)):
      return True
    if isinstance(last, ast.If) and last.orelse:
      return self._terminates(last.body) and self._terminates(last.orelse)
    return False

  def _rewrite(self, stmts):
    out = []
    for st in stmts:
      st = self.visit(st)
      if isinstance(st, ast.If) and st.orelse and self._terminates(st.body):
        self.count += 1
        tail = st.orelse
        st.orelse = []
        out.append(st)
        out.extend(self._rewrite_flat(tail))
      else:
        out.append(st)
    return out

  def _rewrite_flat(self, stmts):
    # the moved statements were already visited as children of the if
    out = []
    for st in stmts:
      if isinstance(st, ast.If) and st.orelse and self._terminates(st.body):
        self.count += 1
        tail = st.orelse
        st.orelse = []
        out.append(st)
        out.extend(self._rewrite_flat(tail))
      else:
        out.append(st)
    return out

  def generic_visit(self, node):
    for field in ('body', 'orelse', 'finalbody'):
      val = getattr(node, field, None)
      if isinstance(val, list) and val and isinstance(val[0], ast.stmt):
        setattr(node, field, self._rewrite(val))
    for h in getattr(node, 'handlers', []) or []:
      h.body = self._rewrite(h.body)
    for c in getattr(node, 'cases', []) or []:
      c.body = self._rewrite(c.body)
    return node


def dedent_else(src: str) -> tuple:
  tree = ast.parse(src)
  d = _ElseDedenter()
  tree = d.visit(tree)
  ast.fix_missing_locations(tree)
  return ast.unparse(tree) + '\n', d.count


def flip_ifs(src: str) -> tuple:
  tree = ast.parse(src)
  fl = _IfFlipper()
  tree = fl.visit(tree)
  ast.fix_missing_locations(tree)
  return ast.unparse(tree) + '\n', fl.count


VIEW_MODES = {
    'notemp': {'temps': True},
    'comp': {'loops': True},
    'inline': {'helpers': True},
    'normal': {'helpers': True, 'temps': True, 'loops': True},
}


def make_view_variant(dst: str, mode: str) -> int:
  """The checker's own second views (fdlstatic/inline.py, normalise.py)
  written out as source trees: with --test this confirms on the unit tests
  that the normal forms preserve behaviour, and the checks must stay silent on
  them like on any other behaviour-preserving rewriting."""
  sys.path.insert(0, VERIF)
  from fdlstatic.model import Project  # pylint: disable=g-import-not-at-top
  shutil.copytree(os.path.join(REPO, 'fiddle'), os.path.join(dst, 'fiddle'),
                  ignore=shutil.ignore_patterns('__pycache__', '*.pyc'))
  os.environ['FDLSTATIC_KEEP_EXPANDED'] = '1'
  try:
    p = Project(REPO, expand=VIEW_MODES[mode])
  finally:
    os.environ.pop('FDLSTATIC_KEEP_EXPANDED', None)
  for mod in p.modules.values():
    rel = os.path.relpath(mod.path, REPO)
    # names carried over from another module by the helper expansion are
    # looked up in that module when they are used
    syn = {a: q for a, q in mod.imports.items() if a.startswith('_x_')}
    if syn:
      class _Q(ast.NodeTransformer):

        def visit_Name(self, node):
          q = syn.get(node.id)
          if q is None or not isinstance(node.ctx, ast.Load):
            return node
          cands = [m for m in p.modules if q == m or q.startswith(m + '.')]
          if cands:
            m = max(cands, key=len)
          else:
            # an external module (`copy`) or a name of one (`os.path.join`):
            # the longest importable prefix
            import importlib.util as _iu
            parts = q.split('.')
            m = parts[0]
            for i_ in range(len(parts), 0, -1):
              try:
                if _iu.find_spec('.'.join(parts[:i_])) is not None:
                  m = '.'.join(parts[:i_])
                  break
              except (ImportError, ValueError, AttributeError):
                continue
          expr = f"__import__('importlib').import_module({m!r})"
          rest = q[len(m) + 1:]
          if rest:
            expr += '.' + rest
          return ast.copy_location(ast.parse(expr, mode='eval').body, node)

      mod.tree = _Q().visit(mod.tree)
      ast.fix_missing_locations(mod.tree)
    new = ast.unparse(mod.tree) + '\n'
    compile(new, rel, 'exec')
    with open(os.path.join(dst, rel), 'w') as f:
      f.write(new)
  for line in p.inlined[-3:]:
    print('   ', line)
  return len(p.inlined)


def make_variant(dst: str, mode: str = 'alpha') -> int:
  if mode in VIEW_MODES:
    return make_view_variant(dst, mode)
  src = os.path.join(REPO, 'fiddle')
  shutil.copytree(src, os.path.join(dst, 'fiddle'),
                  ignore=shutil.ignore_patterns('__pycache__', '*.pyc'))
  total = 0
  for dp, _, fns in os.walk(os.path.join(dst, 'fiddle')):
    for fn in fns:
      if fn.endswith('.py') and not fn.endswith('_test.py'):
        p = os.path.join(dp, fn)
        with open(p) as f:
          s = f.read()
        new, n = {'alpha': rewrite, 'flip': lambda s_, p_: flip_ifs(s_),
                  'guard': lambda s_, p_: dedent_else(s_)}[mode](s, p)
        compile(new, p, 'exec')
        with open(p, 'w') as f:
          f.write(new)
        total += n
  return total


def run_check(tmp, prop):
  env = dict(os.environ, FDLSTATIC_REPO=tmp, FDLSTATIC_NO_EVIDENCE='1')
  r = subprocess.run(
      ['/venv/bin/python', '-B', '-m', 'fdlstatic.main', prop, '--repo', tmp,
       '--no-evidence'], cwd=VERIF, env=env, capture_output=True, text=True,
      timeout=900)
  ok = r.returncode == 0 and 'VIOLATION' not in r.stdout
  return prop, ok, r.returncode, (r.stdout + r.stderr)


def main():
  ap = argparse.ArgumentParser()
  ap.add_argument('--prop')
  ap.add_argument('--keep', action='store_true')
  ap.add_argument('--mode', default='alpha', choices=['alpha', 'flip', 'guard', 'notemp', 'comp', 'inline', 'normal'])
  ap.add_argument('--test', action='store_true',
                  help='also run the renamed tree\'s own unit tests '
                  '(confirms the rewriting preserves behaviour)')
  a = ap.parse_args()
  tmp = tempfile.mkdtemp(prefix='fdlstatic-alpha-')
  bad = 0
  try:
    n = make_variant(tmp, a.mode)
    print(f'alpha: {n} ' + {'alpha': 'local variables renamed', 'flip': 'two-armed ifs flipped', 'guard': 'else branches turned into guard clauses'}.get(a.mode, 'normal-form steps (' + a.mode + ')') + f' under {tmp}')
    if a.test:
      shutil.copy(os.path.join(REPO, 'setup.py'), tmp) if os.path.exists(
          os.path.join(REPO, 'setup.py')) else None
      r = subprocess.run(
          ['/venv/bin/python', '-m', 'pytest', '-q', '-p', 'no:cacheprovider',
           '-n', '12', 'fiddle'], cwd=tmp, capture_output=True, text=True)
      print('alpha: unit tests of the renamed tree:',
            r.stdout.strip().splitlines()[-1] if r.stdout.strip() else r.stderr[-300:])
    props = [a.prop.upper()] if a.prop else PROPS
    with concurrent.futures.ThreadPoolExecutor(max_workers=10) as ex:
      for prop, ok, rc, out in ex.map(lambda p: run_check(tmp, p), props):
        print(f'{"PASS" if ok else "FAIL"} {prop} silent alpha-renamed-copy'
              + ('' if ok else f' rc={rc}'))
        if not ok:
          bad += 1
          lines = [l for l in out.splitlines() if l.startswith(
              ('[', 'ANALYSIS-ERROR', 'Traceback'))]
          for l in lines[:8]:
            print('   ' + l[:400])
  finally:
    if not a.keep:
      shutil.rmtree(tmp, ignore_errors=True)
  print(f'alpha: {bad} check(s) not silent')
  return 1 if bad else 0


if __name__ == '__main__':
  sys.exit(main())
