V = 'fiddle/_src/codegen/py_val_to_cst_converter.py'
I = 'fiddle/_src/codegen/auto_config/ir_to_cst.py'
S = 'fiddle/_src/codegen/auto_config/shared_to_variables.py'
X = 'fiddle/_src/codegen/auto_config/complex_to_variables.py'
CASES = [
    dict(id='c12-revert-float-fix', prop='C12', file=V, expect='violation',
         edits=[("  return cst.parse_expression(_float_source(value))", "  return cst.parse_expression(repr(value))")]),
    dict(id='c12-float-helper-unguarded', prop='C12', file=V, expect='violation',
         edits=[("  if math.isfinite(value):\n    return repr(value)\n  # repr() of a non-finite float ('inf', '-inf', 'nan') is not an expression.\n  return f'float({repr(value)!r})'", "  return repr(value)")]),
    dict(id='c12-converter-silent-default', prop='C12', file=V, expect='violation',
         edits=[("    raise ValueError(f'{type(self)} has no registered converter ' +\n                     f'for {type(value)}')", "    return cst.Name(repr(value))")]),
    dict(id='c12-unknown-traversable-as-repr', prop='C12', file=I, expect='violation',
         edits=[("""      raise NotImplementedError(
          f"Expression generation is not implemented for {value!r}"
      )""", """      return cst.parse_expression(repr(value))""")]),
    dict(id='c12-buildable-not-lowered-ok', prop='C12', file=I, expect='violation',
         edits=[("""    if isinstance(value, config_lib.Buildable):
      raise ValueError(
          "Internal Fiddle error: you must run the make_symbolic_references "
          "passes before CST generation."
      )
    elif type(value) in (list, tuple):  # Not subclasses, e.g. NamedTuples.""", """    if type(value) in (list, tuple):  # Not subclasses, e.g. NamedTuples.""")]),
    dict(id='c12-container-isinstance-again', prop='C12', file=I, expect='violation',
         names='TYPE.exact-container-literal',
         edits=[("    elif type(value) is dict:  # Not subclasses, e.g. defaultdict.",
                 "    elif isinstance(value, dict):")]),
    dict(id='c12-benign-container-type-eq', prop='C12', file=I, expect='silent',
         edits=[("    elif type(value) is dict:  # Not subclasses, e.g. defaultdict.",
                 "    elif type(value) == dict:")]),
    dict(id='c12-swallow-conversion-error', prop='C12', file=I, expect='violation',
         edits=[("""        print(f"\\n\\nPATH: {daglish.path_str(state.current_path)}")
        raise""", """        print(f"\\n\\nPATH: {daglish.path_str(state.current_path)}")
        return cst.Name('None')""")]),
    dict(id='c12-shared-declared-before-children', prop='C12', file=S, expect='violation',
         edits=[("      original_value_id = id(value)\n      value = state.map_children(value)\n", "      original_value_id = id(value)\n      original = value\n"),
                ("        return code_ir.VariableReference(name)\n      else:\n        return value", "        return code_ir.VariableReference(name)\n      else:\n        return state.map_children(original)")]),
    dict(id='c12-shared-callback-falls-through', prop='C12', file=S, expect='violation',
         edits=[("        return code_ir.VariableReference(name)\n      else:\n        return value", "        return code_ir.VariableReference(name)")]),
    dict(id='c12-return-before-declarations', prop='C12', file=I, expect='violation',
         edits=[("""          *variable_lines,
          cst.SimpleStatementLine(
              body=[cst.Return(code_for_expr(fn.output_value))]
          ),""", """          cst.SimpleStatementLine(
              body=[cst.Return(code_for_expr(fn.output_value))]
          ),
          *variable_lines,""")]),
    dict(id='c12-name-not-from-namer', prop='C12', file=X, expect='violation',
         edits=[("          name = namer.name_for(value, state.get_all_paths())", "          name = type(value).__name__.lower()")]),
    dict(id='c12-complex-var-before-extracted', prop='C12', file=X, expect='violation',
         edits=[("""    for variable in fn.variables:
      rewritten_variable = daglish.MemoizedTraversal.run(traverse, variable)""", """    for variable in fn.variables:
      new_variables.append(variable)
      rewritten_variable = daglish.MemoizedTraversal.run(traverse, variable)"""),
                ("      new_variables.append(rewritten_variable)\n", "      del rewritten_variable\n")]),
    # benign
    dict(id='c12-benign-float-isinf', prop='C12', file=V, expect='silent',
         edits=[("  if math.isfinite(value):\n    return repr(value)", "  if not (math.isinf(value) or math.isnan(value)):\n    return repr(value)")]),
]

_SV = 'fiddle/_src/codegen/auto_config/shared_to_variables.py'
_CV = 'fiddle/_src/codegen/auto_config/complex_to_variables.py'
_IM = 'fiddle/_src/codegen/import_manager.py'
CASES += [
    dict(id='c12-namer-without-fn-names-complex', prop='C12', file=_CV,
         expect='violation', names='WMC.namer-scope',
         edits=[("    names.update(naming.get_fn_existing_names(fn))\n", "")]),
    dict(id='c12-benign-namer-union', prop='C12', file=_SV, expect='silent',
         edits=[("""    names = copy.copy(task_existing_names)
    names.update(naming.get_fn_existing_names(fn))
""", """    names = set(task_existing_names) | naming.get_fn_existing_names(fn)
""")]),
    dict(id='c12-benign-enum-type-qualname', prop='C12', file=_IM,
         expect='silent',
         edits=[('      value_qualname = value.__class__.__qualname__ + "." + value.name',
                 '      value_qualname = f"{type(value).__qualname__}.{value.name}"')]),
    dict(id='c12-importable-uses-name', prop='C12',
         file='fiddle/_src/codegen/py_val_to_cst_converter.py',
         expect='violation', names='LIT.qualified-reference',
         edits=[("    return dotted_name_to_cst(value.__qualname__)",
                 "    return dotted_name_to_cst(value.__name__)")]),
]

_PV = 'fiddle/_src/codegen/py_val_to_cst_converter.py'
CASES += [
    dict(id='c12-benign-slice-shortest-form', prop='C12', file=_PV,
         expect='silent',
         edits=[("""  return cst.Call(
      func=cst.Name('slice'),
      args=[
          cst.Arg(conversion_fn(value.start)),
          cst.Arg(conversion_fn(value.stop)),
          cst.Arg(conversion_fn(value.step)),
      ],
  )""", """  parts = [value.start, value.stop, value.step]
  if value.step is None:
    parts.pop()
    if value.start is None:
      parts.pop(0)
  return cst.Call(
      func=cst.Name('slice'),
      args=[cst.Arg(conversion_fn(part)) for part in parts],
  )""")]),
    dict(id='c12-slice-swapped-arguments', prop='C12', file=_PV,
         expect='violation', names='LIT.slice-arguments',
         edits=[("""          cst.Arg(conversion_fn(value.stop)),
          cst.Arg(conversion_fn(value.step)),""", """          cst.Arg(conversion_fn(value.step)),
          cst.Arg(conversion_fn(value.stop)),""")]),
]
