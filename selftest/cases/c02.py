D = 'fiddle/_src/daglish.py'
B = 'fiddle/_src/building.py'
CASES = [
    dict(id='c02-memo-unpinned', prop='C02', file=D, expect='violation',
         edits=[("      self.memo[value_id] = (value, result)", "      self.memo[value_id] = (None, result)")]),
    dict(id='c02-memo-wrong-slot', prop='C02', file=D, expect='violation',
         edits=[("      return self.memo[value_id][1]", "      return self.memo[value_id][0]")]),
    dict(id='c02-memo-key-state', prop='C02', file=D, expect='violation',
         edits=[("    value_id = id(value)\n    if not self.memoize_internables", "    value_id = id(state)\n    if not self.memoize_internables")]),
    dict(id='c02-cycle-not-removed', prop='C02', file=D, expect='violation',
         edits=[("      self.memo[value_id] = (value, result)\n      del self._cycle_start[value_id]\n", "      self.memo[value_id] = (value, result)\n")]),
    dict(id='c02-cycle-no-raise', prop='C02', file=D, expect='violation',
         edits=[("""      raise ValueError(
          "Fiddle detected a cycle while traversing a value: "
          f"<root>{path_str(original_state.current_path)} is "
          f"<root>{path_str(state.current_path)}."
          " Configurations with cycles are not supported."
      )""", """      return None""")]),
    dict(id='c02-bypass-always', prop='C02', file=D, expect='violation',
         edits=[("    if not self.memoize_internables and is_internable(value):", "    if is_internable(value):")]),
    dict(id='c02-shared-memo', prop='C02', file=D, expect='violation',
         edits=[("  memo: Dict[int, Tuple[Any, Any]] = dataclasses.field(default_factory=dict)", "  memo = {}")]),
    dict(id='c02-call-bypasses-apply', prop='C02', file=D, expect='violation',
         edits=[("    return self.traversal.apply(value, new_state)", "    return self.traversal.traversal_fn(value, new_state)")]),
    dict(id='c02-build-no-internable-memo', prop='C02', file=B, expect='violation',
         edits=[("    result = daglish.MemoizedTraversal.run(_build, buildable)",
                 "    result = _build(buildable, daglish.MemoizedTraversal.begin(_build, buildable, memoize_internables=False))")]),
    dict(id='c02-basic-traversal', prop='C02', file=B, expect='violation',
         edits=[("    result = daglish.MemoizedTraversal.run(_build, buildable)", "    result = daglish.BasicTraversal.run(_build, buildable)")]),
    dict(id='c02-children-filtered', prop='C02', file=D, expect='violation',
         edits=[("        for subvalue, path_element in zip(subvalues, path_elements)\n    ]", "        for subvalue, path_element in zip(subvalues, path_elements)\n        if subvalue is not None\n    ]")]),
    dict(id='c02-memo-before-call', prop='C02', file=D, expect='violation',
         edits=[("""      self._cycle_start[value_id] = state
      result = self.traversal_fn(value, state)
      self.memo[value_id] = (value, result)""", """      self._cycle_start[value_id] = state
      self.memo[value_id] = (value, None)
      result = self.traversal_fn(value, state)""")]),
    # benign
    dict(id='c02-benign-inline-id', prop='C02', file=D, expect='silent',
         edits=[("      return self.memo[value_id][1]", "      return self.memo[id(value)][1]")]),
    dict(id='c02-benign-try-finally-del', prop='C02', file=D, expect='silent',
         edits=[("""      result = self.traversal_fn(value, state)
      self.memo[value_id] = (value, result)
      del self._cycle_start[value_id]
      return result""", """      try:
        result = self.traversal_fn(value, state)
        self.memo[value_id] = (value, result)
      finally:
        del self._cycle_start[value_id]
      return result""")]),
]
