A = 'fiddle/_src/experimental/auto_config.py'
CASES = [
    dict(id='c11-call-drops-kwargs', prop='C11', file=A, expect='violation',
         edits=[("  def __call__(self, /, *args, **kwargs) -> Any:\n    return self.func(*args, **kwargs)", "  def __call__(self, /, *args, **kwargs) -> Any:\n    return self.func(*args)")]),
    dict(id='c11-call-uses-buildable-func', prop='C11', file=A, expect='violation',
         edits=[("  def __call__(self, /, *args, **kwargs) -> Any:\n    return self.func(*args, **kwargs)", "  def __call__(self, /, *args, **kwargs) -> Any:\n    return self.buildable_func(*args, **kwargs)")]),
    dict(id='c11-wrapper-gets-rewritten-fn', prop='C11', file=A, expect='violation',
         edits=[("    return AutoConfig(\n        fn, as_buildable, always_inline=experimental_always_inline\n    )", "    return AutoConfig(\n        auto_config_fn, as_buildable, always_inline=experimental_always_inline\n    )")]),
    dict(id='c11-defaults-not-copied', prop='C11', file=A, expect='violation',
         edits=[("    auto_config_fn.__kwdefaults__ = fn.__kwdefaults__\n", "")]),
    dict(id='c11-try-allowed', prop='C11', file=A, expect='violation',
         edits=[("  def visit_Try(self, node: ast.Try):\n    return self._handle_control_flow(node)", "  def visit_Try(self, node: ast.Try):\n    return self._handle_control_flow(node, activatable=True)")]),
    dict(id='c11-with-passes-through', prop='C11', file=A, expect='violation',
         edits=[("  def visit_With(self, node: ast.With):\n    return self._handle_control_flow(node)", "  def visit_With(self, node: ast.With):\n    return self.generic_visit(node)")]),
    dict(id='c11-gate-ignores-activatable', prop='C11', file=A, expect='violation',
         edits=[("    if self._allow_control_flow and activatable:\n      return self.generic_visit(node)", "    if self._allow_control_flow:\n      return self.generic_visit(node)")]),
    dict(id='c11-while-visitor-removed', prop='C11', file=A, expect='violation',
         edits=[("  def visit_While(self, node: ast.While):\n    return self._handle_control_flow(node, activatable=True)\n\n", "")]),
    dict(id='c11-call-args-not-visited', prop='C11', file=A, expect='violation',
         edits=[("        args=[node.func, *(self.visit(arg) for arg in node.args)],", "        args=[node.func, *node.args],")]),
    dict(id='c11-builtin-calls-left-alone', prop='C11', file=A, expect='violation',
         edits=[("  def visit_Call(self, node: ast.Call):\n    return ast.Call(", "  def visit_Call(self, node: ast.Call):\n    if isinstance(node.func, ast.Name) and node.func.id in ('len', 'list'):\n      return self.generic_visit(node)\n    return ast.Call(")]),
    dict(id='c11-handler-calls-unconditionally', prop='C11', file=A, expect='violation',
         edits=[("    if experimental_exemption_policy(fn_or_cls):\n      return fn_or_cls(*args, **kwargs)", "    if experimental_exemption_policy(fn_or_cls) or not args:\n      pass\n    if not kwargs and not args:\n      return fn_or_cls(*args, **kwargs)")]),
    dict(id='c11-default-path-calls', prop='C11', file=A, expect='violation',
         edits=[("    return experimental_config_types.config_cls(fn_or_cls, *args, **kwargs)\n\n  def auto_config_attr_load_handler", "    return experimental_config_types.config_cls(fn_or_cls, *args)\n\n  def auto_config_attr_load_handler")]),
    dict(id='c11-nested-def-allowed', prop='C11', file=A, expect='violation',
         edits=[("    if self._function_def_depth > 0:\n      msg = 'Nested function definitions are not supported by auto_config.'\n      raise UnsupportedLanguageConstructError(msg, self._location_for(node))\n    else:", "    if True:")]),
    # benign
    dict(id='c11-benign-gate-reordered', prop='C11', file=A, expect='silent',
         edits=[("    if self._allow_control_flow and activatable:\n      return self.generic_visit(node)", "    if activatable and self._allow_control_flow:\n      return self.generic_visit(node)")]),
]

_A = 'fiddle/_src/experimental/auto_config.py'
CASES += [
    dict(id='c11-closure-unsorted-wrong-order', prop='C11', file=_A,
         expect='violation', names='ORD.closure-cells',
         edits=[("""    indexed_handlers = []
    for handler_id, handler in (""", """    indexed_handlers = []
    if _CALL_HANDLER_ID in code.co_freevars:
      handler_idx = code.co_freevars.index(_CALL_HANDLER_ID)
      handler = _make_closure_cell(auto_config_call_handler)
      indexed_handlers.append((handler_idx, handler))
    for handler_id, handler in ("""),
                ("""        indexed_handlers.append((handler_idx, handler))
    if _CALL_HANDLER_ID in code.co_freevars:
      handler_idx = code.co_freevars.index(_CALL_HANDLER_ID)
      handler = _make_closure_cell(auto_config_call_handler)
      indexed_handlers.append((handler_idx, handler))

""", """        indexed_handlers.append((handler_idx, handler))

"""),
                ("    for handler_idx, handler in sorted(indexed_handlers):",
                 "    for handler_idx, handler in indexed_handlers:")]),
    dict(id='c11-benign-closure-unsorted-name-order', prop='C11', file=_A,
         expect='silent',
         edits=[("    for handler_idx, handler in sorted(indexed_handlers):",
                 "    for handler_idx, handler in indexed_handlers:")]),
    dict(id='c11-benign-closure-rename', prop='C11', file=_A, expect='silent',
         edits=[("    for handler_idx, handler in sorted(indexed_handlers):\n      closure.insert(handler_idx, handler)",
                 "    for position, cell in sorted(indexed_handlers):\n      closure.insert(position, cell)")]),
    dict(id='c11-make-partial-assign-in-place', prop='C11', file=_A,
         expect='violation', names='OWN.handler-arguments',
         edits=[("    return copying.copy_with(buildable_or_callable, **kwargs)",
                 "    for name, v in kwargs.items():\n      setattr(buildable_or_callable, name, v)\n    return buildable_or_callable")]),
    dict(id='c11-benign-make-partial-copy-then-set', prop='C11', file=_A,
         expect='silent',
         edits=[("    return copying.copy_with(buildable_or_callable, **kwargs)",
                 "    result = copying.copy_with(buildable_or_callable)\n    for name, v in kwargs.items():\n      setattr(result, name, v)\n    return result")]),
]
