C = 'fiddle/_src/config.py'
S = 'fiddle/_src/signatures.py'
CASES = [
    dict(id='c03-revert-delitem-fix', prop='C03', file=C, expect='violation',
         names='__delitem__',
         edits=[("      if var_positional_start is None or index < var_positional_start:\n        k = self.__signature_info__.index_to_key(index, self.__arguments__)",
                 "      if index < var_positional_start:\n        k = self.__signature_info__.index_to_key(index, self.__arguments__)")]),
    dict(id='c03-slice-none-guard-dropped', prop='C03', file=C, expect='violation',
         edits=[("    if var_positional_start is None or lowest < var_positional_start:",
                 "    if lowest < var_positional_start:")]),
    dict(id='c03-get-default-none', prop='C03', file=S, expect='violation',
         edits=[("""      if (
          self.var_positional_start is None
          or argument < self.var_positional_start
      ):""", """      if argument < self.var_positional_start:""")]),
    dict(id='c03-set-index-none', prop='C03', file=C, expect='violation',
         edits=[("""    if positional_num is None:
      # *args does not exist: only positional parameters can be indexed (not
      # keyword-only parameters or **kwargs).
      positional_num = sum(
          param.kind in (param.POSITIONAL_ONLY, param.POSITIONAL_OR_KEYWORD)
          for param in self.__signature_info__.parameters.values()
      )
""", "")]),
    dict(id='c03-setattr-no-validate', prop='C03', file=C, expect='violation',
         edits=[("    self.__signature_info__.validate_param_name(name, self.__fn_or_cls__)\n    self._arguments_set_value(name, value)",
                 "    self._arguments_set_value(name, value)\n    self.__signature_info__.validate_param_name(name, self.__fn_or_cls__)")]),
    dict(id='c03-set-index-check-after', prop='C03', file=C, expect='violation',
         edits=[("""      raise IndexError(
          f'Cannot set positional argument with index {key}'
          ' (index out of range).'
      )
    self._arguments_set_value(key, value)""", """      self._arguments_set_value(key, value)
      raise IndexError(
          f'Cannot set positional argument with index {key}'
          ' (index out of range).'
      )
    self._arguments_set_value(key, value)""")]),
    dict(id='c03-slice-len-check-late', prop='C03', file=C, expect='violation',
         edits=[("""      if len(indices) != len(value):
        raise ValueError(""", """      for index, v in zip(indices, value):
        self._set_item_by_index(index, v)
      if len(indices) != len(value):
        raise ValueError(""")]),
    dict(id='c03-direct-store', prop='C03', file=C, expect='violation',
         edits=[("    self.__signature_info__.validate_param_name(name, self.__fn_or_cls__)\n    self._arguments_set_value(name, value)",
                 "    self.__signature_info__.validate_param_name(name, self.__fn_or_cls__)\n    self.__arguments__[name] = value")]),
    dict(id='c03-validate-posonly-allowed', prop='C03', file=S, expect='violation',
         edits=[("""      if param.kind == param.POSITIONAL_ONLY:
        raise AttributeError(
            f'Cannot access POSITIONAL_ONLY parameter {name!r} on {fn_or_cls}'
        )
      elif param.kind == param.VAR_POSITIONAL:""", """      if param.kind == param.VAR_POSITIONAL:""")]),
    dict(id='c03-validate-kwargs-ignored', prop='C03', file=S, expect='violation',
         edits=[("    if param is None and not self.has_var_keyword:",
                 "    if param is None and self.has_var_keyword:")]),
    dict(id='c03-index-to-key-kwonly', prop='C03', file=S, expect='violation',
         edits=[("      if param.kind == param.POSITIONAL_OR_KEYWORD:\n        return param.name",
                 "      if param.kind != param.POSITIONAL_ONLY:\n        return param.name")]),
    dict(id='c03-getattr-posonly', prop='C03', file=C, expect='violation',
         edits=[("        param.kind in (param.POSITIONAL_ONLY, param.VAR_POSITIONAL)",
                 "        param.kind in (param.VAR_POSITIONAL,)")]),
    dict(id='c03-setitem-slice-dropped', prop='C03', file=C, expect='violation',
         edits=[("""    elif isinstance(key, slice):
      self._set_item_by_slice(key, value)""", """    elif isinstance(key, slice):
      pass""")]),
    # benign
    dict(id='c03-benign-none-guard-early-return', prop='C03', file=C, expect='silent',
         edits=[("""    if positional_num is None:
      # *args does not exist: only positional parameters can be indexed (not
      # keyword-only parameters or **kwargs).
      positional_num = sum(""", """    if not (positional_num is not None):
      positional_num = sum(""")]),
    dict(id='c03-benign-validate-tuple', prop='C03', file=S, expect='silent',
         edits=[("""      if param.kind == param.POSITIONAL_ONLY:
        raise AttributeError(
            f'Cannot access POSITIONAL_ONLY parameter {name!r} on {fn_or_cls}'
        )
      elif param.kind == param.VAR_POSITIONAL:
        raise AttributeError(
            f'Cannot access VAR_POSITIONAL parameter {name!r} on {fn_or_cls}'
        )
      elif""", """      if param.kind in (param.POSITIONAL_ONLY, param.VAR_POSITIONAL):
        raise AttributeError(
            f'Cannot access {param.kind.name} parameter {name!r} on {fn_or_cls}'
        )
      elif""")]),
    dict(id='c03-benign-get-default-split', prop='C03', file=S, expect='silent',
         edits=[("""      if (
          self.var_positional_start is None
          or argument < self.var_positional_start
      ):""", """      start = self.var_positional_start
      if start is None or argument < start:""")]),
]

CASES += [
    dict(id='c03-benign-delete-reversed-sorted', prop='C03', file=C,
         expect='silent',
         edits=[("    for index in sorted(indices, reverse=True):",
                 "    for index in reversed(sorted(indices)):")]),
    dict(id='c03-delete-unsorted', prop='C03', file=C, expect='violation',
         names='DOM.delete-discipline',
         edits=[("    for index in sorted(indices, reverse=True):",
                 "    for index in reversed(indices):")]),
    dict(id='c03-benign-delitem-range-two-tests', prop='C03', file=C,
         expect='silent',
         edits=[("      if not 0 <= key < len(all_positional_args):",
                 "      if key < 0 or key >= len(all_positional_args):")]),
    dict(id='c03-delitem-upper-bound-off-by-one', prop='C03', file=C,
         expect='violation', names='BOUND.index-range',
         edits=[("      if not 0 <= key < len(all_positional_args):",
                 "      if key < 0 or key > len(all_positional_args):")]),
    dict(id='c03-benign-slot-count-comprehension', prop='C03', file=C,
         expect='silent',
         edits=[("""      positional_num = sum(
          param.kind in (param.POSITIONAL_ONLY, param.POSITIONAL_OR_KEYWORD)
          for param in self.__signature_info__.parameters.values()
      )""", """      positional_num = len([
          p for p in self.__signature_info__.parameters.values()
          if p.kind in (p.POSITIONAL_ONLY, p.POSITIONAL_OR_KEYWORD)
      ])""")]),
    dict(id='c03-index-to-key-no-negative-check', prop='C03', file=S,
         expect='violation', names='BOUND.index-range',
         edits=[("""      if index < 0:
        raise IndexError('Positional argument index out of range.')
""", "")]),
    dict(id='c03-snapshot-dropped', prop='C03', file=C, expect='violation',
         names='DEFUSE.shift-snapshot',
         edits=[("              new_value = old_arguments[new_value.index]\n          self._arguments_set_value(index, new_value)\n        else:",
                 "              new_value = self.__arguments__[new_value.index]\n          self._arguments_set_value(index, new_value)\n        else:")]),
    dict(id='c03-benign-snapshot-dict', prop='C03', file=C, expect='silent',
         edits=[("      old_arguments = self.__arguments__.copy()",
                 "      old_arguments = dict(self.__arguments__)")]),
    dict(id='c03-view-without-unset-slots', prop='C03', file=C,
         expect='violation', names='AGREE.positional-view',
         edits=[("""    key = self.__signature_info__.replace_varargs_handle(key)
    all_positional_args, _ = self.__signature_info__.transform_to_args_kwargs(
        self.__arguments__,
        include_pos_or_kw_in_args=True,
        include_no_value=True,
    )
    var_positional_start = self.__signature_info__.var_positional_start
    if isinstance(key, slice):""", """    key = self.__signature_info__.replace_varargs_handle(key)
    all_positional_args, _ = self.__signature_info__.transform_to_args_kwargs(
        self.__arguments__,
        include_pos_or_kw_in_args=True,
    )
    var_positional_start = self.__signature_info__.var_positional_start
    if isinstance(key, slice):""")]),
]
