T = 'fiddle/_src/tagging.py'
S = 'fiddle/_src/selectors.py'
C = 'fiddle/_src/config.py'
M = 'fiddle/_src/mutate_buildable.py'
CASES = [
    dict(id='c14-revert-set-tagged-fix', prop='C14', file=T, expect='violation',
         edits=[("          if isinstance(key, int):\n            node[key] = value  # Positional arguments are keyed by index.\n          else:\n            setattr(node, key, value)", "          setattr(node, key, value)")]),
    dict(id='c14-set-tagged-superclass-direction', prop='C14', file=T, expect='violation',
         edits=[("        if any(issubclass(t, tag) for t in tags):\n          if isinstance(key, int):", "        if any(issubclass(tag, t) for t in tags):\n          if isinstance(key, int):")]),
    dict(id='c14-set-tagged-any-node-tag', prop='C14', file=T, expect='violation',
         edits=[("      for key, tags in node.__argument_tags__.items():\n        if any(issubclass(t, tag) for t in tags):\n          if isinstance(key, int):",
                 "      all_tags = set().union(*node.__argument_tags__.values())\n      for key, tags in node.__argument_tags__.items():\n        if any(issubclass(t, tag) for t in all_tags):\n          if isinstance(key, int):")]),
    dict(id='c14-set-tagged-unmemoized', prop='C14', file=T, expect='violation',
         edits=[("  for node, _ in daglish.iterate(root):\n    if isinstance(node, config.Buildable):\n      for key, tags", "  for node, _ in daglish.iterate(root, memoized=False):\n    if isinstance(node, config.Buildable):\n      for key, tags")]),
    dict(id='c14-add-tag-no-validation', prop='C14', file=T, expect='violation',
         edits=[("""  _validate_argument_name(buildable, argument)
  if isinstance(argument, int):
    argument = buildable.__signature_info__.index_to_key(
        argument, buildable.__arguments__
    )
  buildable.__argument_tags__[argument].add(tag)""", """  if isinstance(argument, int):
    argument = buildable.__signature_info__.index_to_key(
        argument, buildable.__arguments__
    )
  buildable.__argument_tags__[argument].add(tag)""")]),
    dict(id='c14-clear-tags-raw-index', prop='C14', file=T, expect='violation',
         edits=[("""  _validate_argument_name(buildable, argument)
  if isinstance(argument, int):
    argument = buildable.__signature_info__.index_to_key(
        argument, buildable.__arguments__
    )
  buildable.__argument_tags__[argument].clear()""", """  _validate_argument_name(buildable, argument)
  buildable.__argument_tags__[argument].clear()""")]),
    dict(id='c14-flatten-drops-tags-of-unset', prop='C14', file=C, expect='violation',
         edits=[("      if tags  # Don't include empty sets.", "      if tags and name in arguments  # Don't include empty sets.")]),
    dict(id='c14-tagged-value-overwrites-tags', prop='C14', file=C, expect='violation',
         edits=[("        self.__argument_tags__[key].update(tags)\n        self.__argument_history__.add_updated_tags(\n            key, self.__argument_tags__[key]\n        )\n      if 'value' in value.__arguments__:",
                 "        self.__argument_tags__[key].update(tags)\n        self.__argument_history__.add_updated_tags(\n            key, self.__argument_tags__[key]\n        )\n      self.__arguments__[key] = value\n      if 'value' in value.__arguments__:")]),
    dict(id='c14-unfilled-tagged-value-builds-none', prop='C14', file=C, expect='violation',
         edits=[("    if tags:\n      msg += ' Unset tags: ' + str(tags)\n    raise tag_type.TaggedValueNotFilledError(msg)\n  return value", "    if tags:\n      msg += ' Unset tags: ' + str(tags)\n    return None\n  return value")]),
    dict(id='c14-list-tags-keys-only', prop='C14', file=T, expect='violation',
         edits=[("      for node_tags in value.__argument_tags__.values():\n        tags.update(node_tags)", "      for node_tags in list(value.__argument_tags__.values())[:1]:\n        tags.update(node_tags)")]),
    dict(id='c15-matches-superclass', prop='C15', file=S, expect='violation',
         edits=[("            and issubclass(config_lib.get_callable(node), self.fn_or_cls))", "            and issubclass(self.fn_or_cls, config_lib.get_callable(node)))")]),
    dict(id='c15-matches-ignores-flag', prop='C15', file=S, expect='violation',
         edits=[("            self.match_subclasses  #\n            and isinstance(self.fn_or_cls, type)  #", "            isinstance(self.fn_or_cls, type)  #")]),
    dict(id='c15-matches-no-type-filter', prop='C15', file=S, expect='violation',
         edits=[("    if not isinstance(node, self.buildable_type):\n      return False\n", "")]),
    dict(id='c15-replace-returns-rebuilt', prop='C15', file=S, expect='violation',
         edits=[("""          mutate_buildable.move_buildable_internals(
              source=result, destination=node)
        else:
          node = result""", """          node = result
        else:
          node = result""")]),
    dict(id='c15-replace-root-not-moved', prop='C15', file=S, expect='violation',
         edits=[("    mutate_buildable.move_buildable_internals(\n        source=new_config, destination=self.cfg)", "    del new_config")]),
    dict(id='c15-iter-yields-all', prop='C15', file=S, expect='violation',
         edits=[("    for value in _memoized_walk_leaves_first(self.cfg):\n      if self._matches(value):\n        yield value", "    for value in _memoized_walk_leaves_first(self.cfg):\n      if isinstance(value, config_lib.Buildable):\n        yield value")]),
    dict(id='c15-walk-skips-containers', prop='C15', file=S, expect='violation',
         edits=[("  if state.is_traversable(value):\n    for sub_result in state.yield_map_child_values(value):\n      yield from sub_result\n  yield value",
                 "  if state.is_traversable(value):\n    for sub_result in state.yield_map_child_values(value):\n      yield from sub_result\n    if not isinstance(value, config_lib.Buildable):\n      return\n  yield value")]),
    dict(id='c15-internals-missing-tags', prop='C15', file=M, expect='violation',
         edits=[("    '__argument_tags__',\n", "")]),
    dict(id='c15-select-drops-buildable-type', prop='C15', file=S, expect='violation',
         edits=[("        match_subclasses=match_subclasses,\n        buildable_type=buildable_type,\n", "        match_subclasses=match_subclasses,\n        buildable_type=config_lib.Buildable,\n")]),
    dict(id='c15-revert-tag-iter-fix', prop='C15', file=S, expect='violation',
         edits=[("""            if isinstance(name, int):
              # Positional arguments are keyed by index.
              positional = value[:]
              yield (
                  positional[name]
                  if name < len(positional)
                  else tagging.NO_VALUE
              )
            else:
              yield getattr(value, name, tagging.NO_VALUE)""", """            yield getattr(value, name, tagging.NO_VALUE)""")]),
    # benign
    dict(id='c15-benign-rename-result', prop='C15', file=S, expect='silent',
         edits=[("        result = state.map_children(node)\n        if isinstance(node, config_lib.Buildable):\n          mutate_buildable.move_buildable_internals(\n              source=result, destination=node)\n        else:\n          node = result",
                 "        rebuilt = state.map_children(node)\n        if isinstance(node, config_lib.Buildable):\n          mutate_buildable.move_buildable_internals(\n              source=rebuilt, destination=node)\n        else:\n          node = rebuilt")]),
    dict(id='c14-benign-early-continue', prop='C14', file=T, expect='silent',
         edits=[("        if any(issubclass(t, tag) for t in tags):\n          if isinstance(key, int):\n            node[key] = value  # Positional arguments are keyed by index.\n          else:\n            setattr(node, key, value)",
                 "        if not any(issubclass(t, tag) for t in tags):\n          continue\n        if isinstance(key, str):\n          setattr(node, key, value)\n        else:\n          node[key] = value")]),
]
