D = 'fiddle/_src/diffing.py'
G = 'fiddle/_src/codegen/codegen_diff.py'
CASES = [
    dict(id='c10-order-set-before-modify', prop='C10', file=D, expect='violation',
         edits=[("  for op_type in (DeleteValue, RemoveTag, ModifyValue, SetValue, AddTag):", "  for op_type in (SetValue, DeleteValue, RemoveTag, ModifyValue, AddTag):")]),
    dict(id='c10-order-addtag-first', prop='C10', file=D, expect='violation',
         edits=[("  for op_type in (DeleteValue, RemoveTag, ModifyValue, SetValue, AddTag):", "  for op_type in (AddTag, DeleteValue, RemoveTag, ModifyValue, SetValue):")]),
    dict(id='c10-order-drops-removetag', prop='C10', file=D, expect='violation',
         edits=[("  for op_type in (DeleteValue, RemoveTag, ModifyValue, SetValue, AddTag):", "  for op_type in (DeleteValue, ModifyValue, SetValue, AddTag):")]),
    dict(id='c10-no-deepcopy', prop='C10', file=D, expect='violation',
         edits=[("  diff = copy.deepcopy(diff)\n", "")]),
    dict(id='c10-validate-after-apply', prop='C10', file=D, expect='violation',
         edits=[("  _validate_changes(changes, path_to_value)\n", ""),
                ("        diff_op.apply(parent, diff_op.target[-1])\n", "        diff_op.apply(parent, diff_op.target[-1])\n  _validate_changes(changes, path_to_value)\n")]),
    dict(id='c10-setvalue-silent-default', prop='C10', file=D, expect='violation',
         edits=[("    else:\n      raise ValueError(f'SetValue does not support {child}.')", "    else:\n      pass")]),
    dict(id='c10-modify-no-index', prop='C10', file=D, expect='violation',
         edits=[("    elif isinstance(child, daglish.Index):\n      parent[child.index] = self.new_value\n    elif isinstance(child, daglish.Key):\n      parent[child.key] = self.new_value\n    else:\n      raise ValueError(f'ModifyValue does not support {child}.')",
                 "    elif isinstance(child, daglish.Key):\n      parent[child.key] = self.new_value\n    else:\n      raise ValueError(f'ModifyValue does not support {child}.')")]),
    dict(id='c10-root-change-allowed', prop='C10', file=D, expect='violation',
         edits=[("    if not target:\n      errors.append('Modifying the root `structure` object is not supported')\n      continue\n", "")]),
    dict(id='c10-resolve-mutates-diff', prop='C10', file=D, expect='violation',
         edits=[("      changes.append(dataclasses.replace(change, new_value=new_value))", "      object.__setattr__(change, 'new_value', new_value)\n      changes.append(change)")]),
    dict(id='c10-alignment-one-sided', prop='C10', file=D, expect='violation',
         edits=[("    self._new_by_old_id[id(old_value)] = new_value\n    self._old_by_new_id[id(new_value)] = old_value", "    self._new_by_old_id[id(old_value)] = id(new_value)\n    self._old_by_new_id[id(new_value)] = id(old_value)")]),
    dict(id='c13-revert-section-order', prop='C13', file=G, expect='violation',
         edits=[("""  body += _cst_for_moved_value_variables(param_name, moved_value_names,
                                         pyval_to_cst)
  body += _cst_for_new_shared_value_variables(diff.new_shared_values,
                                              new_shared_value_names,
                                              pyval_to_cst)""", """  body += _cst_for_new_shared_value_variables(diff.new_shared_values,
                                              new_shared_value_names,
                                              pyval_to_cst)
  body += _cst_for_moved_value_variables(param_name, moved_value_names,
                                         pyval_to_cst)""")]),
    dict(id='c13-changes-before-shared', prop='C13', file=G, expect='violation',
         edits=[("""  body += _cst_for_new_shared_value_variables(diff.new_shared_values,
                                              new_shared_value_names,
                                              pyval_to_cst)
  body += _cst_for_changes(diff, param_name, moved_value_names, pyval_to_cst)""", """  body += _cst_for_changes(diff, param_name, moved_value_names, pyval_to_cst)
  body += _cst_for_new_shared_value_variables(diff.new_shared_values,
                                              new_shared_value_names,
                                              pyval_to_cst)""")]),
    dict(id='c13-shared-sorted-by-name', prop='C13', file=G, expect='violation',
         edits=[("  for index in _new_shared_value_order(values, names):", "  for index in sorted(range(len(values)), key=lambda i: names[i]):")]),
    dict(id='c13-assigns-before-callable', prop='C13', file=G, expect='violation',
         edits=[("    body.extend(deletes)\n    if update_callable is not None:\n      body.append(update_callable)\n    body.extend(assigns)", "    body.extend(deletes)\n    body.extend(assigns)\n    if update_callable is not None:\n      body.append(update_callable)")]),
    dict(id='c13-removetag-grouped-late', prop='C13', file=G, expect='violation',
         edits=[("""        arg_name = change.target[-1].name
        deletes.append(
            cst.Expr(
                cst.Call(
                    func=pyval_to_cst(tagging.remove_tag),""", """        arg_name = change.target[-1].name
        assigns.append(
            cst.Expr(
                cst.Call(
                    func=pyval_to_cst(tagging.remove_tag),""")]),
    dict(id='c13-unknown-op-ignored', prop='C13', file=G, expect='violation',
         edits=[("      else:\n        raise ValueError(f'Unsupported DiffOperation {type(change)}')", "      else:\n        continue")]),
    dict(id='c13-names-not-from-namespace', prop='C13', file=G, expect='violation',
         edits=[("      namespace.get_new_name(_name_for_value(value), 'shared_')\n", "      'shared_' + _name_for_value(value)\n")]),
    # benign
    dict(id='c13-benign-shared-in-diff-order', prop='C13', file=G, expect='silent',
         edits=[("  for index in _new_shared_value_order(values, names):", "  for index in range(len(values)):")]),
    dict(id='c10-benign-order-tags-adjacent', prop='C10', file=D, expect='silent',
         edits=[("  for op_type in (DeleteValue, RemoveTag, ModifyValue, SetValue, AddTag):", "  for op_type in (RemoveTag, DeleteValue, ModifyValue, AddTag, SetValue):")]),
]
