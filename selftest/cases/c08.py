D = 'fiddle/_src/daglish.py'
C = 'fiddle/_src/config.py'
S = 'fiddle/_src/experimental/serialization.py'
L = 'fiddle/_src/experimental/daglish_legacy.py'
CASES = [
    dict(id='c08-dict-index-elements', prop='C08', file=D, expect='violation',
         edits=[("    path_elements_fn=lambda x: [Key(key) for key in x.keys()])",
                 "    path_elements_fn=lambda x: [Index(i) for i in range(len(x))])")]),
    dict(id='c08-list-reversed', prop='C08', file=D, expect='violation',
         edits=[("""    list,
    flatten_fn=lambda x: (tuple(x), None),""", """    list,
    flatten_fn=lambda x: (tuple(reversed(x)), None),""")]),
    dict(id='c08-defaultdict-zip-swapped', prop='C08', file=D, expect='violation',
         edits=[("  return collections.defaultdict(default_factory, zip(keys, values))",
                 "  return collections.defaultdict(default_factory, zip(values, keys))")]),
    dict(id='c08-with-paths-off-by-one', prop='C08', file=D, expect='violation',
         edits=[("""    unflatten_fn=lambda x, _: list(x),
    path_elements_fn=lambda x: tuple(Index(i) for i in range(len(x))),
    flatten_with_paths_fn=lambda xs: ((x, Index(i)) for i, x in enumerate(xs)),""",
                 """    unflatten_fn=lambda x, _: list(x),
    path_elements_fn=lambda x: tuple(Index(i) for i in range(len(x))),
    flatten_with_paths_fn=lambda xs: ((x, Index(i + 1)) for i, x in enumerate(xs)),""")]),
    dict(id='c08-key-follow-get', prop='C08', file=D, expect='violation',
         edits=[("    return container[self.key]", "    return container.get(self.key)")]),
    dict(id='c08-attr-follow-item', prop='C08', file=D, expect='violation',
         edits=[("    return getattr(container, self.name)", "    return container[self.name]")]),
    dict(id='c08-follow-path-skips', prop='C08', file=D, expect='violation',
         edits=[("  for i, path_elt in enumerate(path):\n    try:", "  for i, path_elt in enumerate(path[1:]):\n    try:")]),
    dict(id='c08-slice-names-swapped', prop='C08', file=S, expect='violation',
         edits=[("        daglish.Attr(k) for k in ['start', 'stop', 'step']", "        daglish.Attr(k) for k in ['start', 'step', 'stop']")]),
    dict(id='c08-collect-paths-memoized', prop='C08', file=D, expect='violation',
         edits=[("  traversal = BasicTraversal(traverse, structure, registry=registry)\n  traverse(structure",
                 "  traversal = MemoizedTraversal(traverse, structure, registry=registry)\n  traverse(structure")]),
    dict(id='c08-map-children-raw', prop='C08', file=D, expect='violation',
         edits=[("    return node_traverser.unflatten(result.values, result.metadata)", "    return result.values")]),
    dict(id='c08-buildable-elements-no-defaults', prop='C08', file=C, expect='violation',
         edits=[("""      for name in ordered_arguments(
          buildable, include_defaults=include_defaults
      ).keys()""", """      for name in ordered_arguments(
          buildable, include_defaults=False
      ).keys()""")]),
    dict(id='c08-buildable-attr-for-int', prop='C08', file=C, expect='violation',
         edits=[("      daglish.Attr(name) if isinstance(name, str) else daglish.Index(name)",
                 "      daglish.Attr(name) if isinstance(name, int) else daglish.Index(name)")]),
    dict(id='c08-iterate-wrong-path', prop='C08', file=D, expect='violation',
         edits=[("    yield node, state.current_path\n", "    yield node, state.current_path[:-1]\n")]),
    dict(id='c08-paths-table-temp', prop='C08', file=D, expect='violation',
         edits=[("      paths_by_id.setdefault(id(value), []).append(state.current_path)",
                 "      paths_by_id.setdefault(id(state), []).append(state.current_path)")]),
    dict(id='c08-legacy-zip-misaligned', prop='C08', file=L, expect='violation',
         edits=[("            for path_element, subtree in zip(path_elements, values)",
                 "            for path_element, subtree in zip(path_elements[1:], values)")]),
    # benign
    dict(id='c08-benign-dict-iter', prop='C08', file=D, expect='silent',
         edits=[("    path_elements_fn=lambda x: [Key(key) for key in x.keys()])", "    path_elements_fn=lambda x: tuple(Key(k) for k in x))")]),
    dict(id='c08-benign-namedtuple-fields', prop='C08', file=D, expect='silent',
         edits=[("    path_elements_fn=lambda x: tuple(Attr(name) for name in x._asdict().keys()))", "    path_elements_fn=lambda x: tuple(Attr(f) for f in x._fields))")]),
    dict(id='c08-benign-postorder-iterate', prop='C08', file=D, expect='silent',
         edits=[("""    yield node, state.current_path
    for sub_result in state.yield_map_child_values(node, ignore_leaves=True):
      yield from sub_result""", """    for sub_result in state.yield_map_child_values(node, ignore_leaves=True):
      yield from sub_result
    yield node, state.current_path""")]),
]
