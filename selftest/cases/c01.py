C = 'fiddle/_src/config.py'
S = 'fiddle/_src/signatures.py'
B = 'fiddle/_src/building.py'
CASES = [
    dict(id='c01-revert-gap-fix-posonly', prop='C01', file=S, expect='violation',
         names='POSITIONAL_ONLY',
         edits=[("""          add_positional(self.get_default(index, NO_VALUE))
        else:
          skipped.append(param)
      if param.kind == param.POSITIONAL_OR_KEYWORD:""", """          add_positional(self.get_default(index, NO_VALUE))
      if param.kind == param.POSITIONAL_OR_KEYWORD:""")]),
    dict(id='c01-revert-gap-fix-poskw', prop='C01', file=S, expect='violation',
         names='POSITIONAL_OR_KEYWORD',
         edits=[("""            add_positional(self.get_default(index, NO_VALUE))
          else:
            skipped.append(param)
""", """            add_positional(self.get_default(index, NO_VALUE))
""")]),
    dict(id='c01-varargs-bypass-skip-record', prop='C01', file=S, expect='violation',
         edits=[("""      while index in arguments:
        add_positional(arguments[index])""", """      while index in arguments:
        positional_values.append(arguments[index])""")]),
    dict(id='c01-flush-never-raises', prop='C01', file=S, expect='violation',
         edits=[("""        if skipped_param.default is skipped_param.empty:
          raise TypeError(
              'Cannot pass a positional argument after the positional '
              f'parameter {skipped_param.name!r}, which has no value set and '
              'no default.'
          )
        positional_values.append(skipped_param.default)""", """        if skipped_param.default is not skipped_param.empty:
          positional_values.append(skipped_param.default)""")]),
    dict(id='c01-keyword-mode-ignores-varargs', prop='C01', file=S, expect='violation',
         edits=[("        if include_pos_or_kw_in_args or self.var_positional_start in arguments:",
                 "        if include_pos_or_kw_in_args:")]),
    dict(id='c01-poskw-not-deleted', prop='C01', file=S, expect='violation',
         edits=[("""            add_positional(arguments[param.name])
            del arguments[param.name]""", """            add_positional(arguments[param.name])""")]),
    dict(id='c01-binding-posonly-by-name', prop='C01', file=S, expect='violation',
         edits=[("""        value = arguments.pop(param.name)
        arguments[index] = value""", """        value = arguments.pop(param.name)
        arguments[param.name] = value""")]),
    dict(id='c01-binding-kind-swapped', prop='C01', file=S, expect='violation',
         edits=[("""      # Use the index as key for positional only arguments
      if param.kind == param.POSITIONAL_ONLY:""", """      # Use the index as key for positional only arguments
      if param.kind == param.POSITIONAL_OR_KEYWORD:""")]),
    dict(id='c01-no-copy', prop='C01', file=S, expect='violation',
         edits=[("    arguments = arguments.copy()\n", "    arguments = arguments\n")]),
    dict(id='c01-call-buildable-flags', prop='C01', file=B, expect='violation',
         edits=[("""  args, kwargs = buildable.__signature_info__.transform_to_args_kwargs(
      arguments
  )""", """  args, kwargs = buildable.__signature_info__.transform_to_args_kwargs(
      arguments, include_no_value=True
  )""")]),
    dict(id='c01-kwargs-filtered', prop='C01', file=B, expect='violation',
         edits=[("""  make_message = functools.partial(""", """  kwargs.pop('self', None)
  make_message = functools.partial(""")]),
    dict(id='c01-config-build-drops-kwargs', prop='C01', file=C, expect='violation',
         edits=[("    return self.__fn_or_cls__(*args, **kwargs)\n\n\ndef tagged_value_fn",
                 "    return self.__fn_or_cls__(*args)\n\n\ndef tagged_value_fn")]),
    dict(id='c01-original-args-passed', prop='C01', file=B, expect='violation',
         edits=[("      arguments = metadata.arguments(sub_traversal.values)",
                 "      arguments = metadata.arguments(value.__flatten__()[0])")]),
    dict(id='c01-ordered-args-posonly-by-name', prop='C01', file=C, expect='violation',
         edits=[("""          if param.kind == param.POSITIONAL_ONLY:
            result[index] = value
          else:
            result[name] = value""", """          result[name] = value""")]),
    # benign
    dict(id='c01-benign-elif', prop='C01', file=S, expect='silent',
         edits=[("""          skipped.append(param)
      if param.kind == param.POSITIONAL_OR_KEYWORD:""", """          skipped.append(param)
      elif param.kind == param.POSITIONAL_OR_KEYWORD:""")]),
    dict(id='c01-benign-rename-helper', prop='C01', file=S, expect='silent',
         edits=[("    def add_positional(value):", "    def emit(value):"),
                ("          add_positional(arguments[index])\n          del arguments[index]\n        elif", "          emit(arguments[index])\n          del arguments[index]\n        elif"),
                ("          add_positional(self.get_default(index, NO_VALUE))\n        else:", "          emit(self.get_default(index, NO_VALUE))\n        else:"),
                ("            add_positional(arguments[param.name])", "            emit(arguments[param.name])"),
                ("            add_positional(self.get_default(index, NO_VALUE))\n          else:", "            emit(self.get_default(index, NO_VALUE))\n          else:"),
                ("        add_positional(arguments[index])\n        del arguments[index]\n        index += 1", "        emit(arguments[index])\n        del arguments[index]\n        index += 1")]),
    dict(id='c01-benign-dict-copy', prop='C01', file=S, expect='silent',
         edits=[("    arguments = arguments.copy()\n", "    arguments = dict(arguments)\n")]),
]
