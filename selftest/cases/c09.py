S = 'fiddle/_src/experimental/serialization.py'
C = 'fiddle/_src/config.py'
CASES = [
    dict(id='c09-revert-codec-fix', prop='C09', file=S, expect='violation',
         edits=[("flatten_fn=lambda x: ((x.decode('latin-1'),), None),", "flatten_fn=lambda x: ((x.decode('raw_unicode_escape'),), None),"),
                ("unflatten_fn=lambda values, _: values[0].encode('latin-1'),", "unflatten_fn=lambda values, _: values[0].encode('raw_unicode_escape'),")]),
    dict(id='c09-codec-asymmetric', prop='C09', file=S, expect='violation',
         edits=[("unflatten_fn=lambda values, _: values[0].encode('latin-1'),", "unflatten_fn=lambda values, _: values[0].encode('utf-8'),")]),
    dict(id='c09-import-before-policy', prop='C09', file=S, expect='violation',
         edits=[("""  if policy.allows_import(module, symbol):
    module = special_overrides""", """  importlib.import_module(module)
  if policy.allows_import(module, symbol):
    module = special_overrides""")]),
    dict(id='c09-value-check-dropped', prop='C09', file=S, expect='violation',
         edits=[("""    if policy.allows_value(value):
      return value
""", """    return value
""")]),
    dict(id='c09-policy-or-bypass', prop='C09', file=S, expect='violation',
         edits=[("  if policy.allows_import(module, symbol):\n    module = special_overrides", "  if policy.allows_import(module, symbol) or module.startswith('fiddle'):\n    module = special_overrides")]),
    dict(id='c09-deser-own-import', prop='C09', file=S, expect='violation',
         edits=[("""    return import_symbol(self._pyref_policy, pyref[_MODULE_KEY],
                         pyref[_NAME_KEY])""", """    if pyref[_MODULE_KEY] == 'builtins':
      return getattr(importlib.import_module('builtins'), pyref[_NAME_KEY])
    return import_symbol(self._pyref_policy, pyref[_MODULE_KEY],
                         pyref[_NAME_KEY])""")]),
    dict(id='c09-policy-default-always', prop='C09', file=S, expect='violation',
         edits=[("""    # The active PyrefPolicy.
    self._pyref_policy = pyref_policy or DefaultPyrefPolicy()
    # The deserialized result.""", """    self._pyref_policy = DefaultPyrefPolicy()
    # The deserialized result.""")]),
    dict(id='c09-load-json-drops-policy', prop='C09', file=S, expect='violation',
         edits=[("  return Deserialization(json.loads(serialized_value), pyref_policy).result", "  return Deserialization(json.loads(serialized_value)).result")]),
    dict(id='c09-memo-unpinned', prop='C09', file=S, expect='violation',
         edits=[("      self._objects[name] = output\n      self._ref_values.append(value)\n", "      self._objects[name] = output\n")]),
    dict(id='c09-unserializable-silent', prop='C09', file=S, expect='violation',
         edits=[("""        msg = (f'Unserializable value {value} of type {type(value)}. Error '
               f'occurred at path {path_str(current_path)!r}.")')
        raise UnserializableValueError(msg)""", """        output = self._leaf(repr(value))""")]),
    dict(id='c09-pyref-no-identity-check', prop='C09', file=S, expect='violation',
         edits=[("    if not matches(value, imported_value):", "    if imported_value is None:")]),
    dict(id='c09-unflatten-calls-callable', prop='C09', file=C, expect='violation',
         edits=[("    rebuilt = cls.__new__(cls)\n    rebuilt.__init_callable__(metadata.fn_or_cls)", "    rebuilt = cls.__new__(cls)\n    metadata.fn_or_cls()\n    rebuilt.__init_callable__(metadata.fn_or_cls)")]),
    dict(id='c09-history-serialized', prop='C09', file=S, expect='violation',
         edits=[("      if isinstance(metadata, config_lib.BuildableTraverserMetadata):\n        metadata = metadata.without_history()\n", "")]),
    dict(id='c09-items-filtered', prop='C09', file=S, expect='violation',
         edits=[("    values = [value for _, value in self._deserialize(serialized_items)]", "    values = [value for _, value in self._deserialize(serialized_items) if value is not None]")]),
    # benign
    dict(id='c09-benign-iso-codec', prop='C09', file=S, expect='silent',
         edits=[("flatten_fn=lambda x: ((x.decode('latin-1'),), None),", "flatten_fn=lambda x: ((x.decode('iso-8859-1'),), None),"),
                ("unflatten_fn=lambda values, _: values[0].encode('latin-1'),", "unflatten_fn=lambda values, _: values[0].encode('iso-8859-1'),")]),
    dict(id='c09-benign-early-raise', prop='C09', file=S, expect='silent',
         edits=[("""  value = PyrefPolicyError.PRE_IMPORT
  if policy.allows_import(module, symbol):""", """  value = PyrefPolicyError.PRE_IMPORT
  if not policy.allows_import(module, symbol):
    raise PyrefPolicyError(policy, module, symbol, value)
  if True:""")]),
]
