X = 'fiddle/_src/daglish_extensions.py'
D = 'fiddle/_src/daglish.py'
U = 'fiddle/_src/absl_flags/utils.py'
F = 'fiddle/_src/absl_flags/flags.py'
P = 'fiddle/_src/printing.py'
CASES = [
    dict(id='c18-revert-empty-key-fix', prop='C18', file=X, expect='violation',
         edits=[("""            r"\\[(?P<key>-?\\d+|'[^']*'|\\"[^\\"]*\\")\\]",""", """            r"\\[(?P<key>-?\\d+|'[^']+'|\\"[^\\"]+\\")\\]",""")]),
    dict(id='c18-key-printed-with-str', prop='C18', file=D, expect='violation',
         edits=[('    return f"[{self.key!r}]"', '    return f"[{self.key!s}]"')]),
    dict(id='c18-index-printed-in-parens', prop='C18', file=D, expect='violation',
         edits=[('    return f"[{self.index}]"', '    return f"({self.index})"')]),
    dict(id='c18-parser-no-underscore-start', prop='C18', file=X, expect='violation',
         edits=[('            r"\\.(?P<attr_name>[\\w_]+)",', '            r"\\.(?P<attr_name>[a-zA-Z][\\w_]*)",')]),
    dict(id='c18-parser-key-as-attr', prop='C18', file=X, expect='violation',
         edits=[('      result.append(daglish.Key(ast.literal_eval(match_dict["key"])))', '      result.append(daglish.Attr(match_dict["key"]))')]),
    dict(id='c18-path-str-strips-always', prop='C18', file=P, expect='violation',
         edits=[("  return (path_str[1:]\n          if path and isinstance(path[0], daglish.Attr) else path_str)", "  return path_str[1:]")]),
    dict(id='c18-set-value-rsplit', prop='C18', file=U, expect='violation',
         edits=[("  path, value = assignment.split('=', maxsplit=1)", "  path, value = assignment.rsplit('=', maxsplit=1)")]),
    dict(id='c18-set-value-key-as-attr', prop='C18', file=U, expect='violation',
         edits=[("      walk[last.key] = literal_value", "      setattr(walk, str(last.key), literal_value)")]),
    dict(id='c18-queue-pop-last', prop='C18', file=F, expect='violation',
         edits=[("      item = self._remaining_directives.pop(0)", "      item = self._remaining_directives.pop()")]),
    dict(id='c18-queue-sorted', prop='C18', file=F, expect='violation',
         edits=[("    self._remaining_directives.extend(new_parsed)", "    self._remaining_directives.extend(new_parsed)\n    self._remaining_directives.sort(key=lambda d: not d.startswith('config'))")]),
    dict(id='c18-command-missing-dispatch', prop='C18', file=F, expect='violation',
         edits=[('_COMMAND_RE = re.compile(r"^(config|config_file|config_str|fiddler|set):(.+)$")', '_COMMAND_RE = re.compile(r"^(config|config_file|config_str|fiddler|set|unset):(.+)$")')]),
    dict(id='c18-base-directives-table', prop='C18', file=F, expect='violation',
         edits=[('_BASE_CONFIG_DIRECTIVES = {"config", "config_file", "config_str"}', '_BASE_CONFIG_DIRECTIVES = {"config", "config_file"}')]),
    dict(id='c18-serializer-no-decompress', prop='C18', file=U, expect='violation',
         edits=[("        zlib.decompress(base64.urlsafe_b64decode(serialized)).decode(),", "        base64.urlsafe_b64decode(serialized).decode(),")]),
    dict(id='c18-serializer-std-b64-decode', prop='C18', file=U, expect='violation',
         edits=[("        zlib.decompress(base64.urlsafe_b64decode(serialized)).decode(),", "        zlib.decompress(base64.b64decode(serialized)).decode(),")]),
    dict(id='c18-leaf-parent-path', prop='C18', file=P, expect='violation',
         edits=[("    if not _has_nested_builder(value):\n      yield _LeafSetting(state.current_path, None, value)", "    if not _has_nested_builder(value):\n      yield _LeafSetting(state.current_path[:-1], None, value)")]),
    # benign
    dict(id='c18-benign-parser-more-permissive', prop='C18', file=X, expect='silent',
         edits=[("""            r"\\[(?P<key>-?\\d+|'[^']*'|\\"[^\\"]*\\")\\]",""", """            r"\\[(?P<key>[-+]?\\d+|'[^']*'|\\"[^\\"]*\\")\\]",""")]),
    dict(id='c18-benign-code-concat', prop='C18', file=D, expect='silent',
         edits=[('    return f".{self.name}"', '    return f".{self.name}" f""')]),
]
