C = 'fiddle/_src/config.py'
H = 'fiddle/_src/history.py'
T = 'fiddle/_src/tagging.py'
M = 'fiddle/_src/materialize.py'
CASES = [
    dict(id='c16-set-no-log', prop='C16', file=C, expect='violation',
         edits=[("    self.__arguments__[key] = value\n    self.__argument_history__.add_new_value(key, value)",
                 "    self.__arguments__[key] = value")]),
    dict(id='c16-set-log-conditional', prop='C16', file=C, expect='violation',
         edits=[("    self.__arguments__[key] = value\n    self.__argument_history__.add_new_value(key, value)",
                 "    changed = self.__arguments__.get(key, NO_VALUE) is not value\n    self.__arguments__[key] = value\n    if changed:\n      self.__argument_history__.add_new_value(key, value)")]),
    dict(id='c16-log-before-store', prop='C16', file=C, expect='violation',
         edits=[("    self.__arguments__[key] = value\n    self.__argument_history__.add_new_value(key, value)",
                 "    self.__argument_history__.add_new_value(key, value)\n    self.__arguments__[key] = value")]),
    dict(id='c16-del-double-log', prop='C16', file=C, expect='violation',
         edits=[("    del self.__arguments__[key]\n    self.__argument_history__.add_deleted_value(key)",
                 "    del self.__arguments__[key]\n    self.__argument_history__.add_deleted_value(key)\n    self.__argument_history__.add_deleted_value(key)")]),
    dict(id='c16-log-wrong-key', prop='C16', file=C, expect='violation',
         edits=[("    self.__arguments__[key] = value\n    self.__argument_history__.add_new_value(key, value)",
                 "    self.__arguments__[key] = value\n    self.__argument_history__.add_new_value(str(key), value)")]),
    dict(id='c16-tag-remove-no-log', prop='C16', file=T, expect='violation',
         edits=[("""  field_tag_set.remove(tag)
  buildable.__argument_history__.add_updated_tags(
      argument, buildable.__argument_tags__[argument]
  )""", """  field_tag_set.remove(tag)""")]),
    dict(id='c16-clear-tags-no-log', prop='C16', file=T, expect='violation',
         edits=[("""  buildable.__argument_tags__[argument].clear()
  buildable.__argument_history__.add_updated_tags(
      argument, buildable.__argument_tags__[argument]
  )""", """  buildable.__argument_tags__[argument].clear()""")]),
    dict(id='c16-counter-per-entry', prop='C16', file=H, expect='violation',
         edits=[("""  return HistoryEntry(
      sequence_id=next(_set_counter),
      param_name=param_name,
      kind=ChangeKind.NEW_VALUE,
      new_value=DELETED,""", """  return HistoryEntry(
      sequence_id=0,
      param_name=param_name,
      kind=ChangeKind.NEW_VALUE,
      new_value=DELETED,""")]),
    dict(id='c16-counter-reset', prop='C16', file=H, expect='violation',
         edits=[("""  _tracking_state.enabled = enabled
""", """  global _set_counter
  if enabled:
    _set_counter = itertools.count()
  _tracking_state.enabled = enabled
""")]),
    dict(id='c16-untracked-append', prop='C16', file=H, expect='violation',
         edits=[("""    if tracking_enabled():
      self[param_name].append(deleted_value(param_name))""", """    self[param_name].append(deleted_value(param_name))""")]),
    dict(id='c16-suspend-no-finally', prop='C16', file=H, expect='violation',
         edits=[("""  set_tracking(enabled=False)
  try:
    yield
  finally:
    set_tracking(enabled=previous_enabled)""", """  set_tracking(enabled=False)
  yield
  set_tracking(enabled=previous_enabled)""")]),
    dict(id='c16-suspend-restores-true', prop='C16', file=H, expect='violation',
         edits=[("    set_tracking(enabled=previous_enabled)", "    set_tracking(enabled=not previous_enabled)")]),
    dict(id='c16-custom-location-no-restore', prop='C16', file=H, expect='violation',
         edits=[("""  try:
    yield temporary_provider
  finally:
    _tracking_state.location_provider = original_location_provider""", """  yield temporary_provider
  _tracking_state.location_provider = original_location_provider""")]),
    dict(id='c16-exclude-list-shrunk', prop='C16', file=H, expect='violation',
         names='materialize.py',
         edits=[('            "fiddle/_src/materialize.py",\n', '')]),
    dict(id='c16-eq-reads-history', prop='C16', file=C, expect='violation',
         edits=[("  if x.__fn_or_cls__ != y.__fn_or_cls__:\n    return False\n  assert (",
                 "  if x.__fn_or_cls__ != y.__fn_or_cls__:\n    return False\n  if len(x.__argument_history__) != len(y.__argument_history__):\n    return False\n  assert (")]),
    dict(id='c16-direct-store-in-materialize-style', prop='C16', file=C, expect='violation',
         edits=[("""          new_value = self.__arguments__[new_placeholders[index].index]
          self._arguments_set_value(index, new_value)""", """          new_value = self.__arguments__[new_placeholders[index].index]
          self.__arguments__[index] = new_value""")]),
    # benign
    dict(id='c16-benign-log-local', prop='C16', file=C, expect='silent',
         edits=[("    self.__arguments__[key] = value\n    self.__argument_history__.add_new_value(key, value)",
                 "    self.__arguments__[key] = value\n    hist = self.__argument_history__\n    self.__argument_history__.add_new_value(key, value)")]),
    dict(id='c16-benign-exclude-more', prop='C16', file=H, expect='silent',
         edits=[('            "fiddle/_src/materialize.py",\n', '            "fiddle/_src/materialize.py",\n            "fiddle/_src/selectors.py",\n')]),
]
