B = 'fiddle/_src/building.py'
H = 'fiddle/_src/history.py'
S = 'fiddle/_src/signatures.py'
C = 'fiddle/_src/config.py'
CASES = [
    dict(id='c19-build-result-cache', prop='C19', file=B, expect='violation',
         edits=[("_state = _BuildGuardState()\n", "_state = _BuildGuardState()\n_last_results = {}\n"),
                ("  if not is_built:\n    logging.warning(", "  _last_results[type(buildable)] = result\n  if not is_built:\n    logging.warning(")]),
    dict(id='c19-guard-not-thread-local', prop='C19', file=B, expect='violation',
         edits=[("class _BuildGuardState(threading.local):\n\n  def __init__(self):\n    super().__init__()\n    self.in_build = False",
                 "class _BuildGuardState:\n\n  def __init__(self):\n    super().__init__()\n    self.in_build = False")]),
    dict(id='c19-tracking-class-level', prop='C19', file=H, expect='violation',
         edits=[("  _tracking_state.enabled = enabled\n", "  _TrackingState.enabled = enabled\n")]),
    dict(id='c19-signature-cache-key', prop='C19', file=S, expect='violation',
         edits=[("    _signature_cache[fn_or_cls] = signature", "    _signature_cache[getattr(fn_or_cls, '__name__', fn_or_cls)] = signature")]),
    dict(id='c19-type-hints-key-drops-flag', prop='C19', file=S, expect='violation',
         edits=[("    _type_hints_cache[fn_or_cls, include_extras] = hints", "    _type_hints_cache[fn_or_cls] = hints")]),
    dict(id='c19-python-int-counter', prop='C19', file=H, expect='violation',
         edits=[("def set_tracking(enabled: bool):", "_edits_seen = 0\n\n\ndef set_tracking(enabled: bool):"),
                ("    if tracking_enabled():\n      self[param_name].append(new_value(param_name, value))",
                 "    global _edits_seen\n    _edits_seen += 1\n    if tracking_enabled():\n      self[param_name].append(new_value(param_name, value))")]),
    dict(id='c19-shared-scratch-list', prop='C19', file=C, expect='violation',
         edits=[("_UNSET_SENTINEL = object()\n", "_UNSET_SENTINEL = object()\n_scratch_keys = []\n"),
                ("  missing = object()\n\n  def get_value_or_default", "  missing = object()\n  _scratch_keys.clear()\n  _scratch_keys.extend(x.__arguments__)\n\n  def get_value_or_default")]),
    dict(id='c19-counter-reset-on-init', prop='C19', file=H, expect='violation',
         edits=[("  def __missing__(self, key):\n    return self.setdefault(key, [])",
                 "  def __missing__(self, key):\n    global _set_counter\n    if not self:\n      _set_counter = itertools.count(next(_set_counter))\n    return self.setdefault(key, [])")]),
    # benign
    dict(id='c19-benign-local-cache', prop='C19', file=B, expect='silent',
         edits=[("  is_built = False\n\n  def _build(", "  is_built = False\n  seen_types = set()\n  seen_types.add(type(buildable))\n\n  def _build(")]),
    dict(id='c19-benign-constant-table', prop='C19', file=B, expect='silent',
         edits=[("_state = _BuildGuardState()\n", "_state = _BuildGuardState()\n_MESSAGES = {'nested': 'It is forbidden'}\n")]),
]
