"""Benign twins for the rules added after the first round of independently
seeded changes (the breaking side of each is the seeded patch itself, see
seeded/<id>/ and selftest/run.py)."""
B = 'fiddle/_src/building.py'
R = 'fiddle/_src/reraised_exception.py'
D = 'fiddle/_src/daglish.py'
C = 'fiddle/_src/config.py'
S = 'fiddle/_src/experimental/serialization.py'
F = 'fiddle/_src/diffing.py'
CASES = [
    dict(id='c01-benign-map-children-local', prop='C01', file=B, expect='silent',
         edits=[("""    else:
      return state.map_children(value)
""", """    else:
      rebuilt = state.map_children(value)
      return rebuilt
""")]),
    dict(id='c05-benign-set-inside-try', prop='C05', file=B, expect='silent',
         edits=[("""  _state.in_build = True
  try:
    yield
""", """  try:
    _state.in_build = True
    yield
""")]),
    dict(id='c05-benign-proxy-init-order', prop='C05', file=R, expect='silent',
         edits=[("""      self.proxy_base_exception = proxy_base_exception
      self.proxy_message = proxy_message
""", """      self.proxy_message = proxy_message
      self.proxy_base_exception = proxy_base_exception
""")]),
    dict(id='c06-benign-lt-fallback-names', prop='C06', file=D, expect='silent',
         edits=[("""      return (str(type(self.key)), repr(self.key)) < (
          str(type(other.key)),
          repr(other.key),
      )
""", """      mine = (str(type(self.key)), repr(self.key))
      theirs = (str(type(other.key)), repr(other.key))
      return mine < theirs
""")]),
    dict(id='c06-benign-internable-loop', prop='C06', file=D, expect='silent',
         edits=[("type(value) is tuple and all(is_internable(e) for e in value))",
                 "type(value) is tuple and all(is_internable(elt) for elt in value))")]),
    dict(id='c07-benign-memo-annot', prop='C07', file=C, expect='silent',
         edits=[("  def __deepcopy__(self, memo: Dict[int, Any]):",
                 "  def __deepcopy__(self, memo):")]),
    dict(id='c08-benign-walk-list', prop='C08', file=D, expect='silent',
         edits=[("""    for _ in state.yield_map_child_values(value, ignore_leaves=True):
      pass  # Run lazy iterator.

  traversal = BasicTraversal(""", """    for _unused in state.yield_map_child_values(value, ignore_leaves=True):
      continue

  traversal = BasicTraversal(""")]),
    dict(id='c09-benign-leaf-set', prop='C09', file=S, expect='silent',
         edits=[("  return value_type in (int, float, bool, str, type(None))",
                 "  return value_type in [str, int, float, bool, type(None)]")]),
    dict(id='c10-benign-memoizable-order', prop='C10', file=F, expect='silent',
         edits=[("    if daglish.is_memoizable(new_value) or daglish.is_memoizable(old_value):",
                 "    if daglish.is_memoizable(old_value) or daglish.is_memoizable(new_value):")]),
]

CD = 'fiddle/_src/codegen/codegen_diff.py'
H = 'fiddle/_src/history.py'
T = 'fiddle/_src/tagging.py'
MB = 'fiddle/_src/mutate_buildable.py'
SA = 'fiddle/_src/codegen/auto_config/split_arg_factories.py'
CASES += [
    # C13 modified paths
    dict(id='c13-benign-modified-paths-setcomp', prop='C13', file=CD,
         expect='silent',
         edits=[("    modified_paths = set([change.target for change in diff.changes])",
                 "    modified_paths = {op.target for op in diff.changes}")]),
    dict(id='c13-benign-modified-paths-no-tags', prop='C13', file=CD,
         expect='silent',
         edits=[("    modified_paths = set([change.target for change in diff.changes])",
                 "    modified_paths = set(\n        change.target for change in diff.changes\n        if not isinstance(change, (diffing.AddTag, diffing.RemoveTag)))")]),
    dict(id='c13-modified-paths-only-modify', prop='C13', file=CD,
         expect='violation', names='EXH.modified-paths',
         edits=[("    modified_paths = set([change.target for change in diff.changes])",
                 "    modified_paths = set(\n        change.target for change in diff.changes\n        if isinstance(change, diffing.ModifyValue))")]),
    # C10 / C14 facets
    dict(id='c10-facet-args-skipped-when-callable-differs', prop='C10', file=F,
         expect='violation', names='INDEP.buildable-facets',
         edits=[("""          ModifyValue(old_callable_path, config_lib.get_callable(new_value)))

    if old_value.__argument_tags__""", """          ModifyValue(old_callable_path, config_lib.get_callable(new_value)))
      if not new_value.__arguments__:
        return

    if old_value.__argument_tags__""")]),
    dict(id='c14-benign-tags-compared-first', prop='C14', file=F,
         expect='silent',
         edits=[("""    if config_lib.get_callable(old_value) != config_lib.get_callable(new_value):
      old_callable_path = old_path + (daglish.BuildableFnOrCls(),)
      self.changes.append(
          ModifyValue(old_callable_path, config_lib.get_callable(new_value)))

    if old_value.__argument_tags__ != new_value.__argument_tags__:
      self.record_tag_diffs(old_path, old_value, new_value)
""", """    if old_value.__argument_tags__ != new_value.__argument_tags__:
      self.record_tag_diffs(old_path, old_value, new_value)

    if config_lib.get_callable(old_value) != config_lib.get_callable(new_value):
      old_callable_path = old_path + (daglish.BuildableFnOrCls(),)
      self.changes.append(
          ModifyValue(old_callable_path, config_lib.get_callable(new_value)))
""")]),
    dict(id='c14-benign-tags-unconditional', prop='C14', file=F,
         expect='silent',
         edits=[("""    if old_value.__argument_tags__ != new_value.__argument_tags__:
      self.record_tag_diffs(old_path, old_value, new_value)
""", """    self.record_tag_diffs(old_path, old_value, new_value)
""")]),
    # C16
    dict(id='c16-benign-suspend-saved-renamed', prop='C16', file=H,
         expect='silent',
         edits=[("  previous_enabled = tracking_enabled()\n", "  was_enabled = tracking_enabled()\n"),
                ("    set_tracking(enabled=previous_enabled)", "    set_tracking(enabled=was_enabled)")]),
    dict(id='c16-store-pop-outside-primitives', prop='C16', file=MB,
         expect='violation', names='WMC.argument-store-writers',
         edits=[("          delattr(buildable, arg)",
                 "          buildable.__arguments__.pop(arg)")]),
    # C17 codegen callbacks
    dict(id='c17-benign-lowered-copy-consistently', prop='C17', file=SA,
         expect='silent',
         edits=[("""      value = copy.copy(value)
      for key, arg_value in arguments.items():
        if isinstance(key, str):
          setattr(value, key, arg_value)
        elif isinstance(key, int):
          value[key] = arg_value
        else:
          raise TypeError(f'Unknown key type: {key}')
      return value""", """      lowered = copy.copy(value)
      for key, arg_value in arguments.items():
        if isinstance(key, str):
          setattr(lowered, key, arg_value)
        elif isinstance(key, int):
          lowered[key] = arg_value
        else:
          raise TypeError(f'Unknown key type: {key}')
      return lowered""")]),
    # C19
    dict(id='c19-build-guard-rebound', prop='C19', file=B, expect='violation',
         names='rebinds the module-level name',
         edits=[("def _in_build():\n", "def _in_build():\n  global _state\n"),
                ("  finally:\n    _state.in_build = False\n",
                 "  finally:\n    _state = _BuildGuardState()\n")]),
    # C20
    dict(id='c20-benign-extract-after-rebuild-local', prop='C20', file=T,
         expect='silent',
         edits=[("""    value = state.map_children(value)
    if isinstance(value, TaggedValueCls) and value.value != NO_VALUE and (
        tags is None or set(value.tags) & tags):
      return value.value
""", """    value = state.map_children(value)
    if isinstance(value, TaggedValueCls) and value.value != NO_VALUE and (
        tags is None or set(value.tags) & tags):
      payload = value.value
      return payload
""")]),
    # C03
    dict(id='c03-benign-compaction-local-source', prop='C03', file=C,
         expect='silent',
         edits=[("""          new_value = self.__arguments__[new_placeholders[index].index]
          self._arguments_set_value(index, new_value)""", """          source = new_placeholders[index].index
          self._arguments_set_value(index, self.__arguments__[source])""")]),
]
