"""Benign twins for the rules added after the first round of independently
seeded changes (the breaking side of each is the seeded patch itself, see
seeded/<id>/ and selftest/run.py)."""
B = 'fiddle/_src/building.py'
R = 'fiddle/_src/reraised_exception.py'
D = 'fiddle/_src/daglish.py'
C = 'fiddle/_src/config.py'
S = 'fiddle/_src/experimental/serialization.py'
F = 'fiddle/_src/diffing.py'
CASES = [
    dict(id='c01-benign-map-children-local', prop='C01', file=B, expect='silent',
         edits=[("""    else:
      return state.map_children(value)
""", """    else:
      rebuilt = state.map_children(value)
      return rebuilt
""")]),
    dict(id='c05-benign-set-inside-try', prop='C05', file=B, expect='silent',
         edits=[("""  _state.in_build = True
  try:
    yield
""", """  try:
    _state.in_build = True
    yield
""")]),
    dict(id='c05-benign-proxy-init-order', prop='C05', file=R, expect='silent',
         edits=[("""      self.proxy_base_exception = proxy_base_exception
      self.proxy_message = proxy_message
""", """      self.proxy_message = proxy_message
      self.proxy_base_exception = proxy_base_exception
""")]),
    dict(id='c06-benign-lt-fallback-names', prop='C06', file=D, expect='silent',
         edits=[("""      return (str(type(self.key)), repr(self.key)) < (
          str(type(other.key)),
          repr(other.key),
      )
""", """      mine = (str(type(self.key)), repr(self.key))
      theirs = (str(type(other.key)), repr(other.key))
      return mine < theirs
""")]),
    dict(id='c06-benign-internable-loop', prop='C06', file=D, expect='silent',
         edits=[("type(value) is tuple and all(is_internable(e) for e in value))",
                 "type(value) is tuple and all(is_internable(elt) for elt in value))")]),
    dict(id='c07-benign-memo-annot', prop='C07', file=C, expect='silent',
         edits=[("  def __deepcopy__(self, memo: Dict[int, Any]):",
                 "  def __deepcopy__(self, memo):")]),
    dict(id='c08-benign-walk-list', prop='C08', file=D, expect='silent',
         edits=[("""    for _ in state.yield_map_child_values(value, ignore_leaves=True):
      pass  # Run lazy iterator.

  traversal = BasicTraversal(""", """    for _unused in state.yield_map_child_values(value, ignore_leaves=True):
      continue

  traversal = BasicTraversal(""")]),
    dict(id='c09-benign-leaf-set', prop='C09', file=S, expect='silent',
         edits=[("  return value_type in (int, float, bool, str, type(None))",
                 "  return value_type in [str, int, float, bool, type(None)]")]),
    dict(id='c10-benign-memoizable-order', prop='C10', file=F, expect='silent',
         edits=[("    if daglish.is_memoizable(new_value) or daglish.is_memoizable(old_value):",
                 "    if daglish.is_memoizable(old_value) or daglish.is_memoizable(new_value):")]),
]
