M = 'fiddle/_src/materialize.py'
V = 'fiddle/_src/experimental/visualize.py'
T = 'fiddle/_src/experimental/transform.py'
S = 'fiddle/_src/experimental/serialization.py'
G = 'fiddle/_src/tagging.py'
DC = 'fiddle/_src/experimental/dataclasses.py'
CASES = [
    dict(id='c20-revert-materialize-fix', prop='C20', file=M, expect='violation',
         edits=[("""        if arg.kind == arg.POSITIONAL_ONLY:
          # Positional-only arguments are stored (and set) by index. A value
          # cannot be passed after an unset positional-only argument (e.g. in
          # a Partial), so a default following such a gap stays implicit.
          if index not in node.__arguments__ and not positional_gap:
            node[index] = arg.default
        elif arg.name not in node.__arguments__:""", """        if arg.name not in node.__arguments__:""")]),
    dict(id='c20-materialize-overwrites', prop='C20', file=M, expect='violation',
         edits=[("        elif arg.name not in node.__arguments__:\n          setattr(node, arg.name, arg.default)", "        else:\n          setattr(node, arg.name, arg.default)")]),
    dict(id='c20-materialize-wrong-value', prop='C20', file=M, expect='violation',
         edits=[("          setattr(node, arg.name, arg.default)", "          setattr(node, arg.name, arg.annotation)")]),
    dict(id='c20-trim-without-equality', prop='C20', file=V, expect='violation',
         edits=[("            and param_default == attr_value\n", "")]),
    dict(id='c20-trim-kwargs-too', prop='C20', file=V, expect='violation',
         edits=[("            param.kind != inspect.Parameter.VAR_KEYWORD\n            and param_default == attr_value", "            param_default == attr_value")]),
    dict(id='c20-unintern-memoized', prop='C20', file=T, expect='violation',
         edits=[("        transform, value, memoize_internables=False)", "        transform, value, memoize_internables=True)")]),
    dict(id='c20-partial-subclasses-too', prop='C20', file=T, expect='violation',
         edits=[("    if type(value) is partial.Partial and not config.ordered_arguments(", "    if isinstance(value, partial.Partial) and not config.ordered_arguments(")]),
    dict(id='c20-partial-ignores-args', prop='C20', file=T, expect='violation',
         edits=[("""    if type(value) is partial.Partial and not config.ordered_arguments(
        value, include_equal_to_default=False
    ):""", """    if type(value) is partial.Partial:""")]),
    dict(id='c20-materialize-tags-unwraps-unset', prop='C20', file=G, expect='violation',
         edits=[("    if isinstance(value, TaggedValueCls) and value.value != NO_VALUE and (", "    if isinstance(value, TaggedValueCls) and (")]),
    dict(id='c20-dataclass-skips-noninit-inverted', prop='C20', file=DC, expect='violation',
         edits=[("              if field.init\n", "              if not field.init\n")]),
    dict(id='c20-trim-in-place', prop='C20', file=V, expect='violation',
         edits=[("          if should_copy:\n            value = copy.copy(value)\n            should_copy = False\n          delattr(value, name)", "          delattr(value, name)")]),
    # benign
    dict(id='c20-benign-materialize-kind-tuple', prop='C20', file=M, expect='silent',
         edits=[("        if arg.kind == arg.POSITIONAL_ONLY:", "        if arg.kind in (arg.POSITIONAL_ONLY,):")]),
]

_M = 'fiddle/_src/materialize.py'
CASES += [
    dict(id='c20-benign-parameters-list', prop='C20', file=_M, expect='silent',
         edits=[("      parameters = node.__signature_info__.parameters.values()\n",
                 "      parameters = list(node.__signature_info__.parameters.values())\n")]),
    dict(id='c20-gap-flag-removed', prop='C20', file=_M, expect='violation',
         names='GAP.positional-default',
         edits=[("          if index not in node.__arguments__ and not positional_gap:",
                 "          if index not in node.__arguments__:")]),
    dict(id='c20-gap-flag-never-raised', prop='C20', file=_M, expect='violation',
         names='GAP.positional-default',
         edits=[("            positional_gap = True\n", "            positional_gap = False\n")]),
    dict(id='c20-index-of-filtered-list', prop='C20', file=_M, expect='violation',
         names='IDX.signature-position',
         edits=[("      for index, arg in enumerate(parameters):",
                 "      for index, arg in enumerate(\n          [a for a in parameters if a.kind != a.VAR_KEYWORD]):")]),
]
