D = 'fiddle/_src/daglish.py'
C = 'fiddle/_src/config.py'
S = 'fiddle/_src/signatures.py'
CASES = [
    dict(id='c06-revert-key-lt-fix', prop='C06', file=D, expect='violation',
         edits=[("""      if type(self.key) is type(other.key) and isinstance(
          self.key, (int, float, str, bytes)
      ):
        return self.key < other.key
      # Keys can be of any (hashable) type; order keys of different types by
      # type name, so that paths of a dict with mixed keys can be sorted.
      return (str(type(self.key)), repr(self.key)) < (
          str(type(other.key)),
          repr(other.key),
      )""", """      return self.key < other.key""")]),
    dict(id='c06-key-lt-try-only', prop='C06', file=D, expect='violation',
         names='TOT.path-element-order',
         edits=[("""      if type(self.key) is type(other.key) and isinstance(
          self.key, (int, float, str, bytes)
      ):
        return self.key < other.key
""", """      if type(self.key) is type(other.key):
        try:
          return self.key < other.key
        except TypeError:
          pass
""")]),
    dict(id='c06-revert-get-default-fix', prop='C06', file=S, expect='violation',
         edits=[("          self.var_positional_start is None\n          or argument < self.var_positional_start", "          self.var_positional_start is not None\n          and argument < self.var_positional_start")]),
    dict(id='c06-revert-alias-recorded-fix', prop='C06', file=C,
         expect='violation',
         edits=[("        paths.append((path, seen[id(value)][1]))\n        return\n",
                 "        return\n")]),
    dict(id='c06-asymmetric-defaults', prop='C06', file=C, expect='violation',
         edits=[("    v2 = get_value_or_default(key, y)", "    v2 = y.__arguments__.get(key, missing)")]),
    dict(id='c06-keys-of-x-only', prop='C06', file=C, expect='violation',
         edits=[("  for key in set(x.__arguments__) | set(y.__arguments__):", "  for key in set(x.__arguments__):")]),
    dict(id='c06-type-check-dropped', prop='C06', file=C, expect='violation',
         edits=[("  if type(x) is not type(y):\n    return False\n", "")]),
    dict(id='c06-traversal-asymmetric', prop='C06', file=C, expect='violation',
         edits=[("    y_paths = sorted(_first_paths_in_canonical_order(y))",
                 "    y_paths = sorted(path for _, path in daglish.iterate(y))")]),
    dict(id='c06-walk-unsorted-children', prop='C06', file=C, expect='violation',
         names='ORD.sharing-order-independent',
         edits=[("      children = sorted(zip(path_elements, values), key=lambda child: child[0])",
                 "      children = zip(path_elements, values)")]),
    dict(id='c06-no-identity-shortcut', prop='C06', file=C, expect='violation',
         names='identity-first',
         edits=[("    if v1 is not v2 and v1 != v2:", "    if v1 != v2:")]),
    dict(id='c06-benign-walk-sorted-inline', prop='C06', file=C, expect='silent',
         edits=[("""      children = sorted(zip(path_elements, values), key=lambda child: child[0])
      for path_element, child in children:""", """      for path_element, child in sorted(
          zip(path_elements, values), key=lambda pair: pair[0]):""")]),
    dict(id='c06-eq-no-dag', prop='C06', file=C, expect='violation',
         edits=[("    return _compare_buildable(self, other, check_dag=True)", "    return _compare_buildable(self, other, check_dag=False)")]),
    dict(id='c06-no-default-fallback', prop='C06', file=C, expect='violation',
         edits=[("    if value is missing:\n      value = buildable.__signature_info__.get_default(key, missing)\n", "")]),
    dict(id='c06-index-lt-string', prop='C06', file=D, expect='violation',
         edits=[("  index: int\n\n  @property\n  def code(self) -> str:\n    return f\"[{self.index}]\"", "  index: Any\n\n  @property\n  def code(self) -> str:\n    return f\"[{self.index}]\"")]),
    # benign
    dict(id='c06-benign-key-lt-tuple-order', prop='C06', file=D, expect='silent',
         edits=[("          self.key, (int, float, str, bytes)\n", "          self.key, (str, bytes, int, float)\n")]),
]
