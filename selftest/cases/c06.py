D = 'fiddle/_src/daglish.py'
C = 'fiddle/_src/config.py'
S = 'fiddle/_src/signatures.py'
CASES = [
    dict(id='c06-revert-key-lt-fix', prop='C06', file=D, expect='violation',
         edits=[("""      if type(self.key) is type(other.key):
        try:
          return self.key < other.key
        except TypeError:
          pass  # Keys of this type have no order; fall back to their repr.
      # Keys can be of any (hashable) type; order keys of different types by
      # type name, so that paths of a dict with mixed keys can be sorted.
      return (str(type(self.key)), repr(self.key)) < (
          str(type(other.key)),
          repr(other.key),
      )""", """      return self.key < other.key""")]),
    dict(id='c06-revert-get-default-fix', prop='C06', file=S, expect='violation',
         edits=[("          self.var_positional_start is None\n          or argument < self.var_positional_start", "          self.var_positional_start is not None\n          and argument < self.var_positional_start")]),
    dict(id='c06-asymmetric-defaults', prop='C06', file=C, expect='violation',
         edits=[("    v2 = get_value_or_default(key, y)", "    v2 = y.__arguments__.get(key, missing)")]),
    dict(id='c06-keys-of-x-only', prop='C06', file=C, expect='violation',
         edits=[("  for key in set(x.__arguments__) | set(y.__arguments__):", "  for key in set(x.__arguments__):")]),
    dict(id='c06-type-check-dropped', prop='C06', file=C, expect='violation',
         edits=[("  if type(x) is not type(y):\n    return False\n", "")]),
    dict(id='c06-traversal-asymmetric', prop='C06', file=C, expect='violation',
         edits=[("""            y,
            memoized=True,
            memoize_internables=False,""", """            y,
            memoized=True,
            memoize_internables=True,""")]),
    dict(id='c06-eq-no-dag', prop='C06', file=C, expect='violation',
         edits=[("    return _compare_buildable(self, other, check_dag=True)", "    return _compare_buildable(self, other, check_dag=False)")]),
    dict(id='c06-no-default-fallback', prop='C06', file=C, expect='violation',
         edits=[("    if value is missing:\n      value = buildable.__signature_info__.get_default(key, missing)\n", "")]),
    dict(id='c06-index-lt-string', prop='C06', file=D, expect='violation',
         edits=[("  index: int\n\n  @property\n  def code(self) -> str:\n    return f\"[{self.index}]\"", "  index: Any\n\n  @property\n  def code(self) -> str:\n    return f\"[{self.index}]\"")]),
    # benign
    dict(id='c06-benign-key-lt-early-return', prop='C06', file=D, expect='silent',
         edits=[("        except TypeError:\n          pass  # Keys of this type have no order; fall back to their repr.", "        except (TypeError, ValueError):\n          pass")]),
]
