C = 'fiddle/_src/config.py'
P = 'fiddle/_src/copying.py'
K = 'fiddle/_src/casting.py'
CASES = [
    dict(id='c07-tags-shared-in-flatten', prop='C07', file=C, expect='violation',
         edits=[("      name: frozenset(tags)\n      for name, tags in buildable.__argument_tags__.items()", "      name: tags\n      for name, tags in buildable.__argument_tags__.items()")]),
    dict(id='c07-tags-accessor-shares', prop='C07', file=C, expect='violation',
         edits=[("        set, {name: set(tags) for name, tags in self.argument_tags.items()}", "        set, {name: tags for name, tags in self.argument_tags.items()}")]),
    dict(id='c07-history-accessor-shares', prop='C07', file=C, expect='violation',
         edits=[("        {name: list(entries) for name, entries in self.argument_history.items()}", "        dict(self.argument_history)")]),
    dict(id='c07-unflatten-reuses-source-tags', prop='C07', file=C, expect='violation',
         edits=[("    object.__setattr__(rebuilt, '__argument_tags__', metadata.tags())", "    object.__setattr__(rebuilt, '__argument_tags__', metadata.argument_tags)")]),
    dict(id='c07-copy-shares-arguments', prop='C07', file=C, expect='violation',
         edits=[("    return self.__unflatten__(*self.__flatten__())", "    result = object.__new__(type(self))\n    result.__dict__.update(self.__dict__)\n    return result")]),
    dict(id='c07-deepcopy-shallow', prop='C07', file=C, expect='violation',
         edits=[("    result.__dict__.update(copy.deepcopy(self.__dict__, memo))", "    result.__dict__.update(copy.copy(self.__dict__))")]),
    dict(id='c07-deepcopy-seeds-args', prop='C07', file=C, expect='violation',
         edits=[("    result = object.__new__(type(self))\n    result.__dict__.update(copy.deepcopy", "    memo[id(self.__argument_tags__)] = self.__argument_tags__\n    result = object.__new__(type(self))\n    result.__dict__.update(copy.deepcopy")]),
    dict(id='c07-getstate-mutates-self', prop='C07', file=C, expect='violation',
         edits=[("    result = dict(self.__dict__)\n", "    result = self.__dict__\n")]),
    dict(id='c07-copy-with-edits-original', prop='C07', file=P, expect='violation',
         edits=[("  buildable = copy.copy(buildable)\n  mutate_buildable.assign(buildable, **kwargs)\n  return buildable", "  result = copy.copy(buildable)\n  mutate_buildable.assign(buildable, **kwargs)\n  return result")]),
    dict(id='c07-deepcopy-with-shallow', prop='C07', file=P, expect='violation',
         edits=[("  buildable = copy.deepcopy(buildable)", "  buildable = copy.copy(buildable)")]),
    dict(id='c07-cast-in-place', prop='C07', file=K, expect='violation',
         edits=[("  return new_type.__unflatten__(*buildable.__flatten__())", "  object.__setattr__(buildable, '__class__', new_type)\n  return buildable")]),
    dict(id='c07-history-entry-unfrozen', prop='C07', file='fiddle/_src/history.py', expect='violation',
         edits=[("@dataclasses.dataclass(frozen=True)\nclass HistoryEntry:", "@dataclasses.dataclass\nclass HistoryEntry:")]),
    # benign
    dict(id='c07-benign-copy-with-new-name', prop='C07', file=P, expect='silent',
         edits=[("  buildable = copy.copy(buildable)\n  mutate_buildable.assign(buildable, **kwargs)\n  return buildable", "  result = copy.copy(buildable)\n  mutate_buildable.assign(result, **kwargs)\n  return result")]),
    dict(id='c07-benign-getstate-copy-method', prop='C07', file=C, expect='silent',
         edits=[("    result = dict(self.__dict__)\n", "    result = self.__dict__.copy()\n")]),
]
