B = 'fiddle/_src/building.py'
R = 'fiddle/_src/reraised_exception.py'
CASES = [
    dict(id='c05-no-finally', prop='C05', file=B, expect='violation',
         names='_in_build',
         edits=[("""  try:
    yield
  finally:
    _state.in_build = False
""", """  yield
  _state.in_build = False
""")]),
    dict(id='c05-restore-true', prop='C05', file=B, expect='violation',
         edits=[("""  finally:
    _state.in_build = False
""", """  finally:
    _state.in_build = True
""")]),
    dict(id='c05-no-reject', prop='C05', file=B, expect='violation',
         edits=[("""  if _state.in_build:
    raise ValueError(
        'It is forbidden to call `fdl.build` inside another `fdl.build` call.')
""", "")]),
    dict(id='c05-set-before-reject', prop='C05', file=B, expect='violation',
         edits=[("""  if _state.in_build:
    raise ValueError(
        'It is forbidden to call `fdl.build` inside another `fdl.build` call.')
  _state.in_build = True
""", """  was = _state.in_build
  _state.in_build = True
  if was:
    raise ValueError(
        'It is forbidden to call `fdl.build` inside another `fdl.build` call.')
""")]),
    dict(id='c05-build-outside-guard', prop='C05', file=B, expect='violation',
         edits=[("""  with _in_build():
    result = daglish.MemoizedTraversal.run(_build, buildable)
""", """  with _in_build():
    pass
  result = daglish.MemoizedTraversal.run(_build, buildable)
""")]),
    dict(id='c05-swallow', prop='C05', file=R, expect='violation',
         edits=[("""      logging.exception('Formatting the debug information failed.')
      raise exc from None
""", """      logging.exception('Formatting the debug information failed.')
""")]),
    dict(id='c05-raise-other', prop='C05', file=R, expect='violation',
         edits=[("      raise decorate_exception(exc, message) from None",
                 "      raise RuntimeError(message) from None")]),
    dict(id='c05-str-prefix', prop='C05', file=R, expect='violation',
         edits=[("return str(self.proxy_base_exception) + self.proxy_message",
                 "return self.proxy_message + str(self.proxy_base_exception)")]),
    dict(id='c05-proxy-base', prop='C05', file=R, expect='violation',
         edits=[("  class ExceptionProxy(exception_type):",
                 "  class ExceptionProxy(Exception):")]),
    dict(id='c05-fallback-none', prop='C05', file=R, expect='violation',
         edits=[("""    logging.exception('Creating the proxy class failed.')
    return exception""", """    logging.exception('Creating the proxy class failed.')
    return None""")]),
    dict(id='c05-wrong-path', prop='C05', file=B, expect='violation',
         edits=[("return call_buildable(value, arguments, current_path=state.current_path)",
                 "return call_buildable(value, arguments, current_path=())")]),
    # benign twins
    dict(id='c05-benign-rename', prop='C05', file=B, expect='silent',
         edits=[("""  if _state.in_build:
    raise ValueError(
        'It is forbidden to call `fdl.build` inside another `fdl.build` call.')
  _state.in_build = True
  try:
    yield
  finally:
    _state.in_build = False
""", """  already = _state.in_build
  if not already:
    _state.in_build = True
    try:
      yield None
    finally:
      _state.in_build = False
  else:
    raise ValueError('It is forbidden to call `fdl.build` recursively.')
""")]),
    dict(id='c05-benign-fstring', prop='C05', file=R, expect='silent',
         edits=[("return str(self.proxy_base_exception) + self.proxy_message",
                 "return f'{self.proxy_base_exception}{self.proxy_message}'")]),
    dict(id='c05-benign-previous', prop='C05', file=B, expect='silent',
         edits=[("""  _state.in_build = True
  try:
    yield
  finally:
    _state.in_build = False
""", """  previous = _state.in_build
  _state.in_build = True
  try:
    yield
  finally:
    _state.in_build = previous
""")]),
]
