B = 'fiddle/_src/building.py'
R = 'fiddle/_src/reraised_exception.py'
CASES = [
    dict(id='c05-no-finally', prop='C05', file=B, expect='violation',
         names='_in_build',
         edits=[("""  try:
    yield
  finally:
    _state.in_build = False
""", """  yield
  _state.in_build = False
""")]),
    dict(id='c05-restore-true', prop='C05', file=B, expect='violation',
         edits=[("""  finally:
    _state.in_build = False
""", """  finally:
    _state.in_build = True
""")]),
    dict(id='c05-no-reject', prop='C05', file=B, expect='violation',
         edits=[("""  if _state.in_build:
    raise ValueError(
        'It is forbidden to call `fdl.build` inside another `fdl.build` call.')
""", "")]),
    dict(id='c05-set-before-reject', prop='C05', file=B, expect='violation',
         edits=[("""  if _state.in_build:
    raise ValueError(
        'It is forbidden to call `fdl.build` inside another `fdl.build` call.')
  _state.in_build = True
""", """  was = _state.in_build
  _state.in_build = True
  if was:
    raise ValueError(
        'It is forbidden to call `fdl.build` inside another `fdl.build` call.')
""")]),
    dict(id='c05-build-outside-guard', prop='C05', file=B, expect='violation',
         edits=[("""  with _in_build():
    result = daglish.MemoizedTraversal.run(_build, buildable)
""", """  with _in_build():
    pass
  result = daglish.MemoizedTraversal.run(_build, buildable)
""")]),
    dict(id='c05-swallow', prop='C05', file=R, expect='violation',
         edits=[("      return False  # Re-raises the original exception.",
                 "      return True")]),
    dict(id='c05-raise-other', prop='C05', file=R, expect='violation',
         edits=[("    raise decorate_exception(exc, message) from None",
                 "    raise RuntimeError(message) from None")]),
    dict(id='c05-generator-helper-again', prop='C05', file=R, expect='violation',
         names='GEN.no-raise-in-generator',
         edits=[("import functools\n", "import contextlib\nimport functools\n"),
                ('class try_with_lazy_message:  # pylint: disable=invalid-name\n  """Context manager which reraises exceptions.\n\n  This is a class rather than a generator-based `contextlib.contextmanager`:\n  an exception derived from `StopIteration` that is raised inside a generator\n  is turned into a `RuntimeError` (PEP 479), which would lose the original\n  exception class.\n  """\n\n  def __init__(self, lazy_message: Callable[[], str]):\n    self._lazy_message = lazy_message\n\n  def __enter__(self):\n    return None\n\n  def __exit__(self, exc_type, exc, traceback):\n    if exc is None or not isinstance(exc, Exception):\n      return False\n    try:\n      message = self._lazy_message()\n    except:  # pylint: disable=bare-except\n      logging.exception(\'Formatting the debug information failed.\')\n      return False  # Re-raises the original exception.\n    raise decorate_exception(exc, message) from None\n', '@contextlib.contextmanager\ndef try_with_lazy_message(lazy_message):\n  """Context manager which reraises exceptions."""\n  try:\n    yield\n  except Exception as exc:  # pylint: disable=broad-except\n    try:\n      message = lazy_message()\n    except:  # pylint: disable=broad-except\n      logging.exception(\'Formatting the debug information failed.\')\n      raise exc from None\n    else:\n      raise decorate_exception(exc, message) from None\n')]),
    dict(id='c05-str-prefix', prop='C05', file=R, expect='violation',
         edits=[("return str(self.proxy_base_exception) + self.proxy_message",
                 "return self.proxy_message + str(self.proxy_base_exception)")]),
    dict(id='c05-proxy-base', prop='C05', file=R, expect='violation',
         edits=[("  class ExceptionProxy(exception_type):",
                 "  class ExceptionProxy(Exception):")]),
    dict(id='c05-fallback-none', prop='C05', file=R, expect='violation',
         edits=[("""    logging.exception('Creating the proxy class failed.')
    return exception""", """    logging.exception('Creating the proxy class failed.')
    return None""")]),
    dict(id='c05-wrong-path', prop='C05', file=B, expect='violation',
         edits=[("return call_buildable(value, arguments, current_path=state.current_path)",
                 "return call_buildable(value, arguments, current_path=())")]),
    # benign twins
    dict(id='c05-benign-rename', prop='C05', file=B, expect='silent',
         edits=[("""  if _state.in_build:
    raise ValueError(
        'It is forbidden to call `fdl.build` inside another `fdl.build` call.')
  _state.in_build = True
  try:
    yield
  finally:
    _state.in_build = False
""", """  already = _state.in_build
  if not already:
    _state.in_build = True
    try:
      yield None
    finally:
      _state.in_build = False
  else:
    raise ValueError('It is forbidden to call `fdl.build` recursively.')
""")]),
    dict(id='c05-benign-fstring', prop='C05', file=R, expect='silent',
         edits=[("return str(self.proxy_base_exception) + self.proxy_message",
                 "return f'{self.proxy_base_exception}{self.proxy_message}'")]),
    dict(id='c05-benign-previous', prop='C05', file=B, expect='silent',
         edits=[("""  _state.in_build = True
  try:
    yield
  finally:
    _state.in_build = False
""", """  previous = _state.in_build
  _state.in_build = True
  try:
    yield
  finally:
    _state.in_build = previous
""")]),
]
