#!/venv/bin/python
"""Two-way test of the checkers on scratch copies of /repo.

Each case in selftest/cases/*.py is a dict:
  id, prop, file (relative to repo), edits: [(old, new), ...] (each `old` must
  occur exactly once), expect: 'violation' | 'silent', and optionally `names`
  (substring that must appear in the violation report).  The independently
  seeded changes under seeded/<id>/ (patch.diff + meta.json "detected_by") are
  added as breaking cases too.
'violation' cases are breaking edits (still valid Python); 'silent' cases are
behaviour-preserving twins.  Scratch copies live under a mkdtemp directory and
are removed afterwards.

usage: selftest/run.py [--prop C05] [--id substr] [-j N] [--keep]
exit 0 iff every case behaves as expected.
"""
from __future__ import annotations

import argparse
import concurrent.futures
import glob
import importlib.util
import json
import os
import shutil
import subprocess
import sys
import tempfile

VERIF = os.path.dirname(os.path.dirname(os.path.abspath(__file__)))
REPO = os.environ.get('FDLSTATIC_REPO', '/repo')


def load_cases():
  cases = []
  for path in sorted(glob.glob(os.path.join(VERIF, 'selftest', 'cases', '*.py'))):
    spec = importlib.util.spec_from_file_location('case_' + os.path.basename(path)[:-3], path)
    m = importlib.util.module_from_spec(spec)
    spec.loader.exec_module(m)
    cases += m.CASES
  # the independently seeded changes kept under seeded/ are regression cases:
  # one per property listed in meta.json "detected_by"
  for mp in sorted(glob.glob(os.path.join(VERIF, 'seeded', '*', 'meta.json'))):
    with open(mp) as f:
      meta = json.load(f)
    sid = os.path.basename(os.path.dirname(mp))
    for prop in meta.get('detected_by', []):
      cases.append(dict(id=f'seeded-{sid}-{prop}', prop=prop, expect='violation',
                        patch=os.path.join(os.path.dirname(mp), 'patch.diff'),
                        edits=[]))
  # the independently written behaviour-preserving refactorings kept under
  # benign/ are silent cases: for the property each was written for and for
  # every property whose check was not silent when it was first ingested
  for mp in sorted(glob.glob(os.path.join(VERIF, 'benign', '*', 'meta.json'))):
    with open(mp) as f:
      meta = json.load(f)
    sid = os.path.basename(os.path.dirname(mp))
    props = {meta.get('property') or sid.split('_')[0]}
    fns = meta.get('first_not_silent') or {}
    props |= {k for k in fns if isinstance(k, str) and k[:1] == 'C'}
    # refactorings on which a check is known to raise a false alarm still
    # (DESIGN.md 8b): run, reported as OPEN, not counted as a failure of the
    # self-test - and reported if they turn silent
    still_open = set(meta.get('open_false_alarm') or [])
    for prop in sorted(p_ for p_ in props | still_open if p_):
      cases.append(dict(id=f'benign-{sid}-{prop}', prop=prop, expect='silent',
                        patch=os.path.join(os.path.dirname(mp), 'patch.diff'),
                        edits=[], open=prop in still_open))
  ids = [c['id'] for c in cases]
  dup = {i for i in ids if ids.count(i) > 1}
  if dup:
    raise SystemExit(f'duplicate case ids: {dup}')
  return cases


def make_copy(dst):
  src = os.path.join(REPO, 'fiddle')
  shutil.copytree(src, os.path.join(dst, 'fiddle'),
                  ignore=shutil.ignore_patterns('__pycache__', '*.pyc'))


def run_case(case, keep=False):
  tmp = tempfile.mkdtemp(prefix='fdlstatic-selftest-')
  try:
    make_copy(tmp)
    if case.get('patch'):
      r = subprocess.run(['git', 'apply', case['patch']], cwd=tmp,
                         capture_output=True, text=True)
      if r.returncode != 0:
        return case, 'BROKEN-CASE', f'patch does not apply: {r.stderr[-300:]}'
    for file, old, new in _edits(case):
      path = os.path.join(tmp, file)
      with open(path) as f:
        src = f.read()
      if src.count(old) != 1:
        return case, 'BROKEN-CASE', f'`old` occurs {src.count(old)} times in {file}: {old[:60]!r}'
      src = src.replace(old, new)
      try:
        compile(src, path, 'exec')
      except SyntaxError as e:
        return case, 'BROKEN-CASE', f'edit does not compile: {e}'
      with open(path, 'w') as f:
        f.write(src)
    env = dict(os.environ, FDLSTATIC_REPO=tmp, FDLSTATIC_NO_EVIDENCE='1')
    r = subprocess.run(
        ['/venv/bin/python', '-B', '-m', 'fdlstatic.main', case['prop'],
         '--repo', tmp, '--no-evidence'],
        cwd=VERIF, env=env, capture_output=True, text=True, timeout=600)
    out = r.stdout + r.stderr
    if case['expect'] == 'violation':
      ok = r.returncode == 1 and 'VIOLATION property=' + case['prop'] in out
      if ok and case.get('names') and case['names'] not in out:
        return case, 'FAIL', f'violation reported but does not name {case["names"]!r}:\n{out[-1500:]}'
      return case, 'PASS' if ok else 'FAIL', '' if ok else f'rc={r.returncode}\n{out[-1500:]}'
    else:
      ok = r.returncode == 0 and 'VIOLATION' not in out
      return case, 'PASS' if ok else 'FAIL', '' if ok else f'rc={r.returncode}\n{out[-1500:]}'
  finally:
    if not keep:
      shutil.rmtree(tmp, ignore_errors=True)


def run_normalised(props):
  """Every analysed file re-printed with ast.unparse (comments, layout and

  line numbers change, behaviour does not): every check must stay silent.
  """
  import ast
  tmp = tempfile.mkdtemp(prefix='fdlstatic-selftest-norm-')
  out = []
  try:
    make_copy(tmp)
    for dp, _, fns in os.walk(os.path.join(tmp, 'fiddle')):
      for fn in fns:
        if fn.endswith('.py') and not fn.endswith('_test.py'):
          p = os.path.join(dp, fn)
          with open(p) as f:
            src = f.read()
          with open(p, 'w') as f:
            f.write(ast.unparse(ast.parse(src)) + '\n')
    for prop in props:
      env = dict(os.environ, FDLSTATIC_REPO=tmp, FDLSTATIC_NO_EVIDENCE='1')
      r = subprocess.run(
          ['/venv/bin/python', '-B', '-m', 'fdlstatic.main', prop, '--repo',
           tmp, '--no-evidence'], cwd=VERIF, env=env, capture_output=True,
          text=True, timeout=600)
      ok = r.returncode == 0 and 'VIOLATION' not in r.stdout
      out.append((prop, ok, '' if ok else (r.stdout + r.stderr)[-800:]))
  finally:
    shutil.rmtree(tmp, ignore_errors=True)
  return out


def _edits(case):
  for e in case['edits']:
    if len(e) == 3:
      yield e
    else:
      yield (case['file'], e[0], e[1])


def main():
  ap = argparse.ArgumentParser()
  ap.add_argument('--prop')
  ap.add_argument('--id')
  ap.add_argument('-j', type=int, default=16)
  ap.add_argument('--keep', action='store_true')
  ap.add_argument('--json')
  ap.add_argument('--normalised', action='store_true',
                  help='also run every check on an ast.unparse-normalised copy')
  a = ap.parse_args()
  cases = load_cases()
  if a.prop:
    cases = [c for c in cases if c['prop'] == a.prop.upper()]
  if a.id:
    cases = [c for c in cases if a.id in c['id']]
  results = []
  with concurrent.futures.ThreadPoolExecutor(max_workers=a.j) as ex:
    for case, status, msg in ex.map(lambda c: run_case(c, a.keep), cases):
      if case.get('open'):
        status, msg = ('OPEN', msg) if status != 'PASS' else (
            'PASS', 'listed as an open false alarm but silent now')
      results.append((case, status, msg))
      print(f'{status:11s} {case["prop"]} {case["expect"]:9s} {case["id"]}')
      if status not in ('PASS', 'OPEN'):
        print('   ' + msg.replace('\n', '\n   '))
  if a.normalised:
    props = sorted({c['prop'] for c in load_cases()})
    if a.prop:
      props = [a.prop.upper()]
    for prop, ok, msg in run_normalised(props):
      print(f'{"PASS" if ok else "FAIL":11s} {prop} silent    normalised-source-copy')
      if not ok:
        print('   ' + msg.replace('\n', '\n   '))
        results.append(({'id': 'normalised', 'prop': prop, 'expect': 'silent'},
                        'FAIL', msg))
      else:
        results.append(({'id': 'normalised', 'prop': prop, 'expect': 'silent'},
                        'PASS', ''))
  bad = [r for r in results if r[1] not in ('PASS', 'OPEN')]
  n_open = sum(1 for r in results if r[1] == 'OPEN')
  if n_open:
    print(f'selftest: {n_open} case(s) are known open false alarms')
  n_v = sum(1 for c, s, _ in results if c['expect'] == 'violation')
  n_s = len(results) - n_v
  print(f'selftest: {len(results)} cases ({n_v} breaking, {n_s} benign), '
        f'{len(bad)} not as expected')
  if a.json:
    with open(a.json, 'w') as f:
      json.dump([{'id': c['id'], 'prop': c['prop'], 'expect': c['expect'],
                  'status': s} for c, s, _ in results], f, indent=1)
  return 1 if bad else 0


if __name__ == '__main__':
  sys.exit(main())
