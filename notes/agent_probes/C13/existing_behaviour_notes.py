import os, sys
sys.path.insert(0, os.getcwd())
import copy
import fiddle as fdl
from fiddle import daglish, diffing
from fiddle._src.codegen import codegen_diff
def f(x=None, y=None): return (x, y)
class T(fdl.Tag):
  "t"
A = daglish.Attr
# (a) one mutable object used by two changes of a hand-written diff
v = [1]
old = fdl.Config(f, x=0, y=0)
diff = diffing.Diff((diffing.ModifyValue((A('x'),), v), diffing.ModifyValue((A('y'),), v)))
e = copy.deepcopy(old); diffing.apply_diff(diff, e)
ns = dict(globals()); exec(codegen_diff.fiddler_from_diff(diff, old).code, ns)
g = copy.deepcopy(old); ns['fiddler'](g)
print('(a) apply_diff shares:', e.x is e.y, ' fiddler shares:', g.x is g.y)
# (b) tag on an unset argument of a new value is dropped
nv = fdl.Config(f); fdl.add_tag(nv, 'x', T)
diff = diffing.build_diff(fdl.Config(f, x=1), fdl.Config(f, x=nv))
old = fdl.Config(f, x=1)
e = copy.deepcopy(old); diffing.apply_diff(diff, e)
ns = dict(globals()); exec(codegen_diff.fiddler_from_diff(diff, old).code, ns)
g = copy.deepcopy(old); ns['fiddler'](g)
print('(b) apply_diff tags:', fdl.get_tags(e.x, 'x'), ' fiddler tags:', fdl.get_tags(g.x, 'x'), ' equal:', e == g)
# (c) ArgFactory new value
try:
  diff = diffing.build_diff(fdl.Partial(f, x=1), fdl.Partial(f, x=fdl.ArgFactory(f, y=1)))
  codegen_diff.fiddler_from_diff(diff)
  print('(c) ok')
except Exception as ex:
  print('(c)', type(ex).__name__, ex)
# (d) positional (*args) arguments in a new value
def va(*args): return args
try:
  diff = diffing.build_diff(fdl.Config(f, x=1), fdl.Config(f, x=fdl.Config(va, 1, 2)))
  codegen_diff.fiddler_from_diff(diff)
  print('(d) ok')
except Exception as ex:
  print('(d)', type(ex).__name__, ex)
