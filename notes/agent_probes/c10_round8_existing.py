import os, sys
sys.path.insert(0, os.getcwd())
import copy
import fiddle as fdl
from fiddle._src import diffing

def f(a=None, b=None, c=None): pass
def p(x, /, y=None, *args): pass

# 1. tuple aligned with itself (by id) while a small mutable container inside it is not aligned
d = {3: [0]}
t = (1, d)
old = fdl.Config(f, a=t, b=d)
new = fdl.Config(f, c=t)       # shares the tuple (and so d) with old by identity
try:
  diff = diffing.build_diff(old, new)
  print(diff)
  tgt = copy.deepcopy(old)
  diffing.apply_diff(diff, tgt)
  print('1 ok', tgt)
except Exception as e:
  print('1 FAIL', type(e).__name__, e)

# 2. positional-only / *args arguments
try:
  diff = diffing.build_diff(fdl.Config(p, 1, 2), fdl.Config(p, 1, 3))
  print('2 ok', diff)
except Exception as e:
  print('2 FAIL', type(e).__name__, e)
