import os, sys
sys.path.insert(0, os.getcwd())
import fiddle as fdl
from fiddle import selectors
from fiddle._src import tagging
class T(fdl.Tag):
  "t"
class U(fdl.Tag):
  "u"
def f(x, y=1): return x
cfg = fdl.Config(f, x=1)
fdl.add_tag(cfg, 'x', T)
print('add_tag loc:', cfg.__argument_history__['x'][-1].location)
fdl.set_tags(cfg, 0, {U})
print({k: [(e.kind.name, e.new_value) for e in v] for k, v in cfg.__argument_history__.items()})
print(dict(cfg.__argument_tags__))
# materialize_tags
cfg2 = fdl.Config(f, x=1); fdl.add_tag(cfg2,'x',T)
m = tagging.materialize_tags(cfg2, clear_field_tags=True)
print('materialized tags', dict(m.__argument_tags__), [ (e.kind.name,e.new_value) for e in m.__argument_history__['x']])
# selectors replace / set
cfg3 = fdl.Config(f, x=fdl.Config(f, x=2))
selectors.select(cfg3, f).set(y=5)
print('select.set loc', cfg3.__argument_history__['y'][-1].location)
cfg4 = fdl.Config(f, x=fdl.Config(dict, a=2))
selectors.select(cfg4, dict).replace('zzz')
print('replace: x=', cfg4.x, 'hist', [e.new_value for e in cfg4.__argument_history__['x']])
