import os, sys
sys.path.insert(0, os.getcwd())
import copy
import fiddle as fdl
from fiddle.daglish import Attr
from fiddle._src import diffing
from fiddle._src.codegen import codegen_diff

def fn(a=None, b=None, c=None): return (a, b, c)
def kw(**kwargs): return kwargs
class TagA(fdl.Tag):
  "t"

def both(diff, old, with_old=True):
  exp = copy.deepcopy(old); diffing.apply_diff(diff, exp)
  got = copy.deepcopy(old)
  code = codegen_diff.fiddler_from_diff(diff, old=got if with_old else None).code
  env = dict(globals()); exec(code, env); env['fiddler'](got)
  return exp, got, code

# A: tag on an argument that has no value, inside a new sub-config
old = fdl.Config(fn, a=1); new = copy.deepcopy(old)
new.b = fdl.Config(fn); fdl.add_tag(new.b, 'a', TagA)
exp, got, code = both(diffing.build_diff(old, new), old)
print('A equal?', exp == got, exp.b.__argument_tags__, got.b.__argument_tags__)

# B: reference to a non-memoizable old value through another path of a shared parent
S = fdl.Config(fn, a='old string')
old = fdl.Config(fn, a=S, b=S, c=fdl.Config(fn))
diff = diffing.Diff((diffing.ModifyValue((Attr('a'), Attr('a')), 'new'),
                     diffing.SetValue((Attr('c'), Attr('b')), diffing.Reference('old', (Attr('b'), Attr('a'))))))
exp, got, code = both(diff, old)
print('B equal?', exp == got, exp.c.b, got.c.b); print(code)

# C: **kwargs argument whose name is a keyword
old = fdl.Config(kw, a=1); new = fdl.Config(kw, a=1, **{'for': 2})
try:
  both(diffing.build_diff(old, new), old); print('C ok')
except SyntaxError as e:
  print('C SyntaxError', e)
