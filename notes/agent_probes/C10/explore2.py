import os, sys
sys.path.insert(0, os.getcwd())
exec(open('/tmp/wt3-out/C10/explore.py').read().split('# callable change')[0])
import traceback
def args_fn(x, /, *args, k=None): return (x, args, k)
def attempt(name, old, new):
  try:
    d = check(old, new); print(name, 'OK', len(d.changes))
  except Exception as e:
    print(name, 'FAIL', type(e).__name__, str(e)[:300])
attempt('tuple', fdl.Config(foo, a=(1,2)), fdl.Config(foo, a=(1,3)))
attempt('posargs', fdl.Config(args_fn, 1, 2, 3), fdl.Config(args_fn, 1, 2, 4))
attempt('posargs-same', fdl.Config(args_fn, 1, 2, 3), fdl.Config(args_fn, 1, 2, 3))
class Obj:
  def __init__(self, v): self.v = v
o = fdl.Config(foo, a=Obj(1))
print('custom obj deepcopy diff', diffing.build_diff(o, copy.deepcopy(o)))
o = fdl.Config(foo, a={1,2,3})
print('set deepcopy diff', diffing.build_diff(o, copy.deepcopy(o)))
