import os, sys
sys.path.insert(0, os.getcwd())
import copy, dataclasses
import fiddle as fdl
from fiddle import daglish
from fiddle._src import diffing
from fiddle._src.experimental import daglish_legacy

class TagA(fdl.Tag):
  "a"
class TagB(fdl.Tag):
  "b"

def foo(a=None, b=None, c=None): return (a,b,c)
def bar(b=None, c=None, d=None): return (b,c,d)
def kw(**kwargs): return kwargs

def tags_of(cfg):
  out = {}
  for v, path in daglish.iterate(cfg):
    if isinstance(v, fdl.Buildable):
      out[path] = {k: frozenset(t) for k, t in v.__argument_tags__.items() if t}
  return out

def sharing(cfg):
  d = daglish_legacy.collect_paths_by_id(cfg, memoizable_only=True)
  return sorted(sorted(map(daglish.path_str, ps)) for ps in d.values())

def check(old, new):
  new_snapshot = copy.deepcopy(new)
  diff = diffing.build_diff(old, new)
  diff_repr = str(diff)
  target = copy.deepcopy(old)
  root_id = id(target)
  diffing.apply_diff(diff, target)
  assert id(target) == root_id
  assert target == new, (target, new)
  assert tags_of(target) == tags_of(new), (tags_of(target), tags_of(new))
  assert sharing(target) == sharing(new), (sharing(target), sharing(new))
  assert new == new_snapshot and tags_of(new) == tags_of(new_snapshot) and sharing(new)==sharing(new_snapshot)
  assert str(diff) == diff_repr
  return diff

# callable change + tag removed on vanished param
old = fdl.Config(foo, a=1, b=2)
fdl.add_tag(old, 'a', TagA)
new = fdl.Config(bar, b=2, d=4)
print(check(old, new))

# root appears in new
old = fdl.Config(foo, a=1)
new = fdl.Config(foo, a=old)
print(check(old, new))

# nan
old = fdl.Config(foo, a=float('nan'), b=[float('nan')])
d = diffing.build_diff(old, copy.deepcopy(old))
print(d)
