"""Statement-level control-flow graph for one function, with exceptional edges.

Nodes are ints. `kind[n]` is one of: entry, exit (normal return), raise_exit
(exception leaves the function), stmt (simple statement), if, while, for,
with, with_exit, dispatch (exception handler dispatch), handler, match, join.
`stmt[n]` is the ast node (for if/while: the statement; the test is
`stmt[n].test`).  Edge labels: next, true, false, iter, exhausted, exc, raise,
return, break, continue, handler, unhandled, case.

`finally` bodies are duplicated per continuation (normal / exception / each
jump crossing them), which keeps every path explicit.
"""
from __future__ import annotations

import ast
from typing import Callable, Dict, Iterable, List, Optional, Set, Tuple

Pred = Tuple[int, str]


class _Ctx:
  __slots__ = ('parent', 'kind', 'data')

  def __init__(self, parent, kind, data):
    self.parent = parent
    self.kind = kind  # 'root' | 'loop' | 'finally' | 'handlers'
    self.data = data


class CFG:

  def __init__(self, body: List[ast.stmt], name: str = ''):
    self.name = name
    self.kind: Dict[int, str] = {}
    self.stmt: Dict[int, Optional[ast.AST]] = {}
    self.succ: Dict[int, List[Tuple[int, str]]] = {}
    self.pred: Dict[int, List[Tuple[int, str]]] = {}
    self._n = 0
    self.entry = self._new('entry', None)
    self.exit = self._new('exit', None)
    self.raise_exit = self._new('raise_exit', None)
    root = _Ctx(None, 'root', {})
    out = self._stmts(body, [(self.entry, 'next')], root)
    self._link(out, self.exit)

  # ------------------------------------------------------------ construction
  def _new(self, kind, stmt) -> int:
    n = self._n
    self._n += 1
    self.kind[n] = kind
    self.stmt[n] = stmt
    self.succ[n] = []
    self.pred[n] = []
    return n

  def _edge(self, a: int, b: int, label: str):
    self.succ[a].append((b, label))
    self.pred[b].append((a, label))

  def _link(self, preds: List[Pred], n: int):
    for a, label in preds:
      self._edge(a, n, label)

  def _exc_target(self, ctx: _Ctx) -> int:
    """Node to which an exception raised under ctx transfers control."""
    c = ctx
    while c is not None:
      if c.kind == 'handlers':
        return c.data['dispatch']
      if c.kind == 'finally':
        if 'exc_copy' not in c.data:
          j = self._new('join', None)
          c.data['exc_copy'] = j
          out = self._stmts(c.data['body'], [(j, 'next')], c.parent)
          tgt = self._exc_target(c.parent)
          for a, _ in out:
            self._edge(a, tgt, 'raise')
        return c.data['exc_copy']
      c = c.parent
    return self.raise_exit

  def _add_exc(self, n: int, ctx: _Ctx, label='exc'):
    self._edge(n, self._exc_target(ctx), label)

  def _jump(self, preds: List[Pred], ctx: _Ctx, stop_kind: Optional[str]):
    """Runs pending finally blocks from ctx outward up to the first ctx of

    kind `stop_kind` (None = function level); returns (preds, stop_ctx).
    """
    c = ctx
    while c is not None:
      if stop_kind is not None and c.kind == stop_kind:
        return preds, c
      if c.kind == 'finally':
        preds = self._stmts(c.data['body'], preds, c.parent)
      c = c.parent
    return preds, None

  def _stmts(self, stmts: List[ast.stmt], preds: List[Pred],
             ctx: _Ctx) -> List[Pred]:
    for st in stmts:
      if not preds:
        # unreachable code: still build it so rules can see the statements,
        # but leave it disconnected.
        preds = []
      preds = self._stmt(st, preds, ctx)
    return preds

  def _simple(self, st, preds, ctx, kind='stmt') -> int:
    n = self._new(kind, st)
    self._link(preds, n)
    self._add_exc(n, ctx)
    return n

  def _stmt(self, st: ast.stmt, preds: List[Pred], ctx: _Ctx) -> List[Pred]:
    if isinstance(st, ast.If):
      n = self._simple(st, preds, ctx, 'if')
      t = self._stmts(st.body, [(n, 'true')], ctx)
      f = self._stmts(st.orelse, [(n, 'false')], ctx)
      return t + f
    if isinstance(st, ast.While):
      n = self._simple(st, preds, ctx, 'while')
      loop = _Ctx(ctx, 'loop', {'head': n, 'breaks': []})
      body_out = self._stmts(st.body, [(n, 'true')], loop)
      self._link(body_out, n)
      is_true = isinstance(st.test, ast.Constant) and bool(st.test.value)
      out = [] if is_true else self._stmts(st.orelse, [(n, 'false')], ctx)
      return out + loop.data['breaks']
    if isinstance(st, (ast.For, ast.AsyncFor)):
      n = self._simple(st, preds, ctx, 'for')
      loop = _Ctx(ctx, 'loop', {'head': n, 'breaks': []})
      body_out = self._stmts(st.body, [(n, 'iter')], loop)
      self._link(body_out, n)
      out = self._stmts(st.orelse, [(n, 'exhausted')], ctx)
      return out + loop.data['breaks']
    if isinstance(st, (ast.With, ast.AsyncWith)):
      n = self._simple(st, preds, ctx, 'with')
      out = self._stmts(st.body, [(n, 'next')], ctx)
      x = self._new('with_exit', st)
      self._link(out, x)
      return [(x, 'next')]
    if isinstance(st, ast.Try) or st.__class__.__name__ == 'TryStar':
      return self._try(st, preds, ctx)
    if isinstance(st, ast.Return):
      n = self._simple(st, preds, ctx)
      out, _ = self._jump([(n, 'return')], ctx, None)
      self._link(out, self.exit)
      return []
    if isinstance(st, ast.Raise):
      n = self._new('stmt', st)
      self._link(preds, n)
      self._add_exc(n, ctx, 'raise')
      return []
    if isinstance(st, ast.Break):
      n = self._new('stmt', st)
      self._link(preds, n)
      out, loop = self._jump([(n, 'break')], ctx, 'loop')
      if loop is not None:
        loop.data['breaks'].extend(out)
      return []
    if isinstance(st, ast.Continue):
      n = self._new('stmt', st)
      self._link(preds, n)
      out, loop = self._jump([(n, 'continue')], ctx, 'loop')
      if loop is not None:
        self._link(out, loop.data['head'])
      return []
    if isinstance(st, ast.Match):
      n = self._simple(st, preds, ctx, 'match')
      outs = []
      exhaustive = False
      for case in st.cases:
        outs += self._stmts(case.body, [(n, 'case')], ctx)
        if (isinstance(case.pattern, ast.MatchAs) and
            case.pattern.pattern is None and case.guard is None):
          exhaustive = True
      if not exhaustive:
        outs.append((n, 'false'))
      return outs
    if isinstance(st, ast.Assert):
      n = self._simple(st, preds, ctx, 'assert')
      return [(n, 'true')]
    # simple statements, defs, classes, imports, expression statements
    n = self._simple(st, preds, ctx)
    return [(n, 'next')]

  def _try(self, st, preds, ctx) -> List[Pred]:
    outer = ctx
    if st.finalbody:
      fin = _Ctx(ctx, 'finally', {'body': st.finalbody})
      inner = fin
    else:
      fin = None
      inner = ctx
    if st.handlers:
      d = self._new('dispatch', st)
      hctx = _Ctx(inner, 'handlers', {'dispatch': d})
      body_ctx = hctx
    else:
      d = None
      body_ctx = inner
    body_out = self._stmts(st.body, preds, body_ctx)
    # else-block runs under `inner` (its exceptions are not caught by handlers)
    body_out = self._stmts(st.orelse, body_out, inner)
    outs = list(body_out)
    if d is not None:
      catches_all = False
      for h in st.handlers:
        hn = self._new('handler', h)
        self._edge(d, hn, 'handler')
        outs += self._stmts(h.body, [(hn, 'next')], inner)
        if h.type is None or (isinstance(h.type, ast.Name) and
                              h.type.id == 'BaseException'):
          catches_all = True
      if not catches_all:
        self._edge(d, self._exc_target(inner), 'unhandled')
    if fin is not None:
      outs = self._stmts(st.finalbody, outs, outer)
    return outs

  # ----------------------------------------------------------------- queries
  def nodes(self) -> Iterable[int]:
    return range(self._n)

  def stmt_nodes(self, pred: Callable[[int], bool] = None) -> List[int]:
    return [n for n in self.nodes()
            if self.stmt[n] is not None and (pred is None or pred(n))]

  def nodes_of(self, st: ast.AST) -> List[int]:
    """CFG nodes carrying statement `st` (several when in a finally body)."""
    return [n for n in self.nodes() if self.stmt[n] is st and
            self.kind[n] != 'with_exit']

  def reach(self, starts: Iterable[int], blocked: Set[int] = frozenset(),
            labels: Optional[Set[str]] = None, backward=False,
            edge_ok: Callable[[int, int, str], bool] = None) -> Set[int]:
    """Nodes reachable from `starts` without entering `blocked` nodes.

    `labels`: if given, only edges whose label is in the set are followed.
    Start nodes that are blocked are dropped.
    """
    starts = [s for s in starts if s not in blocked]
    seen = set(starts)
    work = list(seen)
    adj = self.pred if backward else self.succ
    while work:
      a = work.pop()
      for b, lab in adj[a]:
        if labels is not None and lab not in labels:
          continue
        if edge_ok is not None:
          src, dst = (b, a) if backward else (a, b)
          if not edge_ok(src, dst, lab):
            continue
        if b in blocked or b in seen:
          continue
        seen.add(b)
        work.append(b)
    return seen

  def live_nodes(self, labels=None) -> Set[int]:
    return self.reach([self.entry], labels=labels)

  def dominated_by(self, n: int, doms: Set[int], labels=None) -> bool:
    """True iff every path entry->n passes through a node in `doms`."""
    if n in doms:
      return True
    return n not in self.reach([self.entry], blocked=doms, labels=labels)

  def postdominated_by(self, n: int, doms: Set[int], exits: Iterable[int],
                       labels=None) -> bool:
    """True iff every path from n to one of `exits` passes through `doms`."""
    r = self.reach([n], blocked=doms, labels=labels)
    return not any(e in r for e in exits if e != n)

  def find_path(self, start: int, goal: Set[int], blocked=frozenset(),
                labels=None) -> Optional[List[int]]:
    prev = {start: None}
    work = [start]
    while work:
      a = work.pop(0)
      if a in goal and a != start:
        out = []
        while a is not None:
          out.append(a)
          a = prev[a]
        return list(reversed(out))
      for b, lab in self.succ[a]:
        if labels is not None and lab not in labels:
          continue
        if b in blocked or b in prev:
          continue
        prev[b] = a
        work.append(b)
    return None

  def describe(self, n: int) -> str:
    st = self.stmt[n]
    k = self.kind[n]
    if st is None:
      return k
    line = getattr(st, 'lineno', 0)
    if k in ('if', 'while', 'assert'):
      txt = f'{k} {ast.unparse(st.test)}'
    elif k == 'for':
      txt = f'for {ast.unparse(st.target)} in {ast.unparse(st.iter)}'
    elif k in ('with', 'with_exit'):
      txt = f'{k} ' + ', '.join(ast.unparse(i) for i in st.items)
    elif k == 'handler':
      txt = 'except ' + (ast.unparse(st.type) if st.type else '')
    elif k == 'dispatch':
      txt = 'except-dispatch'
    elif k == 'match':
      txt = f'match {ast.unparse(st.subject)}'
    else:
      txt = ast.unparse(st).split('\n')[0]
    return f'L{line}: {txt[:100]}'


NORMAL = {'next', 'true', 'false', 'iter', 'exhausted', 'return', 'break',
          'continue', 'case', 'raise', 'handler', 'unhandled'}
NO_EXC = NORMAL  # every label except the implicit 'exc' edges
ALL = None


def node_exprs(cfg: CFG, n: int) -> List[ast.AST]:
  """The expressions evaluated *at* node n (not the nested bodies)."""
  st = cfg.stmt[n]
  k = cfg.kind[n]
  if st is None:
    return []
  if k in ('if', 'while', 'assert'):
    return [st.test] + ([st.msg] if k == 'assert' and st.msg else [])
  if k == 'for':
    return [st.iter, st.target]
  if k == 'with':
    out = []
    for it in st.items:
      out.append(it.context_expr)
      if it.optional_vars is not None:
        out.append(it.optional_vars)
    return out
  if k in ('with_exit', 'dispatch'):
    return []
  if k == 'handler':
    return [st.type] if st.type is not None else []
  if k == 'match':
    return [st.subject]
  if isinstance(st, (ast.FunctionDef, ast.AsyncFunctionDef)):
    return list(st.decorator_list) + list(st.args.defaults) + [
        d for d in st.args.kw_defaults if d]
  if isinstance(st, ast.ClassDef):
    return list(st.decorator_list) + list(st.bases)
  return [st]


def walk_node(cfg: CFG, n: int):
  """ast.walk over expressions evaluated at node n, not entering nested defs."""
  from fdlstatic.model import walk_stmts
  for e in node_exprs(cfg, n):
    if isinstance(e, ast.stmt):
      yield from walk_stmts([e])
    else:
      yield from walk_stmts([ast.Expr(value=e)])


def forward(cfg: CFG, init, transfer, refine=None, join=None, labels=None,
            max_iter=20000):
  """Generic forward dataflow.

  transfer(n, state) -> state after node n.
  refine(n, label, state) -> state along edge (or None = infeasible).
  join(a, b) -> merged state.  States must support ==.
  Returns dict node -> state at node entry.
  """
  if join is None:
    join = lambda a, b: a | b
  state_in = {cfg.entry: init}
  work = [cfg.entry]
  it = 0
  while work:
    it += 1
    if it > max_iter:
      raise RuntimeError(f'dataflow did not converge on {cfg.name}')
    n = work.pop(0)
    out = transfer(n, state_in[n])
    for m, lab in cfg.succ[n]:
      if labels is not None and lab not in labels:
        continue
      s = out
      if lab == 'exc':
        # an exception may be raised before the statement's effect completes
        s = join(state_in[n], out)
      if refine is not None:
        s = refine(n, lab, s)
        if s is None:
          continue
      if m in state_in:
        merged = join(state_in[m], s)
        if merged != state_in[m]:
          state_in[m] = merged
          if m not in work:
            work.append(m)
      else:
        state_in[m] = s
        work.append(m)
  return state_in
