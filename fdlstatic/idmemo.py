"""IDMEMO: identity-keyed tables must pin the objects whose id() they store.

An entry `T[id(x)] = v` is only meaningful while `x` is alive: once `x` is
collected CPython may hand the same id to a new object and the table would
confuse the two.  A site is *pinned* when the stored value mentions `x`, when
a sibling statement stores `x` in some container, or when `x` ranges over a
collection that outlives the table.
"""
from __future__ import annotations

import ast
from typing import Dict, List, Optional

from fdlstatic.ctx import Ctx
from fdlstatic.model import FuncInfo, Module, unparse, walk_function, walk_stmts


def _is_id_call(e) -> Optional[ast.expr]:
  if isinstance(e, ast.Call) and isinstance(
      e.func, ast.Name) and e.func.id == 'id' and len(e.args) == 1:
    return e.args[0]
  return None


class Site:

  def __init__(self, scope, table, kind, x, node, value=None):
    self.scope = scope  # FuncInfo or Module
    self.table = table
    self.kind = kind
    self.x = x  # ast expr whose id is taken
    self.node = node
    self.value = value
    self.pinned = False
    self.how = ''

  @property
  def key(self):
    return f'{self.scope.qualname}:{self.table}'


def _mentions(expr, x) -> bool:
  if expr is None:
    return False
  tx = unparse(x)
  for n in ast.walk(expr):
    if isinstance(n, (ast.Name, ast.Attribute)) and unparse(n) == tx:
      # not inside another id(...) call
      return True
  return False


def _mentions_outside_id(expr, x) -> bool:
  """`expr` holds `x` unconditionally: it is `x`, or a tuple / list / dict

  literal (possibly nested) with `x` as an element.  A conditional expression
  or a call involving `x` does not count: the entry may not hold the object.
  """
  if expr is None:
    return False
  tx = unparse(x)

  def rec(n):
    if isinstance(n, (ast.Name, ast.Attribute)) and unparse(n) == tx:
      return True
    if isinstance(n, (ast.Tuple, ast.List, ast.Set)):
      return any(rec(c) for c in n.elts)
    if isinstance(n, ast.Dict):
      return any(rec(c) for c in n.values if c is not None)
    return False

  return rec(expr)


def scan(ctx: Ctx, scope, nodes) -> List[Site]:
  """Finds id-keyed store sites among `nodes` (own body of scope)."""
  nodes = list(nodes)
  keyvars: Dict[str, ast.expr] = {}
  for n in nodes:
    if isinstance(n, ast.Assign) and len(n.targets) == 1 and isinstance(
        n.targets[0], ast.Name):
      x = _is_id_call(n.value)
      if x is not None:
        keyvars[n.targets[0].id] = x

  def id_of(e):
    x = _is_id_call(e)
    if x is not None:
      return x
    if isinstance(e, ast.Name) and e.id in keyvars:
      return keyvars[e.id]
    return None

  sites: List[Site] = []
  for n in nodes:
    if isinstance(n, ast.Assign):
      for t in n.targets:
        if isinstance(t, ast.Subscript):
          x = id_of(t.slice)
          if x is not None:
            sites.append(Site(scope, unparse(t.value), 'store', x, n, n.value))
    elif isinstance(n, ast.Call) and isinstance(n.func, ast.Attribute):
      if n.func.attr == 'setdefault' and n.args:
        x = id_of(n.args[0])
        if x is not None:
          sites.append(Site(scope, unparse(n.func.value), 'setdefault', x, n,
                            n.args[1] if len(n.args) > 1 else None))
      elif n.func.attr == 'add' and len(n.args) == 1:
        x = id_of(n.args[0])
        if x is not None:
          sites.append(Site(scope, unparse(n.func.value), 'add', x, n))
    elif isinstance(n, (ast.DictComp, ast.SetComp)):
      kexpr = n.key if isinstance(n, ast.DictComp) else n.elt
      x = _is_id_call(kexpr)
      if x is not None:
        s = Site(scope, '<comprehension>', 'comp', x, n,
                 n.value if isinstance(n, ast.DictComp) else None)
        s.generators = n.generators
        sites.append(s)
  # name comprehension tables by their assignment target when possible
  for n in nodes:
    if isinstance(n, (ast.Assign, ast.AnnAssign)):
      v = n.value
      tg = n.targets[0] if isinstance(n, ast.Assign) else n.target
      for s in sites:
        if s.kind == 'comp' and s.node is v:
          s.table = unparse(tg)
    if isinstance(n, ast.keyword) or isinstance(n, ast.Call):
      pass
  # pinning
  for s in sites:
    if s.value is not None and _mentions_outside_id(s.value, s.x):
      s.pinned = True
      s.how = f'the entry stores `{unparse(s.x)}` (`{unparse(s.value)[:60]}`)'
      continue
    if s.kind == 'comp':
      src = s.generators[0].iter
      s.pinned = True
      s.how = (f'ids of the elements of `{unparse(src)[:60]}`, which is held '
               'while the table is used')
      continue
    # sibling pin: a statement in the same function stores x in a container
    tx = unparse(s.x)
    for n in nodes:
      pin = None
      if isinstance(n, ast.Call) and isinstance(
          n.func, ast.Attribute) and n.func.attr in (
              'append', 'add') and n.args and unparse(n.args[0]) == tx:
        pin = unparse(n)
      elif isinstance(n, ast.Assign) and n is not s.node and any(
          isinstance(t, ast.Subscript) for t in n.targets) and (
              _mentions_outside_id(n.value, s.x)):
        pin = unparse(n)
      if pin:
        s.pinned = True
        s.how = f'pinned by the sibling statement `{pin[:70]}`'
        break
  return sites


def scan_function(ctx: Ctx, f: FuncInfo) -> List[Site]:
  return scan(ctx, f, walk_function(f.node))


def scan_module(ctx: Ctx, modname: str) -> List[Site]:
  mod = ctx.mod(modname)
  out = []
  for f in mod.all_funcs:
    out += scan_function(ctx, f)
  body = [s for s in mod.tree.body
          if not isinstance(s, (ast.FunctionDef, ast.AsyncFunctionDef,
                                ast.ClassDef))]
  out += scan(ctx, mod, walk_stmts(body))
  return out
