"""Regular-language inclusion over a finite alphabet of representative characters.

Regexes come from two sides: Python `re` patterns (parsed with the stdlib's
`re._parser`) and string templates (f-strings whose holes are replaced by the
regular language of the values that may be formatted there).  Both are turned
into a small AST, compiled to an NFA (Thompson) and compared by the subset
construction: L(A) <= L(B) iff no reachable pair (state set of A, state set of
B) is accepting for A and rejecting for B.  The alphabet is the set of
literal characters mentioned on either side plus one representative for each
character category that `\\w`, `\\d`, `\\s` and negated classes can tell
apart.
"""
from __future__ import annotations

import re
from typing import Callable, Dict, FrozenSet, List, Optional, Set, Tuple

try:
  import re._parser as sre_parse  # Python >= 3.11
  import re._constants as sre_c
except ImportError:  # pragma: no cover
  import sre_parse
  import sre_constants as sre_c

# ----------------------------------------------------------------- regex AST
# ('chars', predicate_description, fn(char)->bool)
# ('cat', [r...]) ('alt', [r...]) ('star', r) ('plus', r) ('opt', r) ('eps',)


def lit(s: str):
  return ('cat', [('chars', repr(c), (lambda ch, c=c: ch == c)) for c in s])


def chars(desc: str, fn: Callable[[str], bool]):
  return ('chars', desc, fn)


def cat(*rs):
  return ('cat', list(rs))


def alt(*rs):
  return ('alt', list(rs))


def star(r):
  return ('star', r)


def plus(r):
  return ('cat', [r, ('star', r)])


def opt(r):
  return ('alt', [r, ('cat', [])])


_CATS = {
    'category_word': lambda ch: ch.isalnum() or ch == '_',
    'category_not_word': lambda ch: not (ch.isalnum() or ch == '_'),
    'category_digit': lambda ch: ch.isdigit(),
    'category_not_digit': lambda ch: not ch.isdigit(),
    'category_space': lambda ch: ch.isspace(),
    'category_not_space': lambda ch: not ch.isspace(),
}


def literals_in_pattern(pattern: str) -> Set[str]:
  out = set()

  def walk(items):
    for op, av in items:
      name = str(op).lower()
      if name in ('literal', 'not_literal'):
        out.add(chr(av))
      elif name == 'in':
        for o2, a2 in av:
          n2 = str(o2).lower()
          if n2 == 'literal':
            out.add(chr(a2))
          elif n2 == 'range':
            out.add(chr(a2[0]))
            out.add(chr(a2[1]))
      elif name == 'branch':
        for b in av[1]:
          walk(b)
      elif name == 'subpattern':
        walk(av[3])
      elif name in ('max_repeat', 'min_repeat'):
        walk(av[2])

  walk(sre_parse.parse(pattern))
  return out


def from_pattern(pattern: str):
  """Python regex -> AST (the subset used by the repository's patterns)."""

  def conv(items):
    out = []
    for op, av in items:
      name = str(op).lower()
      if name == 'literal':
        c = chr(av)
        out.append(chars(repr(c), lambda ch, c=c: ch == c))
      elif name == 'not_literal':
        c = chr(av)
        out.append(chars('not ' + repr(c), lambda ch, c=c: ch != c))
      elif name == 'any':
        out.append(chars('.', lambda ch: ch != '\n'))
      elif name == 'in':
        negate = False
        preds = []
        for o2, a2 in av:
          n2 = str(o2).lower()
          if n2 == 'negate':
            negate = True
          elif n2 == 'literal':
            c = chr(a2)
            preds.append(lambda ch, c=c: ch == c)
          elif n2 == 'range':
            lo, hi = a2
            preds.append(lambda ch, lo=lo, hi=hi: lo <= ord(ch) <= hi)
          elif n2 == 'category':
            preds.append(_CATS[str(a2).lower()])
          else:
            raise ValueError(f'unsupported class item {o2}')
        if negate:
          out.append(chars('[^...]', lambda ch, ps=preds: not any(
              p(ch) for p in ps)))
        else:
          out.append(chars('[...]', lambda ch, ps=preds: any(
              p(ch) for p in ps)))
      elif name == 'branch':
        out.append(('alt', [('cat', conv(b)) for b in av[1]]))
      elif name == 'subpattern':
        out.append(('cat', conv(av[3])))
      elif name in ('max_repeat', 'min_repeat'):
        lo, hi, sub = av
        r = ('cat', conv(sub))
        parts = [r] * lo
        if hi == sre_c.MAXREPEAT:
          parts.append(('star', r))
        else:
          for _ in range(hi - lo):
            parts.append(opt(r))
        out.append(('cat', parts))
      elif name == 'at':
        continue  # anchors: inclusion is checked for full matches
      else:
        raise ValueError(f'unsupported regex construct {op}')
    return out

  return ('cat', conv(sre_parse.parse(pattern)))


# ----------------------------------------------------------------------- NFA
class NFA:

  def __init__(self):
    self.n = 0
    self.eps: Dict[int, Set[int]] = {}
    self.trans: Dict[int, List[Tuple[Callable[[str], bool], int]]] = {}
    self.start = self.new()
    self.accept = self.new()

  def new(self) -> int:
    s = self.n
    self.n += 1
    self.eps[s] = set()
    self.trans[s] = []
    return s

  def build(self, r, a: int, b: int):
    kind = r[0]
    if kind == 'chars':
      self.trans[a].append((r[2], b))
    elif kind == 'cat':
      cur = a
      items = r[1]
      if not items:
        self.eps[a].add(b)
        return
      for i, sub in enumerate(items):
        nxt = b if i == len(items) - 1 else self.new()
        self.build(sub, cur, nxt)
        cur = nxt
    elif kind == 'alt':
      for sub in r[1]:
        s, e = self.new(), self.new()
        self.eps[a].add(s)
        self.build(sub, s, e)
        self.eps[e].add(b)
    elif kind == 'star':
      s, e = self.new(), self.new()
      self.eps[a].add(s)
      self.eps[a].add(b)
      self.build(r[1], s, e)
      self.eps[e].add(s)
      self.eps[e].add(b)
    else:
      raise ValueError(kind)

  def closure(self, states) -> FrozenSet[int]:
    seen = set(states)
    work = list(states)
    while work:
      s = work.pop()
      for t in self.eps[s]:
        if t not in seen:
          seen.add(t)
          work.append(t)
    return frozenset(seen)

  def step(self, states, ch: str) -> FrozenSet[int]:
    out = set()
    for s in states:
      for pred, t in self.trans[s]:
        if pred(ch):
          out.add(t)
    return self.closure(out)


def compile_regex(r) -> NFA:
  n = NFA()
  n.build(r, n.start, n.accept)
  return n


DEFAULT_REPRESENTATIVES = ['0', '5', 'a', 'Z', '_', ' ', '-', 'é', '\\',
                           '\n', '.', '[', ']', "'", '"', '=', '(', ')', ',',
                           ':', '+', 'n']


def included(a, b, alphabet: List[str]) -> Tuple[bool, Optional[str]]:
  """L(a) <= L(b)?  Returns (True, None) or (False, shortest witness)."""
  na, nb = compile_regex(a), compile_regex(b)
  start = (na.closure([na.start]), nb.closure([nb.start]))
  seen = {start: ''}
  work = [start]
  while work:
    sa, sb = work.pop(0)
    w = seen[(sa, sb)]
    if na.accept in sa and nb.accept not in sb:
      return False, w
    for ch in alphabet:
      ta = na.step(sa, ch)
      if not ta:
        continue
      tb = nb.step(sb, ch)
      key = (ta, tb)
      if key not in seen:
        seen[key] = w + ch
        work.append(key)
  return True, None
