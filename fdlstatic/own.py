"""OWN: interprocedural ownership / may-mutate-input analysis.

Abstract value AV(direct, contents, fields):
  direct   - set of (origin, level): the value may BE the object bound to
             `origin` (level 'self'), the object stored in its attribute
             `name` (level ('f', name)), or that object or anything reachable
             from it (level 'sub');
  contents - set of origins: objects *held by* the value (deeply) may be
             (reachable from) those origins; a shallow copy of x has
             direct = {} and contents = {x};
  fields   - optional known shape of a *fresh* object: attribute name /
             tuple index / '*' (container elements) -> AV.  Nesting is capped.
Origins are parameter indices (int) or names of captured variables (str) of
the function being analysed.  A mutation sink acting on a receiver whose
`direct` is non-empty yields a mutation fact.  Function summaries (mutation
facts + returned AV + field shape of `self` after __init__) are computed to a
fixpoint over the call graph and applied at exactly-resolved call sites; calls
resolved only by method name are not applied (precision over soundness).
"""
from __future__ import annotations

import ast
from typing import Dict, FrozenSet, List, Optional, Set, Tuple

from fdlstatic import cfg as cfg_lib
from fdlstatic.ctx import Ctx
from fdlstatic.model import (ClassInfo, FuncInfo, Module, unparse,
                             walk_function)

MAX_FACTS = 12
MAX_DEPTH = 3
INTERNALS = ('__arguments__', '__argument_tags__', '__argument_history__',
             '__dict__')
SELF_LEVEL_MAPS = ('__argument_tags__', '__argument_history__')
MUTATORS = {'append', 'extend', 'add', 'update', 'pop', 'clear', 'remove',
            'discard', 'insert', 'setdefault', 'popitem', 'sort', 'reverse',
            'appendleft', 'difference_update', 'intersection_update',
            'symmetric_difference_update', '__setitem__', '__delitem__',
            'move_to_end'}
PURE_BUILTINS = {'len', 'isinstance', 'issubclass', 'str', 'repr', 'int',
                 'float', 'bool', 'id', 'type', 'hash', 'callable', 'hasattr',
                 'print', 'format', 'any', 'all', 'sum', 'abs', 'ord', 'chr',
                 'range', 'round', 'bytes', 'object', 'divmod', 'pow',
                 'vars', 'dir', 'locals', 'globals', 'super', 'open', 'input'}
SHALLOW_BUILTINS = {'list', 'tuple', 'set', 'frozenset', 'dict', 'sorted',
                    'reversed', 'iter'}
ELEMENT_BUILTINS = {'next', 'min', 'max'}
TRAVERSAL_RUNNERS = {
    # callee qualname -> (index of fn arg, index of root arg)
    'fiddle._src.daglish.Traversal.run': (0, 1),
    'fiddle._src.daglish.Traversal.begin': (0, 1),
    'fiddle._src.daglish.MemoizedTraversal.begin': (0, 1),
    'fiddle._src.daglish.BasicTraversal': (0, 1),
    'fiddle._src.daglish.MemoizedTraversal': (0, 1),
    'fiddle._src.experimental.daglish_legacy.traverse_with_path': (0, 1),
    'fiddle._src.experimental.daglish_legacy.traverse_with_all_paths': (0, 1),
    'fiddle._src.experimental.daglish_legacy.memoized_traverse': (0, 1),
}
LEGACY_RUNNERS = {
    'fiddle._src.experimental.daglish_legacy.traverse_with_path',
    'fiddle._src.experimental.daglish_legacy.traverse_with_all_paths',
    'fiddle._src.experimental.daglish_legacy.memoized_traverse',
}
STATE_METHODS = {'map_children', 'flattened_map_children',
                 'yield_map_child_values', 'call', 'get_all_paths',
                 'is_traversable', 'unflatten'}


class AV:
  __slots__ = ('direct', 'contents', 'fields', '_h')

  def __init__(self, direct=frozenset(), contents=frozenset(), fields=None):
    self.direct = direct if isinstance(direct, frozenset) else frozenset(direct)
    self.contents = contents if isinstance(contents, frozenset) else frozenset(
        contents)
    if fields is not None and not isinstance(fields, frozenset):
      fields = frozenset(fields.items())
    self.fields = fields
    self._h = hash((self.direct, self.contents, self.fields))

  def __hash__(self):
    return self._h

  def __eq__(self, other):
    return (isinstance(other, AV) and self._h == other._h and
            self.direct == other.direct and self.contents == other.contents
            and self.fields == other.fields)

  def fdict(self) -> Optional[dict]:
    return dict(self.fields) if self.fields is not None else None

  def __repr__(self):
    return f'AV({set(self.direct) or ""}, holds={set(self.contents) or ""}' + (
        f', fields={dict(self.fields)}' if self.fields is not None else '') + ')'


FRESH = AV()
EMPTY_CONTAINER = AV(fields={'*': FRESH})


def _is_selfmark(c) -> bool:
  return isinstance(c, tuple) and len(c) == 3 and c[0] == '@self'


def _marks(a: AV) -> FrozenSet:
  return frozenset(x for x in a.contents if _is_selfmark(x))


def origins_of(a: AV) -> FrozenSet:
  out = set(o for o, _ in a.direct)
  for c in a.contents:
    out.add(c[1] if _is_selfmark(c) else c)
  return frozenset(out)


def join(a: AV, b: AV) -> AV:
  if a is b or a == b:
    return a
  if a.fields is None and not a.direct and not a.contents:
    return b
  if b.fields is None and not b.direct and not b.contents:
    return a
  fields = None
  if a.fields is not None and b.fields is not None:
    da, db = dict(a.fields), dict(b.fields)
    fields = {}
    for k in set(da) | set(db):
      if k in da and k in db:
        fields[k] = join(da[k], db[k])
      else:
        fields[k] = da.get(k) or db.get(k)
  elif a.fields is not None:
    # one side has a known shape: keep it (attributes that exist only on that
    # side, e.g. after an isinstance-guarded re-wrap, stay precise)
    fields = dict(a.fields)
  elif b.fields is not None:
    fields = dict(b.fields)
  return AV(a.direct | b.direct, a.contents | b.contents, fields)


def joins(avs) -> AV:
  out = FRESH
  for a in avs:
    out = join(out, a)
  return out


def cap(a: AV, depth: int = MAX_DEPTH) -> AV:
  if a.fields is None:
    return a
  if depth <= 0:
    extra = frozenset()
    for _, v in a.fields:
      extra |= origins_of(v) | _marks(v)
    return AV(a.direct, a.contents | extra, None)
  return AV(a.direct, a.contents,
            {k: cap(v, depth - 1) for k, v in a.fields})


def deep(a: AV) -> AV:
  """Something reachable from `a` (unknown depth)."""
  o = origins_of(a)
  direct = set((x, 'sub') for x in o)
  contents = set(o)
  for c in a.contents:
    if _is_selfmark(c):
      direct.add((c[1], c[2]))
      contents.add(c)
  return AV(direct, contents)


def read(a: AV, key) -> AV:
  """Attribute (key=str), tuple index (int) or element ('*') of `a`."""
  direct = set()
  precise = False
  marked = {c[1] for c in a.contents if _is_selfmark(c)}
  for o, lvl in a.direct:
    if o in marked:
      # a per-argument map of a Buildable: its elements are part of the
      # Buildable itself (handled through the marks below)
      precise = True
      continue
    if lvl == 'self':
      # ('f', name): object in attribute `name`; ('f', '*'): an element
      direct.add((o, ('f', key if isinstance(key, str) else '*')))
      precise = True
    else:
      direct.add((o, 'sub'))
  contents = set(o for o, _ in a.direct)
  known = None
  if a.fields is not None:
    fd = dict(a.fields)
    if key in fd:
      known = fd[key]
    elif isinstance(key, int) and '*' in fd:
      known = fd['*']
    elif key == '*':
      ints = [v for k, v in fd.items() if isinstance(k, int)]
      if ints:
        known = joins(ints)
  if known is None:
    if precise:
      # attribute of (exactly) a parameter object: the field-level origin
      # is the precise answer; stores into it are tracked in `fields`
      for c in a.contents:
        if _is_selfmark(c):
          direct.add((c[1], c[2]))
          contents.add(c)
      return AV(direct, contents)
    for c in a.contents:
      if _is_selfmark(c):
        direct.add((c[1], c[2]))
        contents.add(c)
      else:
        direct.add((c, 'sub'))
        contents.add(c)
    return AV(direct, contents)
  return join(AV(direct, contents), known)


def elem(a: AV) -> AV:
  return read(a, '*')


def holding(*avs: AV) -> AV:
  """A new object that holds the given values (shape unknown)."""
  c = frozenset()
  for a in avs:
    c |= origins_of(a) | _marks(a)
  return AV(frozenset(), c)


def container(elements: List[AV], indexed=False) -> AV:
  """A new list / set / tuple / dict holding `elements`."""
  fields = {'*': cap(joins(elements), MAX_DEPTH - 1) if elements else FRESH}
  if indexed:
    for i, e in enumerate(elements):
      fields[i] = cap(e, MAX_DEPTH - 1)
  c = frozenset()
  for a in elements:
    c |= origins_of(a) | _marks(a)
  return AV(frozenset(), c, fields)


def shallow(a: AV) -> AV:
  """copy.copy / x.copy() / map_children: a new object, same children."""
  return AV(frozenset(), origins_of(a) | _marks(a), a.fields)


def shallow_container(a: AV) -> AV:
  """list(x) / sorted(x) / x.values(): new container, same elements."""
  return AV(frozenset(), origins_of(a) | _marks(a),
            {'*': cap(elem(a), MAX_DEPTH - 1)})


def selfmap_view(owner: AV) -> AV:
  """values()/items() of X.__argument_tags__ / __argument_history__: the

  per-key containers belong to X itself (fresh iff X is fresh).
  """
  marks = frozenset(('@self', o, l) for o, l in owner.direct)
  return AV(frozenset(), marks | frozenset(o for o, _ in owner.direct))


class Fact:
  __slots__ = ('origin', 'level', 'chain')

  def __init__(self, origin, level, chain):
    self.origin = origin
    self.level = level
    self.chain = chain


class Summary:

  def __init__(self):
    self.mut: Dict[Tuple, Fact] = {}
    # every distinct sink per (origin, level), so that an accepted sink never
    # hides another one acting on the same input (capped)
    self.all: Dict[Tuple, List[Fact]] = {}
    self.ret: AV = FRESH
    self.env_join: Dict[str, AV] = {}
    self.self_fields: Dict[str, AV] = {}
    self.flows: Dict[object, FrozenSet] = {}
    self.sinks = 0

  def signature(self):
    return (frozenset(self.mut), self.ret,
            frozenset((k, tuple(sorted(f.chain[-1] for f in v)))
                      for k, v in self.all.items()),
            frozenset(self.env_join.items()),
            frozenset(self.self_fields.items()),
            frozenset(self.flows.items()))


class Own:

  def __init__(self, ctx: Ctx):
    self.ctx = ctx
    self.p = ctx.p
    self.summaries: Dict[str, Summary] = {}
    self.sink_sites: Dict[str, Dict[str, bool]] = {}
    self.unapplied_calls: Set[str] = set()
    self.iterations = 0
    self.closure: List[str] = []

  def analyse(self, roots: List[str]):
    closure = self.ctx.cg.reachable(
        roots, kinds=('exact', 'ref', 'nested', 'proto'))
    seen = set(q for q in closure if q in self.p.funcs)
    work = list(seen)
    while work:
      q = work.pop()
      f = self.p.funcs[q]
      for sub_f in list(f.nested.values()) + f.lambdas:
        if sub_f.qualname not in seen:
          seen.add(sub_f.qualname)
          work.append(sub_f.qualname)
    funcs = sorted(seen)
    self.closure = funcs
    for q in funcs:
      self.summaries.setdefault(q, Summary())
    for it in range(15):
      self.iterations = it + 1
      changed = False
      for q in funcs:
        old = self.summaries[q].signature()
        self._analyse_function(self.p.funcs[q])
        if self.summaries[q].signature() != old:
          changed = True
      if not changed:
        break
    return self

  def _analyse_function(self, f: FuncInfo):
    g = self.ctx.cfg(f)
    summ = self.summaries[f.qualname]
    init = {}
    for i, name in enumerate(f.params):
      init[name] = AV([(i, 'self')], [i])
    a = FuncAnalysis(self, f, g, summ)
    state0 = frozenset({((), frozenset(init.items()))})
    states = cfg_lib.forward(g, state0, a.transfer_parts, a.refine_parts,
                             a.join_parts, labels=cfg_lib.NO_EXC,
                             max_iter=60000)
    a.recording = True
    env_join: Dict[str, AV] = {}
    for n, parts in states.items():
      out_parts = a.transfer_parts(n, parts)
      for _, st in list(parts) + list(out_parts):
        for k, v in st:
          env_join[k] = join(env_join.get(k, FRESH), v)
    summ.env_join = env_join
    summ.ret = cap(join(summ.ret, a.ret))
    for k, fct in a.facts.items():
      summ.mut.setdefault(k, fct)
    for k, fcts in a.all_facts.items():
      have = summ.all.setdefault(k, [])
      for fct in fcts:
        if len(have) < MAX_FACTS and all(
            h.chain[-1] != fct.chain[-1] for h in have):
          have.append(fct)
    for k, v in a.flows.items():
      summ.flows[k] = summ.flows.get(k, frozenset()) | v
    for k, v in a.self_fields.items():
      summ.self_fields[k] = cap(join(summ.self_fields.get(k, FRESH), v),
                                MAX_DEPTH - 1)
    summ.sinks = a.sink_count
    self.sink_sites[f.qualname] = a.sites


class FuncAnalysis:

  def __init__(self, own: Own, f: FuncInfo, g, summ: Summary):
    self.own = own
    self.ctx = own.ctx
    self.p = own.p
    self.f = f
    self.g = g
    self.summ = summ
    self.recording = False
    self.facts: Dict[Tuple, Fact] = {}
    self.all_facts: Dict[Tuple, List[Fact]] = {}
    self.flows: Dict[object, FrozenSet] = {}
    self.self_fields: Dict[str, AV] = {}
    self.ret: AV = FRESH
    self.sites: Dict[str, bool] = {}
    self.sink_count = 0
    self.locals = f.local_names()
    self.self_name = None
    if f.cls is not None and not f.is_lambda and f.params:
      decos = {getattr(d, 'id', getattr(d, 'attr', None))
               for d in f.decorators}
      if 'staticmethod' not in decos and 'classmethod' not in decos:
        self.self_name = f.params[0]
    assigned: Dict[str, List] = {}
    for n in walk_function(f.node):
      if isinstance(n, ast.Assign):
        for t in n.targets:
          for x in ast.walk(t):
            if isinstance(x, ast.Name):
              assigned.setdefault(x.id, []).append(
                  n.value if isinstance(t, ast.Name) else None)
      elif isinstance(n, (ast.AugAssign, ast.AnnAssign, ast.For,
                          ast.comprehension, ast.NamedExpr)):
        for x in ast.walk(n.target):
          if isinstance(x, ast.Name):
            assigned.setdefault(x.id, []).append(None)
    self.flag_names = {
        k for k, vs in assigned.items()
        if vs and all(isinstance(v, ast.Constant) and isinstance(v.value, bool)
                      for v in vs) and k not in f.params}
    # identity tests between two names (`if x is original:`) work as flags as
    # well: set by `original = x`, cleared by `x = copy.copy(...)`
    self.identity_pairs = set()
    for n in walk_function(f.node):
      if isinstance(n, ast.Compare) and len(n.ops) == 1 and isinstance(
          n.ops[0], (ast.Is, ast.IsNot)) and isinstance(
              n.left, ast.Name) and isinstance(n.comparators[0], ast.Name):
        a_, b_ = n.left.id, n.comparators[0].id
        if a_ != b_ and a_ in self.locals and b_ in self.locals:
          self.identity_pairs.add(frozenset((a_, b_)))

  @staticmethod
  def _pair_key(pair) -> str:
    return ' is '.join(sorted(pair))

  def _identity_update(self, stmt, flags):
    """Flags after a statement that binds one of the names of an identity
    pair."""
    bound = set()
    value = None
    if isinstance(stmt, ast.Assign):
      for t in stmt.targets:
        bound |= {x.id for x in ast.walk(t) if isinstance(x, ast.Name)}
      if len(stmt.targets) == 1 and isinstance(stmt.targets[0], ast.Name):
        value = stmt.value
    elif isinstance(stmt, (ast.AugAssign, ast.AnnAssign, ast.For, ast.With)):
      for fld in ('target',):
        t = getattr(stmt, fld, None)
        if t is not None:
          bound |= {x.id for x in ast.walk(t) if isinstance(x, ast.Name)}
      if isinstance(stmt, ast.With):
        for it in stmt.items:
          if it.optional_vars is not None:
            bound |= {x.id for x in ast.walk(it.optional_vars)
                      if isinstance(x, ast.Name)}
    if not bound:
      return flags
    d = dict(flags)
    for pair in self.identity_pairs:
      hit = pair & bound
      if not hit:
        continue
      key = self._pair_key(pair)
      other = next(iter(pair - hit)) if len(hit) == 1 else None
      if other is not None and isinstance(value, ast.Name) and (
          value.id == other):
        d[key] = True
      elif other is not None and isinstance(value, ast.Call) and unparse(
          value.func) in ('copy.copy', 'copy.deepcopy'):
        d[key] = False   # a new object is none of the existing ones
      else:
        d.pop(key, None)
    return tuple(sorted(d.items()))

  # ---------------------------------------------------------------- states
  @staticmethod
  def join_envs(a, b):
    if a == b:
      return a
    da, db = dict(a), dict(b)
    out = {}
    for k in set(da) | set(db):
      if k in da and k in db:
        out[k] = join(da[k], db[k])
      else:
        out[k] = da.get(k) or db.get(k)
    return frozenset(out.items())

  def join_parts(self, a, b):
    if a == b:
      return a
    d = dict(a)
    for flags, env in b:
      d[flags] = self.join_envs(d[flags], env) if flags in d else env
    return frozenset(d.items())

  def transfer_parts(self, n, parts):
    out = {}
    stmt = self.g.stmt[n]
    for flags, env in parts:
      new_env = self.transfer(n, env)
      new_flags = flags
      if self.g.kind[n] == 'stmt' and isinstance(stmt, ast.Assign) and len(
          stmt.targets) == 1 and isinstance(stmt.targets[0], ast.Name) and (
              stmt.targets[0].id in self.flag_names) and isinstance(
                  stmt.value, ast.Constant):
        d = dict(flags)
        d[stmt.targets[0].id] = bool(stmt.value.value)
        new_flags = tuple(sorted(d.items()))
      if self.identity_pairs and self.g.kind[n] in ('stmt', 'for', 'with'):
        new_flags = self._identity_update(stmt, new_flags)
      out[new_flags] = self.join_envs(out[new_flags], new_env) if (
          new_flags in out) else new_env
    return frozenset(out.items())

  def refine_parts(self, n, label, parts):
    if self.g.kind[n] not in ('if', 'while') or label not in ('true', 'false'):
      return parts
    t = self.g.stmt[n].test
    want = label == 'true'
    if isinstance(t, ast.UnaryOp) and isinstance(t.op, ast.Not):
      t = t.operand
      want = not want
    if isinstance(t, ast.Name) and t.id in self.flag_names:
      kept = frozenset((fl, env) for fl, env in parts
                       if dict(fl).get(t.id, want) == want)
      return kept if kept else None
    if isinstance(t, ast.Compare) and len(t.ops) == 1 and isinstance(
        t.ops[0], (ast.Is, ast.IsNot)) and isinstance(
            t.left, ast.Name) and isinstance(t.comparators[0], ast.Name):
      pair = frozenset((t.left.id, t.comparators[0].id))
      if pair in self.identity_pairs:
        if isinstance(t.ops[0], ast.IsNot):
          want = not want
        key = self._pair_key(pair)
        out = {}
        for fl, env in parts:
          d = dict(fl)
          if d.get(key, want) != want:
            continue
          d[key] = want
          nf = tuple(sorted(d.items()))
          out[nf] = self.join_envs(out[nf], env) if nf in out else env
        return frozenset(out.items()) if out else None
    return parts

  def loc(self, node) -> str:
    return f'{self.f.module.relpath}:{getattr(node, "lineno", 0)}'

  def rebuilt(self, summ: Summary, src: AV) -> AV:
    """A node rebuilt by a traversal (map_children / value sent into a legacy

    coroutine / result of a traversal run) whose callback has summary `summ`:
    a new container whose children are the callback's results.  If the
    callback can return (part of) its input unchanged the children may alias
    the source, otherwise every container below is new as well (leaf objects
    are ignored: all mutable node types of the code base are traversable).
    """
    if summ is not None and not summ.ret.direct:
      return FRESH
    return AV(frozenset(), origins_of(src) | _marks(src))

  # ----------------------------------------------------------------- facts
  def sink(self, recv: AV, node, what: str):
    self.sink_count += 1
    hit = bool(recv.direct)
    if self.recording:
      self.sites[what] = self.sites.get(what, False) or hit
      for origin, lvl in recv.direct:
        k = (origin, lvl)
        fct = Fact(origin, lvl, (
            f'{self.f.qualname} @ {self.loc(node)}: {what}',))
        if k not in self.facts:
          self.facts[k] = fct
        self._add_fact(k, fct)

  def _add_fact(self, k, fct):
    have = self.all_facts.setdefault(k, [])
    if len(have) < MAX_FACTS and all(
        h.chain[-1] != fct.chain[-1] for h in have):
      have.append(fct)

  def access_path(self, e):
    """(root name, [keys]) for a.b[c].d -> ('a', ['b', '*', 'd'])."""
    keys = []
    while isinstance(e, (ast.Attribute, ast.Subscript)):
      if isinstance(e, ast.Attribute):
        if e.attr not in INTERNALS:
          keys.append(e.attr)
      else:
        if isinstance(e.value, ast.Attribute) and (
            e.value.attr in SELF_LEVEL_MAPS):
          pass
        elif isinstance(e.slice, ast.Constant) and isinstance(
            e.slice.value, int):
          keys.append(e.slice.value)
        else:
          keys.append('*')
      e = e.value
    if isinstance(e, ast.Name):
      return e.id, list(reversed(keys))
    return None, []

  def store_into(self, container_expr, key, value: AV, st: dict):
    """Weak update: object denoted by container_expr now holds `value`

    under `key` (attribute name, index or '*').
    """
    root, path = self.access_path(container_expr)
    if root is None or root not in st:
      return
    add = origins_of(value) | _marks(value)

    def upd(a: AV, keys) -> AV:
      contents = a.contents | add
      fields = a.fdict()
      if fields is None and any(l == 'self' for _, l in a.direct):
        fields = {}  # partial knowledge about a parameter object
      if not keys:
        if fields is not None:
          cur = fields.get(key)
          fields[key] = cap(join(cur, value) if cur is not None else value,
                            MAX_DEPTH - 1)
          if isinstance(key, int):
            fields['*'] = cap(join(fields.get('*', FRESH), value),
                              MAX_DEPTH - 1)
        return AV(a.direct, contents, fields)
      k0 = keys[0]
      if fields is not None and k0 in fields:
        fields[k0] = cap(upd(fields[k0], keys[1:]), MAX_DEPTH - 1)
      elif fields is not None and '*' in fields and not isinstance(k0, str):
        fields['*'] = cap(upd(fields['*'], keys[1:]), MAX_DEPTH - 1)
      return AV(a.direct, contents, fields)

    cur = st[root]
    st[root] = upd(cur, path)
    if add:
      for o, _ in cur.direct:
        self.flows[o] = self.flows.get(o, frozenset()) | origins_of(value)
    if self.recording and root == self.self_name and not path and isinstance(
        key, str) and key != '*':
      self.self_fields[key] = join(self.self_fields.get(key, FRESH), value)

  # ------------------------------------------------------------ expressions
  def ev(self, e, st: dict) -> AV:
    if e is None:
      return FRESH
    if isinstance(e, ast.Name):
      if e.id in st:
        return st[e.id]
      if e.id in self.locals:
        return FRESH
      s = self.f.parent
      while s is not None and not isinstance(s, Module):
        if isinstance(s, FuncInfo) and e.id in s.local_names():
          return AV([(e.id, 'self')], [e.id])
        s = s.parent
      return FRESH
    if isinstance(e, ast.Attribute):
      base = self.ev(e.value, st)
      if e.attr in SELF_LEVEL_MAPS:
        # the per-argument tag / history map: part of the Buildable itself;
        # its per-key containers are as fresh as the Buildable is
        return AV(base.direct,
                  frozenset(('@self', o, l) for o, l in base.direct))
      if e.attr in INTERNALS:
        return base
      return read(base, e.attr)
    if isinstance(e, ast.Subscript):
      if isinstance(e.value, ast.Attribute) and e.value.attr in SELF_LEVEL_MAPS:
        return self.ev(e.value.value, st)
      self.ev(e.slice, st)
      base = self.ev(e.value, st)
      if isinstance(e.slice, ast.Slice):
        return shallow_container(base)
      if isinstance(e.slice, ast.Constant) and isinstance(e.slice.value, int):
        return read(base, e.slice.value)
      return elem(base)
    if isinstance(e, ast.Call):
      return self.ev_call(e, st)
    if isinstance(e, (ast.Tuple, ast.List, ast.Set)):
      els = []
      for x in e.elts:
        if isinstance(x, ast.Starred):
          els.append(elem(self.ev(x.value, st)))
        else:
          els.append(self.ev(x, st))
      return container(els, indexed=isinstance(e, ast.Tuple) and not any(
          isinstance(x, ast.Starred) for x in e.elts))
    if isinstance(e, ast.Dict):
      vals = []
      for k, v in zip(e.keys, e.values):
        if k is None:
          vals.append(elem(self.ev(v, st)))
        else:
          self.ev(k, st)
          vals.append(self.ev(v, st))
      return container(vals)
    if isinstance(e, (ast.ListComp, ast.SetComp, ast.GeneratorExp,
                      ast.DictComp)):
      cur = dict(st)
      for gen in e.generators:
        it = self.ev(gen.iter, cur)
        self.bind(gen.target, elem(it), cur)
        for c in gen.ifs:
          self.ev(c, cur)
      if isinstance(e, ast.DictComp):
        self.ev(e.key, cur)
        return container([self.ev(e.value, cur)])
      return container([self.ev(e.elt, cur)])
    if isinstance(e, ast.IfExp):
      self.ev(e.test, st)
      return join(self.ev(e.body, st), self.ev(e.orelse, st))
    if isinstance(e, ast.BoolOp):
      return joins(self.ev(v, st) for v in e.values)
    if isinstance(e, ast.BinOp):
      l, r = self.ev(e.left, st), self.ev(e.right, st)
      if isinstance(e.op, (ast.Add, ast.BitOr, ast.BitAnd, ast.Sub)) and (
          origins_of(l) or origins_of(r)):
        return container([elem(l), elem(r)])
      return FRESH
    if isinstance(e, ast.Starred):
      return self.ev(e.value, st)
    if isinstance(e, ast.NamedExpr):
      v = self.ev(e.value, st)
      self.bind(e.target, v, st)
      return v
    if isinstance(e, (ast.Yield, ast.YieldFrom)):
      if e.value is not None:
        v = self.ev(e.value, st)
        if isinstance(e, ast.YieldFrom):
          if self.recording:
            self.ret = join(self.ret, container([elem(v)]))
          return elem(v)
        if self.recording:
          self.ret = join(self.ret, container([v]))
      out = FRESH
      for name in self.f.params:
        if name in st:
          out = join(out, self.rebuilt(self.summ, st[name]))
      return out
    if isinstance(e, ast.Await):
      return self.ev(e.value, st)
    if isinstance(e, (ast.Compare, ast.UnaryOp)):
      for c in ast.iter_child_nodes(e):
        if isinstance(c, ast.expr):
          self.ev(c, st)
      return FRESH
    if isinstance(e, ast.JoinedStr):
      for v in e.values:
        if isinstance(v, ast.FormattedValue):
          self.ev(v.value, st)
      return FRESH
    return FRESH

  def bind(self, target, value: AV, st: dict):
    if isinstance(target, ast.Name):
      st[target.id] = cap(value)
    elif isinstance(target, (ast.Tuple, ast.List)):
      star = any(isinstance(x, ast.Starred) for x in target.elts)
      for i, el in enumerate(target.elts):
        if isinstance(el, ast.Starred):
          self.bind(el.value, shallow_container(value), st)
        else:
          self.bind(el, read(value, '*' if star else i), st)
    elif isinstance(target, ast.Starred):
      self.bind(target.value, value, st)
    elif isinstance(target, (ast.Attribute, ast.Subscript)):
      recv = self.ev(target.value, st)
      self.sink(recv, target, f'store `{unparse(target)[:60]} = ...`')
      if isinstance(target, ast.Attribute):
        if target.attr in INTERNALS:
          self.store_into(target.value, '*', value, st)
        else:
          self.store_into(target.value, target.attr, value, st)
      else:
        k = '*'
        if isinstance(target.slice, ast.Constant) and isinstance(
            target.slice.value, int):
          k = target.slice.value
        self.store_into(target.value, k, value, st)

  # ------------------------------------------------------------------ calls
  def args_of(self, call, st):
    pos, kw = [], {}
    star, dstar = FRESH, FRESH
    has_star = has_dstar = False
    for a in call.args:
      if isinstance(a, ast.Starred):
        star = join(star, elem(self.ev(a.value, st)))
        has_star = True
      else:
        pos.append(self.ev(a, st))
    for k in call.keywords:
      v = self.ev(k.value, st)
      if k.arg is None:
        dstar = join(dstar, elem(v))
        has_dstar = True
      else:
        kw[k.arg] = v
    return pos, kw, (star if has_star else None), (dstar if has_dstar
                                                    else None)

  def ev_call(self, call: ast.Call, st: dict) -> AV:
    p = self.p
    fn = call.func
    q = p.resolve(fn, self.f)
    pos, kw, star, dstar = self.args_of(call, st)
    allargs = pos + list(kw.values()) + [x for x in (star, dstar)
                                         if x is not None]
    # ---- builtins with effects
    if isinstance(fn, ast.Name) and fn.id in ('setattr', 'delattr') and pos:
      self.sink(pos[0], call, f'{fn.id}({unparse(call.args[0])[:40]}, ...)')
      if fn.id == 'setattr' and len(pos) >= 3:
        self.store_into(call.args[0], '*', pos[2], st)
      return FRESH
    if isinstance(fn, ast.Name) and fn.id == 'getattr' and pos:
      out = read(pos[0], '*')
      if len(pos) >= 3:
        out = join(out, pos[2])
      return out
    if isinstance(fn, ast.Attribute) and fn.attr in ('__setattr__',
                                                     '__delattr__'):
      if isinstance(fn.value, ast.Call) and isinstance(
          fn.value.func, ast.Name) and fn.value.func.id == 'super':
        if self.f.params:
          recv = st.get(self.f.params[0], FRESH)
          self.sink(recv, call, f'super().{fn.attr}(...)')
          if len(pos) >= 2 and isinstance(call.args[0], ast.Constant):
            key = call.args[0].value
            self.store_into(ast.Name(id=self.f.params[0], ctx=ast.Load()),
                            '*' if key in INTERNALS else key, pos[1], st)
      elif pos:
        self.sink(pos[0], call,
                  f'{unparse(fn)}({unparse(call.args[0])[:40]}, ...)')
        if len(pos) >= 3:
          key = call.args[1].value if isinstance(
              call.args[1], ast.Constant) and isinstance(
                  call.args[1].value, str) else '*'
          if key in INTERNALS:
            key = '*'
          self.store_into(call.args[0], key, pos[2], st)
      return FRESH
    if q == 'copy.copy' and pos:
      return shallow(pos[0])
    if q == 'copy.deepcopy' and pos:
      return FRESH
    if q == 'collections.defaultdict':
      inner = FRESH
      if call.args and isinstance(call.args[0], ast.Name) and call.args[
          0].id in ('list', 'set', 'dict'):
        inner = EMPTY_CONTAINER
      if len(pos) > 1:
        inner = join(inner, elem(pos[1]))
      return AV(frozenset(), origins_of(inner) | _marks(inner), {'*': inner})
    if isinstance(fn, ast.Name) and q and q.startswith('builtins.'):
      if fn.id in PURE_BUILTINS:
        return FRESH
      if fn.id in SHALLOW_BUILTINS:
        if not allargs:
          return EMPTY_CONTAINER
        return shallow_container(joins(allargs))
      if fn.id in ('zip', 'enumerate', 'map', 'filter'):
        els = [elem(a) for a in allargs]
        return container([container(els)])
      if fn.id in ELEMENT_BUILTINS:
        return joins(elem(a) for a in allargs)
    # ---- traversal API
    if q in TRAVERSAL_RUNNERS:
      return self.traversal_call(call, q, st, pos, kw)
    if isinstance(fn, ast.Attribute) and fn.attr in STATE_METHODS and (
        self._is_state(fn.value)):
      if fn.attr == 'map_children' and pos:
        return self.rebuilt(self.summ, pos[0])
      if fn.attr == 'flattened_map_children' and pos:
        src = pos[0]
        r = self.rebuilt(self.summ, src)
        return AV(frozenset(), r.contents, {
            'values': AV(frozenset(), r.contents, {'*': r}),
            'metadata': holding(src),
            'path_elements': FRESH,
            'node_traverser': FRESH,
        })
      if fn.attr == 'unflatten':
        recv = self.ev(fn.value, st)
        return self.rebuilt(self.summ, recv)
      return FRESH
    if q == 'fiddle._src.daglish.iterate' and pos:
      node = join(pos[0], deep(pos[0]))
      return container([container([node, FRESH], indexed=True)])
    if q in ('fiddle._src.daglish.collect_paths_by_id',
             'fiddle._src.experimental.daglish_legacy.collect_paths_by_id'):
      return AV(fields={'*': EMPTY_CONTAINER})
    if q == 'fiddle._src.experimental.daglish_legacy.collect_value_by_id' and pos:
      return container([join(pos[0], deep(pos[0]))])
    if q == 'fiddle._src.daglish.follow_path' and pos:
      return join(pos[0], deep(pos[0]))
    # ---- repo callees
    callees, exact = self.ctx.cg.resolve_call(call, self.f)
    recv_av = self.ev(fn.value, st) if isinstance(fn, ast.Attribute) else None
    if q in p.classes:
      return self.apply_constructor(call, q, pos, kw, star, dstar, st)
    targets = [c for c in callees if c in p.funcs] if exact else []
    if q in p.funcs and q not in targets:
      targets = [q] + targets
    if targets:
      out = FRESH
      unbound = isinstance(fn, ast.Attribute) and p.resolve(
          fn.value, self.f) in p.classes
      for tq in targets:
        tf = p.funcs[tq]
        bound = self.bind_args(tf, pos, kw, star, dstar, recv_av,
                               is_method_call=isinstance(fn, ast.Attribute)
                               and not unbound)
        out = join(out, self.apply_summary(tf, bound, call, st))
      return out
    # ---- container methods on unknown receivers
    if isinstance(fn, ast.Attribute):
      if fn.attr in ('items', 'values', 'get', 'setdefault') and isinstance(
          fn.value, ast.Attribute) and fn.value.attr in SELF_LEVEL_MAPS:
        owner = self.ev(fn.value.value, st)
        v = selfmap_view(owner)
        if fn.attr in ('items', 'values'):
          return v
        return read(v, '*')
      if fn.attr in MUTATORS:
        self.sink(recv_av, call, f'`{unparse(fn)[:50]}(...)`')
        stored = allargs
        if fn.attr in ('setdefault', 'insert'):
          stored = pos[1:]
        elif fn.attr in ('pop', 'remove', 'discard', 'clear', 'popitem',
                         'sort', 'reverse', 'difference_update',
                         'intersection_update', 'move_to_end'):
          stored = []
        if stored:
          val = joins(stored)
          if fn.attr in ('extend', 'update'):
            val = elem(val)
          self.store_into(fn.value, '*', val, st)
        if fn.attr in ('pop', 'setdefault', 'popitem'):
          out = elem(recv_av)
          if fn.attr == 'setdefault' and len(pos) > 1:
            out = join(out, pos[1])
          return out
        return FRESH
      if fn.attr in ('copy', '__copy__'):
        return shallow(recv_av)
      if fn.attr == '__deepcopy__':
        return FRESH
      if fn.attr == 'values':
        return shallow_container(recv_av)
      if fn.attr == 'keys':
        return EMPTY_CONTAINER
      if fn.attr == 'items':
        return container([container([FRESH, elem(recv_av)], indexed=True)])
      if fn.attr == 'get':
        return joins([elem(recv_av)] + pos[1:])
      if fn.attr == '_replace':
        return shallow(recv_av)
      if fn.attr in ('bind', 'bind_partial'):
        # inspect.Signature.bind*: a new BoundArguments with a new dict
        held = container(allargs)
        return AV(frozenset(), held.contents,
                  {'arguments': held, 'args': held, 'kwargs': held})
      if fn.attr == 'follow' and len(pos) == 1:
        # PathElement.follow(container): a child of the container
        return deep(pos[0])
      if not exact and callees:
        self.own.unapplied_calls.add(f'{self.f.qualname}: {unparse(fn)[:50]}')
      return join(deep(recv_av), holding(*allargs))
    return holding(*allargs)

  def _is_state(self, e) -> bool:
    if isinstance(e, ast.Name):
      if e.id in ('state', 'parent_state', 'new_state', 'subtraversal',
                  'sub_traversal'):
        return True
      ann = self.f.param_annotation(e.id) if e.id in self.f.params else None
      return ann is not None and unparse(ann).endswith('State')
    return False

  def bind_args(self, tf: FuncInfo, pos, kw, star, dstar, recv_av,
                is_method_call) -> Dict[int, AV]:
    params = tf.params
    bound: Dict[int, AV] = {}
    offset = 0
    decos = {getattr(d, 'id', getattr(d, 'attr', None)) for d in tf.decorators}
    if tf.cls is not None and not tf.is_lambda and 'staticmethod' not in decos:
      if 'classmethod' in decos:
        bound[0] = FRESH
        offset = 1
      elif is_method_call:
        bound[0] = recv_av if recv_av is not None else FRESH
        offset = 1
    a = tf.node.args
    n_positional = len(a.posonlyargs) + len(a.args)
    surplus = []
    for i, v in enumerate(pos):
      idx = i + offset
      if idx < n_positional:
        bound[idx] = join(bound.get(idx, FRESH), v)
      else:
        surplus.append(v)
    if a.vararg is not None:
      idx = params.index(a.vararg.arg)
      els = surplus + ([star] if star is not None else [])
      bound[idx] = container(els) if els else EMPTY_CONTAINER
    kwextra = []
    for name, v in kw.items():
      if name in params and (a.kwarg is None or name != a.kwarg.arg) and (
          a.vararg is None or name != a.vararg.arg):
        idx = params.index(name)
        bound[idx] = join(bound.get(idx, FRESH), v)
      else:
        kwextra.append(v)
    if a.kwarg is not None:
      idx = params.index(a.kwarg.arg)
      els = kwextra + ([dstar] if dstar is not None else [])
      bound[idx] = container(els) if els else EMPTY_CONTAINER
    for extra in (star, dstar):
      if extra is not None:
        for idx in range(offset, len(params)):
          if idx not in bound:
            bound[idx] = extra
    return bound

  def origin_value(self, origin, bound: Dict[int, AV], st: dict) -> AV:
    if isinstance(origin, int):
      return bound.get(origin, FRESH)
    if origin in st:
      return st[origin]
    if origin in self.locals:
      return self.summ.env_join.get(origin, FRESH)
    return AV([(origin, 'self')], [origin])

  def level_of(self, a: AV, lvl) -> AV:
    if lvl == 'self':
      return a
    if isinstance(lvl, tuple) and lvl[0] == 'f':
      return read(a, lvl[1])
    return deep(a)

  def translate(self, v: AV, bound, st, depth=0) -> AV:
    parts = []
    for origin, lvl in v.direct:
      parts.append(self.level_of(self.origin_value(origin, bound, st), lvl))
    contents = set()
    for c in v.contents:
      if _is_selfmark(c):
        a = self.origin_value(c[1], bound, st)
        for o, l in self.level_of(a, c[2]).direct:
          contents.add(('@self', o, l))
          contents.add(o)
      else:
        a = self.origin_value(c, bound, st)
        contents |= origins_of(a) | _marks(a)
    fields = None
    if v.fields is not None and depth < MAX_DEPTH:
      fields = {k: self.translate(fv, bound, st, depth + 1)
                for k, fv in v.fields}
    base = AV(frozenset(), contents, fields)
    if not parts:
      return cap(base)
    if fields is None and not contents:
      return cap(joins(parts))
    return cap(joins([base] + parts))

  def apply_summary(self, tf: FuncInfo, bound: Dict[int, AV], call,
                    st: dict) -> AV:
    s = self.own.summaries.get(tf.qualname)
    if s is None:
      return holding(*bound.values())
    for (origin, lvl), fct in s.mut.items():
      a = self.origin_value(origin, bound, st)
      hit = self.level_of(a, lvl).direct
      self.sink_count += 1
      if self.recording:
        here = (f'{self.f.qualname} @ {self.loc(call)}: call '
                f'`{unparse(call.func)[:50]}(...)`',)
        for o, l in hit:
          k = (o, l)
          if k not in self.facts:
            self.facts[k] = Fact(o, l, here + fct.chain)
          for other in s.all.get((origin, lvl), [fct]):
            self._add_fact(k, Fact(o, l, here + other.chain))
    for dst, srcs in s.flows.items():
      if isinstance(dst, int):
        add = frozenset()
        for so in srcs:
          add |= origins_of(self.origin_value(so, bound, st))
        expr = self._arg_expr(tf, call, dst)
        if expr is not None and add:
          self.store_into(expr, '*', AV(frozenset(), add), st)
    return self.translate(s.ret, bound, st)

  def _arg_expr(self, tf: FuncInfo, call: ast.Call, idx: int):
    decos = {getattr(d, 'id', getattr(d, 'attr', None)) for d in tf.decorators}
    offset = 0
    if tf.cls is not None and 'staticmethod' not in decos and isinstance(
        call.func, ast.Attribute) and self.p.resolve(
            call.func.value, self.f) not in self.p.classes:
      offset = 1
      if idx == 0:
        return call.func.value
    i = idx - offset
    if 0 <= i < len(call.args) and not any(
        isinstance(a, ast.Starred) for a in call.args[:i + 1]):
      return call.args[i]
    if idx < len(tf.params):
      for k in call.keywords:
        if k.arg == tf.params[idx]:
          return k.value
    return None

  def dataclass_fields(self, cq: str):
    p = self.p
    out = []
    is_dc = False
    for q in reversed(p.mro(cq)):
      ci = p.classes.get(q)
      if ci is None:
        continue
      if any('dataclass' in unparse(d) for d in ci.node.decorator_list):
        is_dc = True
      for name in ci.annotations:
        if name not in [n for n, _ in out]:
          out.append((name, ci.class_assigns.get(name)))
    return out if is_dc else None

  def apply_constructor(self, call, cq, pos, kw, star, dstar, st) -> AV:
    p = self.p
    allargs = pos + list(kw.values()) + [x for x in (star, dstar)
                                         if x is not None]
    obj_contents = frozenset()
    for a in allargs:
      obj_contents |= origins_of(a) | _marks(a)
    fields: Dict[str, AV] = {}
    init = p.find_method(cq, '__init__')
    if init is None:
      dcf = self.dataclass_fields(cq)
      if dcf is not None:
        for i, (name, default) in enumerate(dcf):
          if i < len(pos):
            fields[name] = pos[i]
          elif name in kw:
            fields[name] = kw[name]
          elif star is not None or dstar is not None:
            fields[name] = joins([x for x in (star, dstar) if x is not None])
          elif default is not None and 'default_factory' in unparse(default):
            fields[name] = EMPTY_CONTAINER
          else:
            fields[name] = FRESH
    for name in ('__init__', '__post_init__'):
      m = p.find_method(cq, name)
      if m is None:
        continue
      first = name == '__init__'
      obj = AV(frozenset(), obj_contents, fields)
      bound = self.bind_args(m, pos if first else [], kw if first else {},
                             star if first else None,
                             dstar if first else None, obj, True)
      s = self.own.summaries.get(m.qualname)
      if s is not None:
        for fname, fav in s.self_fields.items():
          v = self.translate(fav, bound, st)
          fields[fname] = join(fields[fname], v) if fname in fields else v
        bound[0] = AV(frozenset(), obj_contents, fields)
      self.apply_summary(m, bound, call, st)
    return cap(AV(frozenset(), obj_contents, fields))

  def traversal_call(self, call, q, st, pos, kw) -> AV:
    fi, ri = TRAVERSAL_RUNNERS[q]
    fn_expr = call.args[fi] if len(call.args) > fi else None
    for k in call.keywords:
      if k.arg in ('fn', 'traversal_fn'):
        fn_expr = k.value
    root = pos[ri] if len(pos) > ri else None
    for name in ('root_obj', 'structure', 'value'):
      if name in kw and root is None:
        root = kw[name]
    if root is None:
      root = FRESH
    node_av = join(root, deep(root))
    ret = FRESH
    tf = None
    if fn_expr is not None:
      tq = self.p.resolve(fn_expr, self.f)
      tf = self.p.funcs.get(tq)
    if tf is not None:
      params = tf.params
      bound: Dict[int, AV] = {}
      if q in LEGACY_RUNNERS:
        idx = 2 if q.endswith('traverse_with_all_paths') else 1
        if len(params) > idx:
          bound[idx] = node_av
      elif params:
        bound[0] = node_av
      ret = self.apply_summary(tf, bound, call, st)
    if q.endswith('.run') or q in LEGACY_RUNNERS:
      summ = self.own.summaries.get(tf.qualname) if tf is not None else None
      return join(ret, self.rebuilt(summ, root))
    return FRESH

  # --------------------------------------------------------------- transfer
  def transfer(self, n: int, state):
    g = self.g
    stmt = g.stmt[n]
    kind = g.kind[n]
    if stmt is None or kind in ('with_exit', 'dispatch'):
      return state
    st = dict(state)
    if kind in ('if', 'while', 'assert'):
      self.ev(stmt.test, st)
      return frozenset(st.items())
    if kind == 'for':
      it = self.ev(stmt.iter, st)
      self.bind(stmt.target, elem(it), st)
      return frozenset(st.items())
    if kind == 'with':
      for item in stmt.items:
        v = self.ev(item.context_expr, st)
        if item.optional_vars is not None:
          self.bind(item.optional_vars, v, st)
      return frozenset(st.items())
    if kind == 'handler':
      if stmt.name:
        st[stmt.name] = FRESH
      return frozenset(st.items())
    if kind == 'match':
      self.ev(stmt.subject, st)
      return frozenset(st.items())
    if isinstance(stmt, ast.Assign):
      v = self.ev(stmt.value, st)
      for t in stmt.targets:
        self.bind(t, v, st)
    elif isinstance(stmt, ast.AnnAssign):
      if stmt.value is not None:
        self.bind(stmt.target, self.ev(stmt.value, st), st)
    elif isinstance(stmt, ast.AugAssign):
      v = self.ev(stmt.value, st)
      if isinstance(stmt.target, ast.Name):
        cur = st.get(stmt.target.id, FRESH)
        containerish = isinstance(stmt.value, (
            ast.List, ast.Set, ast.Dict, ast.ListComp, ast.SetComp,
            ast.DictComp)) or bool(origins_of(v)) or (
                isinstance(stmt.value, ast.Call) and isinstance(
                    stmt.value.func, ast.Name) and
                stmt.value.func.id in ('list', 'set', 'dict'))
        if containerish:
          self.sink(cur, stmt, f'`{unparse(stmt)[:60]}`')
          self.store_into(stmt.target, '*', elem(v), st)
      else:
        recv = self.ev(stmt.target.value, st)
        self.sink(recv, stmt, f'`{unparse(stmt)[:60]}`')
        self.store_into(stmt.target.value, '*', v, st)
    elif isinstance(stmt, ast.Delete):
      for t in stmt.targets:
        if isinstance(t, (ast.Attribute, ast.Subscript)):
          recv = self.ev(t.value, st)
          self.sink(recv, stmt, f'`del {unparse(t)[:60]}`')
        elif isinstance(t, ast.Name):
          st.pop(t.id, None)
    elif isinstance(stmt, ast.Return):
      if stmt.value is not None:
        v = self.ev(stmt.value, st)
        if self.recording:
          self.ret = join(self.ret, v)
    elif isinstance(stmt, ast.Expr):
      self.ev(stmt.value, st)
    elif isinstance(stmt, ast.Raise):
      if stmt.exc is not None:
        self.ev(stmt.exc, st)
    elif isinstance(stmt, (ast.FunctionDef, ast.AsyncFunctionDef)):
      st[stmt.name] = FRESH
    return frozenset(st.items())
