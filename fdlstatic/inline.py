"""Transparent helpers: private functions the rules do not know by name are
expanded at their call sites before a function is analysed.

Extracting a few statements into a well-named private helper (or the reverse)
does not change behaviour; a rule that reads the shape of one function must see
the same thing either way.  For every call `h(...)` whose callee resolves to a
module-level function of the analysed tree that

  * no rule module mentions by name (so no rule is anchored in it),
  * has no decorators, no *args / **kwargs, no nested definitions, no yield,
    and does not call itself,

the call is replaced by the helper's body:

  * an expression helper (`return <expr>` only) is substituted into the calling
    expression, wherever it occurs;
  * a statement helper is spliced in when the call is a whole statement
    (`h(...)`, `x = h(...)`, `return h(...)`), with its parameters bound to
    fresh locals, its locals renamed apart, guard clauses turned into else
    branches and every (tail) `return e` turned into `x = e` / `return e`.

The helper itself stays in the model unchanged.  Expansion is done in place on
the caller's AST (line numbers of the call site), at most two levels deep.
"""
from __future__ import annotations

import ast
import copy
import glob
import os
import re
from typing import Dict, List, Optional, Set

unparse = ast.unparse

_KNOWN: Optional[Set[str]] = None


_ANCHORS = None      # bare last component -> dotted strings that end with it
_PROJECT_QUALS: Set[str] = set()


def _scan_rule_strings():
  global _KNOWN, _ANCHORS
  here = os.path.dirname(os.path.abspath(__file__))
  plain: Set[str] = set()
  anchors: Dict[str, List[str]] = {}
  for p in glob.glob(os.path.join(here, 'rules', '*.py')) + [
      os.path.join(here, 'own.py'), os.path.join(here, 'callgraph.py'),
      os.path.join(here, 'model.py')]:
    with open(p) as f:
      tree = ast.parse(f.read())
    for n in ast.walk(tree):
      if isinstance(n, ast.Constant) and isinstance(n.value, str):
        v = n.value
        if not v or any(ch.isspace() for ch in v):
          continue
        toks = re.findall(r'[A-Za-z_][A-Za-z0-9_]*', v)
        if not toks:
          continue
        if '.' in v and re.fullmatch(r'\.?[A-Za-z_][A-Za-z0-9_.]*', v) and len(
            toks) >= 2:
          # a (partial) qualified name: its last component names one function,
          # the components before it name modules / classes
          plain.update(toks[:-1])
          anchors.setdefault(toks[-1].lstrip('_'), []).append(v)
        else:
          plain.update(toks)
  _KNOWN, _ANCHORS = plain, anchors


def known_names() -> Set[str]:
  """Identifiers the rule modules name code by: the words of their string
  constants that are written like code (no blanks), not the prose of their
  messages.  The last component of a dotted name is kept apart (anchored())."""
  if _KNOWN is None:
    _scan_rule_strings()
  return _KNOWN


def anchored(h) -> bool:
  """`h` is (or may be) the function some rule names by a dotted string: it is
  that very function, or the named one is not where the string says (moved /
  renamed: any function of that bare name may be it)."""
  if _ANCHORS is None:
    _scan_rule_strings()
  for full in _ANCHORS.get(h.name.lstrip('_'), ()):
    if h.qualname == full or h.qualname.endswith(full if full.startswith(
        '.') else '.' + full):
      return True
    there = any(q == full or q.endswith(full if full.startswith('.') else
                                        '.' + full) for q in _PROJECT_QUALS)
    if not there:
      return True
  return False


_BASELINE = None


def baseline_api() -> Set[str]:
  """Qualified names of the public functions of the reference tree
  (tools/gen_baseline_api.py)."""
  global _BASELINE
  if _BASELINE is None:
    here = os.path.dirname(os.path.abspath(__file__))
    with open(os.path.join(here, 'baseline_api.txt')) as f:
      _BASELINE = {ln.strip() for ln in f if ln.strip()}
  return _BASELINE


def _new_public_function(h) -> bool:
  """A function without a leading underscore that the reference tree does not
  have (under that name, in that module): introduced by the change under
  analysis, read as a helper of its callers."""
  return h.qualname not in baseline_api()


_KNOWN_BARE = None


def known_bare_names() -> Set[str]:
  global _KNOWN_BARE
  if _KNOWN_BARE is None:
    _KNOWN_BARE = {k.lstrip('_') for k in known_names()}
  return _KNOWN_BARE


def _module_is_helper_only(h) -> bool:
  """The function lives in a module no rule knows anything about (neither the
  module's name nor any of its functions): a helper module split off from the
  code under analysis.  Its public-looking functions are treated like private
  helpers of their callers."""
  kn = known_names()
  m = h.module
  if m.name.rsplit('.', 1)[-1] in kn:
    return False
  return not any(f.name in kn and not f.name.startswith('__')
                 for f in m.all_funcs if not f.is_lambda)


def _own_nodes(fn):
  """Nodes of fn's body, not descending into nested defs / lambdas."""
  stack = list(fn.body)
  while stack:
    n = stack.pop()
    yield n
    for c in ast.iter_child_nodes(n):
      if isinstance(c, (ast.FunctionDef, ast.AsyncFunctionDef, ast.Lambda,
                        ast.ClassDef)):
        continue
      stack.append(c)


def _strip_doc(body):
  if body and isinstance(body[0], ast.Expr) and isinstance(
      body[0].value, ast.Constant) and isinstance(body[0].value.value, str):
    return body[1:]
  return body


def _terminates(body) -> bool:
  if not body:
    return False
  last = body[-1]
  if isinstance(last, (ast.Return, ast.Raise)):
    return True
  if isinstance(last, ast.If) and last.orelse:
    return _terminates(last.body) and _terminates(last.orelse)
  if isinstance(last, ast.Try):
    if _terminates(last.finalbody):
      return True
    return (_terminates(last.orelse) if last.orelse else _terminates(
        last.body)) and all(_terminates(h_.body) for h_ in last.handlers)
  return False


def _else_introduce(stmts):
  """`if c: ...return`, rest  ->  `if c: ...return else: rest` (recursively)."""
  out = []
  for i, st in enumerate(stmts):
    if isinstance(st, ast.If):
      st.body = _else_introduce(st.body)
      st.orelse = _else_introduce(st.orelse)
      rest = stmts[i + 1:]
      if rest and not st.orelse and _terminates(st.body):
        st.orelse = _else_introduce(rest)
        out.append(st)
        return out
    out.append(st)
  return out


def _has_return(st) -> bool:
  return any(isinstance(x, ast.Return) for x in ast.walk(st))


def _tailify(stmts, budget=None):
  """Rewrites a block so that every `return` is in tail position: the
  statements that follow an `if` containing a return are moved into each of
  its arms that can fall through (copied when both can).  Returns inside
  loops / try / with are left alone (the caller then gives up)."""
  budget = budget if budget is not None else [40]
  out = []
  for i, st in enumerate(stmts):
    if isinstance(st, ast.If) and _has_return(st):
      rest = stmts[i + 1:]
      budget[0] -= 1
      if budget[0] < 0:
        return stmts
      body, orelse = list(st.body), list(st.orelse)
      if not _terminates(body):
        body = body + copy.deepcopy(rest)
      if not _terminates(orelse):
        orelse = orelse + (copy.deepcopy(rest) if not _terminates(
            st.body) else rest)
      st.body = _tailify(body, budget)
      st.orelse = _tailify(orelse, budget)
      out.append(st)
      return out
    out.append(st)
  return out


def _returns_in_tail(stmts) -> bool:
  """Every Return sits at the end of a block in tail position."""
  for i, st in enumerate(stmts):
    last = i == len(stmts) - 1
    if isinstance(st, ast.Return):
      if not last:
        return False
    elif isinstance(st, ast.If):
      if last:
        if not (_returns_in_tail(st.body) and _returns_in_tail(st.orelse)):
          return False
      elif any(isinstance(x, ast.Return) for b in (st.body, st.orelse)
               for s_ in b for x in ast.walk(s_)):
        return False
    elif isinstance(st, ast.Try) and last and not any(
        isinstance(x, ast.Return) for b_ in st.finalbody
        for x in ast.walk(b_)):
      # try: ... return a / except E: return b  as the last statement
      if not (_returns_in_tail(st.body) and _returns_in_tail(st.orelse) and
              all(_returns_in_tail(h_.body) for h_ in st.handlers)):
        return False
      if st.orelse and any(isinstance(x, ast.Return) for b_ in st.body
                           for x in ast.walk(b_)):
        return False
    elif any(isinstance(x, ast.Return) for x in ast.walk(st)):
      return False  # a return inside a loop / with: not handled
  return True


def eligible(h, generator: bool = False, nested_ok: bool = False,
             other_module: bool = False) -> bool:
  n = h.node
  if h.is_lambda or not isinstance(n, ast.FunctionDef):
    return False
  if h.cls is None and '.' in h.qualname[len(h.module.name) + 1:] and (
      not nested_ok):
    return False  # nested functions are expanded only inside their parent
  if h.cls is not None and not (n.args.args and n.args.args[0].arg == 'self'):
    return False
  if n.decorator_list or n.args.kwarg:
    return False
  if n.args.vararg:
    # *args is fine where it is only handed on (`g(x, *args)`, `(*args,)`)
    va = n.args.vararg.arg
    starred = {id(x.value) for x in ast.walk(n) if isinstance(x, ast.Starred)}
    if any(isinstance(x, ast.Name) and x.id == va and id(x) not in starred
           for x in ast.walk(n)):
      return False
  if h.name in known_names() or h.name.lstrip('_') in known_bare_names() or (
      anchored(h)):
    return False  # an anchor, possibly (un)privatised
  if not h.name.startswith('_') and not nested_ok and not (
      other_module and _module_is_helper_only(h)) and not (
          _new_public_function(h)):
    return False
  for x in _own_nodes(n):
    if isinstance(x, (ast.Await, ast.Global, ast.Nonlocal)):
      return False
    if isinstance(x, (ast.Yield, ast.YieldFrom)) and not generator:
      return False
    if isinstance(x, (ast.Try, ast.With, ast.AsyncWith)) and generator:
      return False  # a suspended generator keeps its handlers active
    if isinstance(x, ast.Call) and isinstance(x.func, ast.Name) and (
        x.func.id == h.name):
      return False
    if isinstance(x, ast.Call) and isinstance(x.func, ast.Attribute) and (
        x.func.attr == h.name):
      return False
  for x in ast.walk(n):
    if x is not n and isinstance(x, (ast.FunctionDef, ast.AsyncFunctionDef,
                                     ast.ClassDef)):
      return False
    if isinstance(x, ast.Lambda) and any(
        isinstance(y, (ast.Lambda, ast.Call)) and y is not x and isinstance(
            y, ast.Lambda) for y in ast.walk(x)):
      return False  # a key / predicate lambda is fine, nested ones are not
  return True


def is_record_class(ci) -> bool:
  """A NamedTuple or dataclass: its instances are the values they were made
  from, under field names."""
  n = ci.node
  if any(unparse(b).split('.')[-1] == 'NamedTuple' for b in n.bases):
    return True
  return any(unparse(d.func if isinstance(d, ast.Call) else d).split('.')[-1]
             == 'dataclass' for d in n.decorator_list)


def eligible_method(h, generator: bool = False) -> bool:
  """Like eligible(), for a method called on a record held in a local."""
  n = h.node
  if h.is_lambda or not isinstance(n, ast.FunctionDef) or h.cls is None:
    return False
  if not (n.args.args and n.args.args[0].arg == 'self'):
    return False
  if n.args.vararg or n.args.kwarg:
    return False
  for x in _own_nodes(n):
    if isinstance(x, (ast.Await, ast.Global, ast.Nonlocal)):
      return False
    if isinstance(x, (ast.Yield, ast.YieldFrom)) and not generator:
      return False
    if isinstance(x, ast.Call) and isinstance(x.func, ast.Attribute) and (
        x.func.attr == h.name):
      return False
    if isinstance(x, ast.Name) and x.id == 'self' and isinstance(
        x.ctx, ast.Store):
      return False
  for x in ast.walk(n):
    if x is not n and isinstance(x, (ast.FunctionDef, ast.AsyncFunctionDef,
                                     ast.ClassDef, ast.Lambda)):
      return False
  return True


def _bind(h, call) -> Optional[Dict[str, ast.expr]]:
  a = h.node.args
  params = [x.arg for x in a.posonlyargs + a.args]
  kwonly = [x.arg for x in a.kwonlyargs]
  out: Dict[str, ast.expr] = {}
  if h.cls is not None:
    params = params[1:]  # self stays self
  if any(isinstance(x, ast.Starred) for x in call.args) or any(
      k.arg is None for k in call.keywords):
    return None
  if any(isinstance(x, (ast.Lambda, ast.NamedExpr, ast.Yield, ast.YieldFrom,
                        ast.Await)) for x in ast.walk(call)):
    return None  # lambdas are indexed by node identity; keep them in place
  if len(call.args) > len(params):
    if a.vararg is None:
      return None
    out[a.vararg.arg] = ast.Tuple(elts=list(call.args[len(params):]),
                                  ctx=ast.Load())
  elif a.vararg is not None:
    out[a.vararg.arg] = ast.Tuple(elts=[], ctx=ast.Load())
  for p_, v in zip(params, call.args):
    out[p_] = v
  for k in call.keywords:
    if k.arg in out or k.arg not in params + kwonly:
      return None
    out[k.arg] = k.value
  defaults = dict(zip(params[len(params) - len(a.defaults):], a.defaults))
  for p_, d in zip(kwonly, a.kw_defaults):
    if d is not None:
      defaults[p_] = d
  for p_ in params + kwonly:
    if p_ not in out:
      if p_ not in defaults:
        return None
      out[p_] = defaults[p_]
  return out


class _Subst(ast.NodeTransformer):

  def __init__(self, mapping: Dict[str, ast.expr]):
    self.mapping = mapping

  def visit_Name(self, node):
    if node.id in self.mapping and isinstance(node.ctx, ast.Load):
      return copy.deepcopy(self.mapping[node.id])
    return node


class _Rename(ast.NodeTransformer):

  def __init__(self, mapping: Dict[str, str]):
    self.mapping = mapping

  def visit_Name(self, node):
    if node.id in self.mapping:
      node.id = self.mapping[node.id]
    return node

  def visit_ExceptHandler(self, node):
    if node.name in self.mapping:
      node.name = self.mapping[node.name]
    self.generic_visit(node)
    return node


def _locals_of(fn) -> Set[str]:
  out = set()
  for x in ast.walk(fn):
    if isinstance(x, ast.Name) and isinstance(x.ctx, (ast.Store, ast.Del)):
      out.add(x.id)
    elif isinstance(x, ast.ExceptHandler) and x.name:
      out.add(x.name)
  return out


_EXPR_CACHE: Dict[int, tuple] = {}
_COND_HELPERS: Set[int] = set()


def _expr_body(h) -> Optional[ast.expr]:
  """The expression a helper returns, if its body is `return <expr>` once its
  own single-assignment temporaries are substituted (normalise.py)."""
  key = id(h.node)
  if key in _EXPR_CACHE and _EXPR_CACHE[key][0] is h.node:
    return _EXPR_CACHE[key][1]
  body = _strip_doc(h.node.body)
  out = None
  if len(body) == 1 and isinstance(body[0], ast.Return) and (
      body[0].value is not None):
    out = body[0].value
  elif body and all(isinstance(b, (ast.If, ast.Return)) for b in body):
    # `if c: return a` / `return b`  ==  `return a if c else b`
    def cond(stmts):
      if len(stmts) == 1 and isinstance(stmts[0], ast.Return) and (
          stmts[0].value is not None):
        return stmts[0].value
      if len(stmts) == 1 and isinstance(stmts[0], ast.If):
        a_, b_ = cond(stmts[0].body), cond(stmts[0].orelse)
        if a_ is not None and b_ is not None:
          return ast.IfExp(test=stmts[0].test, body=a_, orelse=b_)
      return None
    out = cond(_tailify(copy.deepcopy(body)))
    if out is not None:
      _COND_HELPERS.add(key)  # spliced as statements where that is possible
  elif body and isinstance(body[-1], ast.Return) and all(
      isinstance(b, ast.Assign) for b in body[:-1]):
    from fdlstatic import normalise  # pylint: disable=g-import-not-at-top
    cp = copy.deepcopy(h.node)
    normalise.eliminate_temps(cp)
    body = _strip_doc(cp.body)
    if len(body) == 1 and isinstance(body[0], ast.Return) and (
        body[0].value is not None):
      out = body[0].value
  _EXPR_CACHE[key] = (h.node, out)  # keeps the node alive: ids stay unique
  return out


def _fix(node, at):
  for x in ast.walk(node):
    if isinstance(x, (ast.expr, ast.stmt, ast.excepthandler)):
      x.lineno = getattr(at, 'lineno', 1)
      x.col_offset = getattr(at, 'col_offset', 0)
      x.end_lineno = getattr(at, 'end_lineno', x.lineno)
      x.end_col_offset = getattr(at, 'end_col_offset', x.col_offset)
  return node


class Inliner:

  def _requalify(self, nodes, h, scope) -> bool:
    """Free global names of a body taken from another module are made to
    resolve in the caller's module: same binding -> kept; a constant -> its
    value; otherwise a synthetic import alias is added to the caller's module
    table.  False if some name cannot be carried over."""
    if h.module is scope.module:
      return True
    own = h.local_names()
    m1, m2 = scope.module, h.module
    for root in nodes:
      for n in ast.walk(root):
        if not (isinstance(n, ast.Name) and isinstance(n.ctx, ast.Load)):
          continue
        base = n.id.split('__')[0] if False else n.id
        if base in own:
          continue
        try:
          q2 = self.p.resolve(ast.Name(id=n.id, ctx=ast.Load()), h)
          q1 = self.p.resolve(ast.Name(id=n.id, ctx=ast.Load()), scope)
        except Exception:  # pylint: disable=broad-except
          return False
        if q1 == q2:
          continue
        if n.id in m2.assigns and isinstance(m2.assigns[n.id], ast.Constant):
          n._const = m2.assigns[n.id]
          continue
        if q2 is None:
          return False
        alias = '_x_' + m2.name.replace('.', '_') + '_' + n.id
        m1.imports.setdefault(alias, q2)
        n.id = alias
    # constants: replace in a second pass
    class C(ast.NodeTransformer):

      def visit_Name(self, node):
        c = getattr(node, '_const', None)
        if c is not None:
          return ast.copy_location(copy.deepcopy(c), node)
        return node

    for i, root in enumerate(nodes):
      nodes[i] = C().visit(root)
    return True

  def __init__(self, project, callers=None):
    self.p = project
    self.callers = callers  # None: every function; else qualname prefixes
    self.count = 0
    self.sites: List[str] = []
    self._recv: Dict[int, str] = {}
    self._rec_cache: Dict[int, dict] = {}
    global _PROJECT_QUALS
    _PROJECT_QUALS = set(project.funcs) | set(project.classes)

  def _callee(self, call, scope, generator: bool = False):
    h = self._callee0(call, scope, generator)
    if h is not None and not generator and any(
        isinstance(x, ast.YieldFrom) for x in ast.walk(h.node)):
      return None
    return h

  def _callee0(self, call, scope, generator):
    fn = call.func
    if isinstance(fn, ast.Attribute) and isinstance(
        fn.value, ast.Name) and fn.value.id == 'self':
      # self._helper(...) inside a method of the same class
      m, cls = scope, None
      while m is not None:
        if getattr(m, 'cls', None) is not None:
          cls = m.cls
          break
        m = getattr(m, 'parent', None)
      h = cls.methods.get(fn.attr) if cls is not None else None
      if h is None or h is scope or not eligible(h, generator):
        return None
      return h
    if isinstance(fn, ast.Attribute) and isinstance(
        fn.value, ast.Name) and fn.value.id != 'self':
      # rec.method(...) on a local that holds a small record of the tree
      # (NamedTuple / dataclass) built in this function
      rc = self._record_class_of(fn.value.id, scope)
      if rc is not None:
        h = rc.methods.get(fn.attr)
        if h is not None and h is not scope and not any(
            unparse(d).split('.')[-1] in ('property', 'staticmethod',
                                          'classmethod')
            for d in h.node.decorator_list) and eligible_method(h, generator):
          self._recv[id(call)] = fn.value.id
          return h
      return None if rc is not None else self._plain_callee(call, scope,
                                                            generator)
    if isinstance(fn, ast.Name) and fn.id in getattr(scope, 'nested', {}):
      # a local function of the caller itself: its free variables are the
      # caller's own locals, so the body can stand where the call stood
      h = scope.nested[fn.id]
      if any(isinstance(x, ast.Nonlocal) for x in ast.walk(h.node)):
        return None
      n_refs = sum(1 for x in ast.walk(scope.node) if isinstance(
          x, ast.Name) and x.id == fn.id and isinstance(x.ctx, ast.Load))
      n_calls = sum(1 for x in ast.walk(scope.node) if isinstance(
          x, ast.Call) and isinstance(x.func, ast.Name) and x.func.id == fn.id)
      if n_refs != n_calls:
        return None  # also used as a value (callback): keep it a function
      return h if eligible(h, generator, nested_ok=True) else None
    return self._plain_callee(call, scope, generator)

  def _bind2(self, h, call):
    b = _bind(h, call)
    recv = self._recv.get(id(call))
    if b is not None and recv is not None:
      b = dict(b)
      b['self'] = ast.Name(id=recv, ctx=ast.Load())
    return b

  def _record_class_of(self, name, scope):
    """The record class (NamedTuple / dataclass of the tree) whose instance
    the local `name` of `scope` holds: `name = C(...)` is its only binding."""
    if scope is None or getattr(scope, 'is_lambda', True):
      return None
    key = id(scope.node)
    table = self._rec_cache.get(key)
    if table is None:
      # one walk per function (and per rewrite of it): locals with a single
      # binding `v = C(...)`, C a record class of the tree
      table = {}
      stores: Dict[str, int] = {}
      cands = []
      for n in _own_nodes(scope.node):
        if isinstance(n, ast.Name) and isinstance(n.ctx, (ast.Store, ast.Del)):
          stores[n.id] = stores.get(n.id, 0) + 1
        elif isinstance(n, ast.Assign) and len(n.targets) == 1 and isinstance(
            n.targets[0], ast.Name) and isinstance(n.value, ast.Call):
          cands.append(n)
      params = set(scope.params)
      # names that are not plain locals: declared global / nonlocal, or read
      # by a nested function / lambda / class body
      for n in ast.walk(scope.node):
        if isinstance(n, (ast.Global, ast.Nonlocal)):
          params |= set(n.names)
        elif n is not scope.node and isinstance(
            n, (ast.FunctionDef, ast.AsyncFunctionDef, ast.Lambda,
                ast.ClassDef)):
          params |= {x.id for x in ast.walk(n) if isinstance(x, ast.Name)}
      for n in cands:
        v = n.targets[0].id
        if stores.get(v) != 1 or v in params:
          continue
        try:
          q = self.p.resolve(n.value.func, scope)
        except Exception:  # pylint: disable=broad-except
          continue
        ci = self.p.classes.get(q) if q else None
        if ci is not None and is_record_class(ci):
          table[v] = ci
      self._rec_cache[key] = table
    return table.get(name)

  def _plain_callee(self, call, scope, generator):
    try:
      q = self.p.resolve(call.func, scope)
    except Exception:  # pylint: disable=broad-except
      return None
    h = self.p.funcs.get(q) if q else None
    if h is not None and h.cls is not None:
      return None
    if h is None or h is scope or not eligible(
        h, generator, other_module=h.module is not scope.module):
      return None
    if h.module is not scope.module and not (
        h.module.name.startswith('fiddle._src.') and
        scope.module.name.startswith('fiddle._src.')):
      return None
    return h

  # ---- expression helpers
  def _expand_exprs(self, f, node):
    inl = self

    class T(ast.NodeTransformer):

      def visit_FunctionDef(self, n):
        return n  # nested scopes are expanded as functions of their own

      visit_AsyncFunctionDef = visit_Lambda = visit_ClassDef = visit_FunctionDef

      def visit_Call(self, n):
        self.generic_visit(n)
        h = inl._callee(n, f)
        if h is None:
          return n
        e = _expr_body(h)
        if e is None:
          return n
        b = inl._bind2(h, n)
        if b is None:
          return n
        body_ = [copy.deepcopy(e)]
        if not inl._requalify(body_, h, f):
          return n
        inl.count += 1
        inl.sites.append(f'{f.qualname} <- {h.qualname}')
        return _fix(_Subst(b).visit(body_[0]), n)

    return T().visit(node)

  # ---- statement helpers
  def _splice(self, f, st) -> Optional[List[ast.stmt]]:
    call = None
    kind = None
    if isinstance(st, ast.Expr) and isinstance(st.value, ast.Call):
      call, kind = st.value, 'expr'
    elif isinstance(st, ast.Assign) and isinstance(st.value, ast.Call):
      call, kind = st.value, 'assign'
    elif isinstance(st, ast.Return) and isinstance(st.value, ast.Call):
      call, kind = st.value, 'return'
    if call is None:
      return None
    h = self._callee(call, f)
    if h is None or (_expr_body(h) is not None and
                     id(h.node) not in _COND_HELPERS):
      return None
    b = self._bind2(h, call)
    if b is None:
      return None
    body = copy.deepcopy(_strip_doc(h.node.body))
    # `return h(args)`: a return anywhere in h (in a loop, a try, a with) is a
    # return of the caller; otherwise every return has to be in tail position
    anywhere = kind == 'return'
    if not anywhere:
      body = _tailify(body)
      if not _returns_in_tail(body):
        return None
    if not self._requalify(body, h, f):
      return None
    tag = '__' + h.name.strip('_')
    ren = {n: n + tag for n in _locals_of(h.node) | set(b)}
    if 'self' not in b:
      ren.pop('self', None)
    holder = ast.Module(body=body, type_ignores=[])
    _Rename(ren).visit(holder)
    body = holder.body

    def conv(stmts):
      if anywhere:
        if not _terminates(stmts):
          stmts = list(stmts) + [ast.Return(value=ast.Constant(value=None))]
        return stmts
      out = []
      for s_ in stmts:
        if isinstance(s_, ast.Return):
          v = s_.value if s_.value is not None else ast.Constant(value=None)
          if kind == 'assign':
            out.append(ast.Assign(targets=copy.deepcopy(st.targets), value=v))
          elif kind == 'return':
            out.append(ast.Return(value=v))
          elif not isinstance(v, ast.Constant):
            out.append(ast.Expr(value=v))
        elif isinstance(s_, ast.If):
          s_.body = conv(s_.body) or [ast.Pass()]
          s_.orelse = conv(s_.orelse)
          out.append(s_)
        elif isinstance(s_, ast.Try):
          s_.body = conv(s_.body) or [ast.Pass()]
          s_.orelse = conv(s_.orelse)
          for h_ in s_.handlers:
            h_.body = conv(h_.body) or [ast.Pass()]
          out.append(s_)
        else:
          out.append(s_)
      return out

    body = conv(body)
    if kind == 'assign' and not _terminates_or_assigns(body, st):
      # falling off the end returns None
      body.append(ast.Assign(targets=copy.deepcopy(st.targets),
                             value=ast.Constant(value=None)))
    binds = [ast.Assign(targets=[ast.Name(id=ren[p_], ctx=ast.Store())],
                        value=copy.deepcopy(v)) for p_, v in b.items()]
    new = binds + body
    for s_ in new:
      _fix(s_, st)
    self.count += 1
    self.sites.append(f'{f.qualname} <= {h.qualname}')
    return new

  def _splice_generator(self, f, st) -> Optional[List[ast.stmt]]:
    """`for T in gen(args): BODY` where gen only re-yields other iterables
    (`yield from E` statements, possibly under ifs): the helper's body with
    each `yield from E` written `for T in E: BODY`."""
    if not (isinstance(st, ast.For) and isinstance(st.iter, ast.Call) and
            not st.orelse):
      return None
    def escapes(stmts, kinds, in_loop=False):
      # break / continue that would leave BODY (they mean "stop / next item")
      for s_ in stmts:
        if isinstance(s_, kinds) and not in_loop:
          return True
        if isinstance(s_, (ast.For, ast.While, ast.AsyncFor)):
          if escapes(s_.orelse, kinds, in_loop):
            return True
          continue
        if isinstance(s_, (ast.FunctionDef, ast.AsyncFunctionDef, ast.ClassDef)):
          continue
        for fld in ('body', 'orelse', 'finalbody'):
          v = getattr(s_, fld, None)
          if isinstance(v, list) and v and isinstance(
              v[0], ast.stmt) and escapes(v, kinds, in_loop):
            return True
        for hd in getattr(s_, 'handlers', []) or []:
          if escapes(hd.body, kinds, in_loop):
            return True
      return False

    if escapes(st.body, (ast.Break,)):
      return None
    # `continue` in BODY asks for the next item: the generator resumes after
    # its yield.  Where that yield ends an iteration of the generator's own
    # innermost loop, that is a `continue` of that loop.
    body_continues = escapes(st.body, (ast.Continue,))
    h = self._callee(st.iter, f, generator=True)
    if h is None:
      return None
    body = copy.deepcopy(_strip_doc(h.node.body))
    yf = [x for b in body for x in ast.walk(b)
          if isinstance(x, (ast.YieldFrom, ast.Yield))]
    if not yf or any(isinstance(x, ast.Return) for b in body
                     for x in ast.walk(b)):
      return None
    if body_continues:
      def yields_end_iterations(stmts, tail, in_loop):
        for i, s_ in enumerate(stmts):
          last = tail and i == len(stmts) - 1
          if isinstance(s_, ast.Expr) and isinstance(s_.value, ast.Yield):
            if not (last and in_loop):
              return False
          elif isinstance(s_, ast.If):
            if not (yields_end_iterations(s_.body, last, in_loop) and
                    yields_end_iterations(s_.orelse, last, in_loop)):
              return False
          elif isinstance(s_, (ast.For, ast.While)):
            if not yields_end_iterations(s_.body, True, True):
              return False
            if not yields_end_iterations(s_.orelse, last, in_loop):
              return False
          elif any(isinstance(x, ast.Yield) for x in ast.walk(s_)):
            return False
        return True

      if not yields_end_iterations(body, True, False):
        return None
    b = self._bind2(h, st.iter)
    if b is None:
      return None
    if not self._requalify(body, h, f):
      return None
    tag = '__' + h.name.strip('_')
    ren = {n: n + tag for n in _locals_of(h.node) | set(b)}
    if 'self' not in b:
      ren.pop('self', None)
    holder = ast.Module(body=body, type_ignores=[])
    _Rename(ren).visit(holder)
    ok = [True]

    def conv(stmts):
      out = []
      for s_ in stmts:
        if isinstance(s_, ast.Expr) and isinstance(s_.value, ast.YieldFrom):
          out.append(ast.For(target=copy.deepcopy(st.target),
                             iter=s_.value.value,
                             body=copy.deepcopy(st.body), orelse=[]))
        elif isinstance(s_, ast.Expr) and isinstance(
            s_.value, ast.Yield) and s_.value.value is not None:
          # `yield E`  ->  T = E; BODY
          tg, val = st.target, s_.value.value
          tnames = {x.id for x in ast.walk(tg) if isinstance(x, ast.Name)}
          if isinstance(tg, ast.Tuple) and isinstance(val, ast.Tuple) and len(
              tg.elts) == len(val.elts) and all(
                  isinstance(x, ast.Name) for x in tg.elts) and not any(
                      isinstance(x, ast.Starred) for x in val.elts) and not any(
                          isinstance(x, ast.Name) and x.id in tnames
                          for x in ast.walk(val)):
            # `a, b = x, y` with nothing shared: one assignment per name
            for t_, v_ in zip(tg.elts, val.elts):
              out.append(ast.Assign(targets=[copy.deepcopy(t_)], value=v_))
          else:
            out.append(ast.Assign(targets=[copy.deepcopy(tg)], value=val))
          out.extend(copy.deepcopy(st.body))
        elif isinstance(s_, (ast.If, ast.For, ast.While)):
          s_.body = conv(s_.body) or [ast.Pass()]
          s_.orelse = conv(s_.orelse)
          out.append(s_)
        elif any(isinstance(x, (ast.YieldFrom, ast.Yield))
                 for x in ast.walk(s_)):
          ok[0] = False
          out.append(s_)
        else:
          out.append(s_)
      return out

    body = conv(holder.body)
    if not ok[0]:
      return None
    binds = [ast.Assign(targets=[ast.Name(id=ren[p_], ctx=ast.Store())],
                        value=copy.deepcopy(v)) for p_, v in b.items()]
    new = binds + body
    for s_ in new:
      _fix(s_, st)
    self.count += 1
    self.sites.append(f'{f.qualname} <= {h.qualname}')
    return new

  _PURE_BUILTINS = {'frozenset', 'tuple', 'set', 'list', 'dict', 'len',
                    'isinstance', 'issubclass', 'sorted', 'zip', 'enumerate',
                    'range', 'id', 'type', 'min', 'max', 'any', 'all', 'bool',
                    'int', 'str'}
  _READ_METHODS = {'items', 'values', 'keys', 'get', 'copy', 'index', 'count'}
  _LOCAL_MUTATORS = {'append', 'add', 'extend', 'update', 'setdefault',
                     'insert'}

  def _local_effects_only(self, h) -> bool:
    """The helper writes nothing but its own locals and fresh containers held
    in them, and calls nothing but pure builtins / read methods."""
    params = set(h.params)
    fresh = set()
    for n in ast.walk(h.node):
      if isinstance(n, ast.Assign) and len(n.targets) == 1 and isinstance(
          n.targets[0], ast.Name) and (isinstance(
              n.value, (ast.Dict, ast.List, ast.Set, ast.ListComp, ast.DictComp,
                        ast.SetComp)) or (isinstance(
                            n.value, ast.Call) and isinstance(
                                n.value.func, ast.Name) and n.value.func.id in (
                                    'dict', 'list', 'set') and not n.value.args)):
        fresh.add(n.targets[0].id)
    fresh -= params
    for n in ast.walk(h.node):
      if isinstance(n, (ast.Attribute, ast.Subscript)) and isinstance(
          getattr(n, 'ctx', None), (ast.Store, ast.Del)):
        base = n.value
        if not (isinstance(base, ast.Name) and base.id in fresh):
          return False
      if isinstance(n, ast.Call):
        fn = n.func
        if isinstance(fn, ast.Name) and fn.id in self._PURE_BUILTINS:
          continue
        if isinstance(fn, ast.Attribute) and fn.attr in self._READ_METHODS:
          continue
        if isinstance(fn, ast.Attribute) and fn.attr in (
            self._LOCAL_MUTATORS) and isinstance(
                fn.value, ast.Name) and fn.value.id in fresh:
          continue
        return False
      if isinstance(n, (ast.Global, ast.Nonlocal, ast.Raise, ast.Yield,
                        ast.YieldFrom, ast.Await)):
        return False
    return True

  def _hoist(self, f, st) -> Optional[List[ast.stmt]]:
    """`S(... h(args) ...)` with a statement helper h in expression position
    -> `t = h(args); S(... t ...)`, when h(args) is evaluated unconditionally
    and either first in S or h has local effects only."""
    if isinstance(st, (ast.For, ast.AsyncFor)):
      root = st.iter   # evaluated once, before the loop
    elif isinstance(st, ast.If):
      root = st.test
    elif isinstance(st, (ast.Expr, ast.Assign, ast.AnnAssign, ast.AugAssign,
                         ast.Return)):
      root = st.value
    else:
      return None
    if root is None:
      return None
    parents = {id(root): st}
    for n in ast.walk(root):
      for c in ast.iter_child_nodes(n):
        parents[id(c)] = n
    header = isinstance(st, (ast.For, ast.AsyncFor, ast.If))
    for c in ast.walk(root):
      if not isinstance(c, ast.Call) or (c is root and not header):
        continue
      h = self._callee(c, f)
      if h is None or (_expr_body(h) is not None):
        continue
      if self._bind2(h, c) is None:
        continue
      body = _tailify(copy.deepcopy(_strip_doc(h.node.body)))
      if not _returns_in_tail(body):
        continue
      # unconditionally evaluated: no conditional / deferred context on the way
      ok, n = True, c
      while id(n) in parents and parents[id(n)] is not st:
        par = parents[id(n)]
        if isinstance(par, (ast.Lambda, ast.ListComp, ast.SetComp, ast.DictComp,
                            ast.GeneratorExp)):
          ok = False
        if isinstance(par, ast.IfExp) and n is not par.test:
          ok = False
        if isinstance(par, ast.BoolOp) and n is not par.values[0]:
          ok = False
        n = par
      if not ok:
        continue
      own = f.local_names() if hasattr(f, 'local_names') else set()

      def _module_attr(x):
        # `mod.Name` / `pkg.mod.Name` on an imported module: reading it
        # neither has an effect nor depends on what the helper does
        while isinstance(x, ast.Attribute):
          x = x.value
        return isinstance(x, ast.Name) and x.id in f.module.imports and (
            x.id not in own)

      # `obj.method(... h(args) ...)`: looking the method up on a plain name
      # before or after h runs finds the same method
      method_lookups = set()
      for x in ast.walk(root):
        if isinstance(x, ast.Call) and isinstance(
            x.func, ast.Attribute) and isinstance(
                x.func.value, ast.Name) and any(
                    z is c for a_ in list(x.args) + [k.value for k in x.keywords]
                    for z in ast.walk(a_)):
          method_lookups.add(id(x.func))

      def _pure_builtin_call(x):
        # type(v) / len(v) / isinstance(v, T) on plain names: no effect, and
        # nothing the helper could change (it cannot rebind the caller's names)
        return isinstance(x, ast.Call) and isinstance(
            x.func, ast.Name) and x.func.id in ('type', 'id', 'isinstance') and (
                x.func.id not in own) and not x.keywords and all(
                    isinstance(a_, (ast.Name, ast.Constant)) or _module_attr(a_)
                    for a_ in x.args)

      first = not any(
          isinstance(x, (ast.Call, ast.Attribute, ast.Subscript, ast.Await)) and
          not _pure_builtin_call(x) and
          not (isinstance(x, ast.Attribute) and (
              _module_attr(x) or id(x) in method_lookups)) and
          (getattr(x, 'lineno', 0), getattr(x, 'col_offset', 0)) < (
              c.lineno, c.col_offset) and not any(z is c for z in ast.walk(x))
          for x in ast.walk(root))
      if not (first or self._local_effects_only(h)):
        continue
      self._tmp = getattr(self, '_tmp', 0) + 1
      tname = f'hoisted__{h.name.strip("_")}_{self._tmp}'
      pre = ast.Assign(targets=[ast.Name(id=tname, ctx=ast.Store())],
                       value=copy.deepcopy(c))
      _fix(pre, st)

      class R(ast.NodeTransformer):

        def visit_Call(self, node):
          if node is c:
            return ast.copy_location(ast.Name(id=tname, ctx=ast.Load()), node)
          self.generic_visit(node)
          return node

      if header:
        new_root = R().visit(root)
        if isinstance(st, ast.If):
          st.test = new_root
        else:
          st.iter = new_root
      else:
        R().visit(st)
      return [pre, st]
    return None

  def _expand_stmts(self, f, stmts):
    out = []
    for st in stmts:
      new = self._splice(f, st)
      if new is None:
        hoisted = self._hoist(f, st)
        if hoisted is not None:
          sp = self._splice(f, hoisted[0])
          out.extend(sp if sp is not None else [hoisted[0]])
          st = hoisted[1]
          new = None
      if new is None:
        new = self._splice_generator(f, st)
      if new is None:
        new = self._collect_generator(f, st)
      if new is not None:
        out.extend(new)
        continue
      for fld in ('body', 'orelse', 'finalbody'):
        v = getattr(st, fld, None)
        if isinstance(v, list) and v and isinstance(v[0], ast.stmt) and not (
            isinstance(st, (ast.FunctionDef, ast.AsyncFunctionDef,
                            ast.ClassDef))):
          setattr(st, fld, self._expand_stmts(f, v))
      for hd in getattr(st, 'handlers', []) or []:
        hd.body = self._expand_stmts(f, hd.body)
      out.append(st)
    return out

  def _collect_generator(self, f, st):
    """`x = dict(gen(args))` / `list(gen(args))` / `tuple(...)`-free forms
    with a generator helper: `x = {}; for k, v in gen(args): x[k] = v` (resp.
    `x = []; for e in gen(args): x.append(e)`), the loop then spliced."""
    if not (isinstance(st, ast.Assign) and len(st.targets) == 1 and isinstance(
        st.targets[0], ast.Name) and isinstance(st.value, ast.Call) and
            isinstance(st.value.func, ast.Name) and
            st.value.func.id in ('dict', 'list') and len(st.value.args) == 1
            and not st.value.keywords and isinstance(st.value.args[0],
                                                     ast.Call)):
      return None
    inner = st.value.args[0]
    h = self._callee(inner, f, generator=True)
    if h is None or not any(isinstance(x, (ast.Yield, ast.YieldFrom))
                            for x in _own_nodes(h.node)):
      return None
    x = st.targets[0].id
    if any(isinstance(n, ast.Name) and n.id == x for n in ast.walk(inner)):
      return None
    self._tmp = getattr(self, '_tmp', 0) + 1
    if st.value.func.id == 'dict':
      k, v = f'key__collect_{self._tmp}', f'value__collect_{self._tmp}'
      init = ast.Assign(targets=[ast.Name(id=x, ctx=ast.Store())],
                        value=ast.Dict(keys=[], values=[]))
      body = [ast.Assign(
          targets=[ast.Subscript(value=ast.Name(id=x, ctx=ast.Load()),
                                 slice=ast.Name(id=k, ctx=ast.Load()),
                                 ctx=ast.Store())],
          value=ast.Name(id=v, ctx=ast.Load()))]
      target = ast.Tuple(elts=[ast.Name(id=k, ctx=ast.Store()),
                               ast.Name(id=v, ctx=ast.Store())],
                         ctx=ast.Store())
    else:
      e = f'item__collect_{self._tmp}'
      init = ast.Assign(targets=[ast.Name(id=x, ctx=ast.Store())],
                        value=ast.List(elts=[], ctx=ast.Load()))
      body = [ast.Expr(value=ast.Call(
          func=ast.Attribute(value=ast.Name(id=x, ctx=ast.Load()),
                             attr='append', ctx=ast.Load()),
          args=[ast.Name(id=e, ctx=ast.Load())], keywords=[]))]
      target = ast.Name(id=e, ctx=ast.Store())
    loop = ast.For(target=target, iter=inner, body=body, orelse=[])
    _fix(init, st)
    _fix(loop, st)
    spliced = self._splice_generator(f, loop)
    if spliced is None:
      return None
    return [init] + spliced

  def run(self):
    order = [f for f in self.p.funcs.values()
             if not f.is_lambda and isinstance(f.node, ast.FunctionDef)]
    if self.callers is not None:
      order = [f for f in order if any(
          f.qualname == q or f.qualname.startswith(q + '.') or
          q.startswith(f.qualname + '.') for q in self.callers)]
    for _ in range(2):
      before = self.count
      for f in order:
        c0 = self.count
        self._rec_cache.pop(id(f.node), None)
        f.node.body = self._expand_stmts(f, f.node.body)
        if self.count != c0:
          self._rec_cache.pop(id(f.node), None)
        for i, st in enumerate(f.node.body):
          f.node.body[i] = self._expand_exprs(f, st)
        if self.count != c0:
          self._rec_cache.pop(id(f.node), None)
        self._fold_records(f)
        ast.fix_missing_locations(f.node)
      if self.count == before:
        break
    return self

  def _fold_records(self, f):
    """`r = Rec(a=x, b=y)` held in a local: `r.a` reads as `x`, a property of
    Rec as its expression; a record nothing refers to any more is dropped.
    Only for records that are not modified (`r.a = ...`) and whose constructor
    arguments are plain names / constants that are not rebound afterwards."""
    fn = f.node
    any_change = False
    for _ in range(3):
      self._rec_cache.pop(id(fn), None)
      self._record_class_of('', f)
      if not self._rec_cache.get(id(fn)):
        return any_change
      stores: Dict[str, int] = {}
      for n in _own_nodes(fn):
        if isinstance(n, ast.Name) and isinstance(n.ctx, (ast.Store, ast.Del)):
          stores[n.id] = stores.get(n.id, 0) + 1
      not_plain = set()
      for n in ast.walk(fn):
        if isinstance(n, (ast.Global, ast.Nonlocal)):
          not_plain |= set(n.names)
        elif n is not fn and isinstance(
            n, (ast.FunctionDef, ast.AsyncFunctionDef, ast.Lambda,
                ast.ClassDef)):
          not_plain |= {x.id for x in ast.walk(n) if isinstance(x, ast.Name)}
      recs = {}   # local -> (class, field -> expr, defining statement)
      for n in sorted((x for x in _own_nodes(fn) if isinstance(x, ast.Assign)),
                      key=lambda x: (getattr(x, 'lineno', 0),
                                     getattr(x, 'col_offset', 0))):
        if not (isinstance(n, ast.Assign) and len(n.targets) == 1 and
                isinstance(n.targets[0], ast.Name)):
          continue
        v = n.targets[0].id
        if stores.get(v) != 1 or v in f.params:
          continue
        if isinstance(n.value, ast.Name) and n.value.id in recs and (
            v not in not_plain):
          recs[v] = recs[n.value.id][:2] + (n,)   # an alias of a record
          continue
        ci = self._record_class_of(v, f)
        if ci is None or any(m in ci.methods for m in (
            '__init__', '__new__', '__post_init__', '__getattr__',
            '__getattribute__')):
          continue
        fields = [k for k in ci.annotations]
        call = n.value
        if any(isinstance(a, ast.Starred) for a in call.args) or any(
            k.arg is None for k in call.keywords) or len(call.args) > len(
                fields):
          continue
        b = dict(zip(fields, call.args))
        b.update({k.arg: k.value for k in call.keywords})
        if not all(k in fields for k in b):
          continue
        recs[v] = (ci, b, n)
      if not recs:
        return any_change
      # records that are written to, or escape whole, keep their identity for
      # the escaping use; field reads can still be folded
      written = {n.value.id for n in _own_nodes(fn) if isinstance(
          n, ast.Attribute) and isinstance(n.ctx, (ast.Store, ast.Del)) and
                 isinstance(n.value, ast.Name)}
      changed = [False]
      inl = self

      def simple(e):
        return isinstance(e, ast.Constant) or (isinstance(
            e, ast.Name) and stores.get(e.id, 0) <= 1)

      class T(ast.NodeTransformer):

        def visit_FunctionDef(self, n):
          return n

        visit_AsyncFunctionDef = visit_Lambda = visit_ClassDef = visit_FunctionDef

        def visit_Attribute(self, n):
          self.generic_visit(n)
          if not (isinstance(n.ctx, ast.Load) and isinstance(
              n.value, ast.Name) and n.value.id in recs) or (
                  n.value.id in written):
            return n
          ci, b, _ = recs[n.value.id]
          if n.attr in b and simple(b[n.attr]):
            changed[0] = True
            return ast.copy_location(copy.deepcopy(b[n.attr]), n)
          m = ci.methods.get(n.attr)
          if m is not None and any(unparse(d) == 'property'
                                   for d in m.node.decorator_list):
            e = _expr_body(m)
            if e is not None and m.node.args.args:
              changed[0] = True
              inl.count += 1
              inl.sites.append(f'{f.qualname} <- {m.qualname}')
              return _fix(_Subst({m.node.args.args[0].arg: ast.Name(
                  id=n.value.id, ctx=ast.Load())}).visit(copy.deepcopy(e)), n)
          return n

      fn.body = [T().visit(st) for st in fn.body]
      # drop records (and aliases) that are no longer read
      loads: Dict[str, int] = {}
      for n in _own_nodes(fn):
        if isinstance(n, ast.Name) and isinstance(n.ctx, ast.Load):
          loads[n.id] = loads.get(n.id, 0) + 1
      dead = [d for v, (_, b, d) in recs.items() if loads.get(v, 0) == 0 and (
          isinstance(d.value, ast.Name) or all(
              simple(x) for x in b.values()))]
      if dead:
        changed[0] = True

        class D(ast.NodeTransformer):

          def generic_visit(self, n):
            for fld, old in ast.iter_fields(n):
              if isinstance(old, list) and any(
                  any(x is d for d in dead) for x in old):
                new = [x for x in old if not any(x is d for d in dead)]
                if not new and fld == 'body':
                  new = [ast.copy_location(ast.Pass(), old[0])]
                setattr(n, fld, new)
            return super().generic_visit(n)

        D().visit(fn)
      if not changed[0]:
        return any_change
      any_change = True
    return any_change


def _terminates_or_assigns(body, st) -> bool:
  """Every way through `body` ends in a return / raise or in the assignment
  that stands for the helper's return."""
  if not body:
    return False
  last = body[-1]
  if isinstance(last, (ast.Return, ast.Raise, ast.Assign)):
    return True
  if isinstance(last, ast.If):
    return bool(last.orelse) and _terminates_or_assigns(
        last.body, st) and _terminates_or_assigns(last.orelse, st)
  if isinstance(last, ast.Try):
    if _terminates(last.finalbody):
      return True
    main = last.orelse if last.orelse else last.body
    return _terminates_or_assigns(main, st) and all(
        _terminates_or_assigns(h_.body, st) for h_ in last.handlers)
  return False
