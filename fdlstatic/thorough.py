"""Thorough tier: the quick rules plus (a) a repository-wide sweep of the
generic rules (key-kind, identity tables, None-ness, implicit-None callbacks)
reported as observations, and (b) the two-way self-test of this property's
checker on scratch copies of the current tree (breaking edits must be
reported, behaviour-preserving twins must stay silent).

The self-test is only meaningful on a tree whose quick check is clean and
whose source still contains the text each case edits; cases that do not apply
are counted as skipped.  Self-test outcomes never change the exit code of the
property check: they qualify the checker, not the repository.
"""
from __future__ import annotations

import concurrent.futures
import os
import random
import sys
from typing import Dict

from fdlstatic import idmemo
from fdlstatic.keykind import KeyKind
from fdlstatic.report import RuleSet, VERIF, load_known


def sweep(ctx) -> Dict:
  out = {'key_kind_sites': [], 'identity_tables_unpinned': []}
  for q, f in sorted(ctx.p.funcs.items()):
    if f.is_lambda:
      continue
    try:
      k = KeyKind(f, ctx.cfg(f)).run()
    except Exception as e:  # pylint: disable=broad-except
      continue
    for node, desc in k.bad:
      out['key_kind_sites'].append(f'{q}: {desc}')
  for m in sorted(ctx.p.modules):
    for s in idmemo.scan_module(ctx, m):
      if not s.pinned:
        out['identity_tables_unpinned'].append(s.key)
  return out


def run(ctx, rs: RuleSet, prop: str, repo: str, seed: int) -> Dict:
  result = {'repo_wide_sweep': sweep(ctx)}
  known = {(k['rule'], k['construct']) for k in load_known()
           if k['property'] == prop and k.get('status') == 'known'}
  dirty = [o for o in rs.obs if not o.ok and o.key() not in known]
  if dirty:
    result['selftest'] = 'skipped: the quick rules report a violation'
    return result
  sys.path.insert(0, os.path.join(VERIF, 'selftest'))
  import importlib
  st = importlib.import_module('run')
  os.environ.setdefault('FDLSTATIC_REPO', repo)
  st.REPO = repo
  cases = [c for c in st.load_cases() if c['prop'] == prop]
  random.Random(seed).shuffle(cases)
  outcomes = {'PASS': 0, 'FAIL': 0, 'BROKEN-CASE': 0}
  details = []
  with concurrent.futures.ThreadPoolExecutor(max_workers=16) as ex:
    for case, status, msg in ex.map(st.run_case, cases):
      if case.get('open') and status == 'FAIL':
        status = 'OPEN'   # a known open false alarm (DESIGN.md 8b)
      outcomes[status] = outcomes.get(status, 0) + 1
      details.append({'id': case['id'], 'expect': case['expect'],
                      'status': status})
      if status == 'FAIL':
        print(f'SELFTEST-MISMATCH property={prop} case={case["id"]} '
              f'(expected {case["expect"]})')
  result['selftest'] = {
      'cases': len(cases),
      'breaking': sum(1 for c in cases if c['expect'] == 'violation'),
      'benign_twins': sum(1 for c in cases if c['expect'] == 'silent'),
      'as_expected': outcomes['PASS'],
      'mismatches': outcomes['FAIL'],
      'open_false_alarms': outcomes.get('OPEN', 0),
      'skipped_not_applicable': outcomes['BROKEN-CASE'],
      'details': sorted(details, key=lambda d: d['id']),
  }
  print(f'{prop}: self-test {outcomes["PASS"]}/{len(cases)} cases as '
        f'expected ({outcomes["FAIL"]} mismatches, '
        f'{outcomes["BROKEN-CASE"]} not applicable)')
  # behaviour-preserving rewritings of the whole tree: this property's check
  # must stay silent on both
  probes = {}
  try:
    norm = st.run_normalised([prop])
    probes['ast_unparse_normalised_copy'] = 'silent' if all(
        ok for _, ok, _ in norm) else 'NOT SILENT'
    alpha = importlib.import_module('alpha')
    alpha.REPO = repo
    import shutil
    import tempfile
    for mode, what in (('alpha', 'locals renamed'),
                       ('flip', 'two-armed ifs flipped'),
                       ('guard', 'else branches made guard clauses'),
                       ('notemp', 'normal form: temporaries substituted'),
                       ('comp', 'normal form: accumulator loops as '
                        'comprehensions'),
                       ('inline', 'normal form: unknown private helpers '
                        'expanded')):
      tmp = tempfile.mkdtemp(prefix='fdlstatic-alpha-')
      try:
        n = alpha.make_variant(tmp, mode)
        _, ok, rc, _ = alpha.run_check(tmp, prop)
        probes[f'{mode}_copy'] = (
            f'{n} {what}: ' + ('silent' if ok else f'NOT SILENT rc={rc}'))
      finally:
        shutil.rmtree(tmp, ignore_errors=True)
  except Exception as e:  # pylint: disable=broad-except
    probes['error'] = repr(e)
  for k, v in probes.items():
    if 'NOT SILENT' in v:
      print(f'SELFTEST-MISMATCH property={prop} probe={k} ({v})')
  result['behaviour_preserving_probes'] = probes
  print(f'{prop}: probes {probes}')
  return result
