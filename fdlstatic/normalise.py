"""Normal forms used by the second ("expanded") view of a tree.

Two source-level idioms that do not change what a function computes but change
its shape:

  * a named intermediate result (`entry = self.memo[key]; return entry[1]`
    for `return self.memo[key][1]`);
  * an accumulator loop (`out = []; for x in xs: out.append(f(x))` for
    `out = [f(x) for x in xs]`).

Rules read shapes.  When the tree as written does not discharge every
obligation, the driver (fdlstatic/main.py) looks at it again with helpers
expanded (fdlstatic/inline.py), single-assignment temporaries substituted into
their uses and accumulator loops written as comprehensions.  The conditions
under which a substitution is made are stated at each transformation; they are
the usual ones for forward substitution (one definition, uses after it in the
same block, nothing the expression reads is written in between, a call is
moved only when it has one use and no other call is crossed).
"""
from __future__ import annotations

import ast
import copy
from typing import Dict, List, Optional, Set

_SCOPES = (ast.FunctionDef, ast.AsyncFunctionDef, ast.Lambda, ast.ClassDef)
_COMPS = (ast.ListComp, ast.SetComp, ast.DictComp, ast.GeneratorExp)


def _walk_own(node):
  """node and descendants, not entering nested function / class scopes."""
  stack = [node]
  while stack:
    n = stack.pop()
    yield n
    for c in ast.iter_child_nodes(n):
      if isinstance(c, _SCOPES):
        continue
      stack.append(c)


def _blocks(fn):
  """Every statement list of fn (own scope only)."""
  out = []

  def rec(stmts):
    out.append(stmts)
    for st in stmts:
      if isinstance(st, _SCOPES):
        continue
      for fld in ('body', 'orelse', 'finalbody'):
        v = getattr(st, fld, None)
        if isinstance(v, list) and v and isinstance(v[0], ast.stmt):
          rec(v)
      for h in getattr(st, 'handlers', []) or []:
        rec(h.body)
      for c in getattr(st, 'cases', []) or []:
        rec(c.body)

  rec(fn.body)
  return out


def _has_call(e) -> bool:
  """Evaluating e twice is not the same as evaluating it once: it calls
  something or creates a fresh (mutable, identity-bearing) object."""
  return any(isinstance(x, (ast.Call, ast.Await, ast.Yield, ast.YieldFrom,
                            ast.NamedExpr, ast.List, ast.Dict, ast.Set, ast.Slice) +
                            _COMPS)
             for x in ast.walk(e))


def _real_call(node) -> bool:
  return any(isinstance(x, (ast.Call, ast.Await, ast.Yield, ast.YieldFrom))
             for x in ast.walk(node))


def _targets(st):
  if isinstance(st, ast.Assign):
    return st.targets
  if isinstance(st, (ast.AugAssign, ast.AnnAssign)):
    return [st.target]
  if isinstance(st, ast.Delete):
    return st.targets
  return []


def _texts(e) -> Set[str]:
  return {ast.unparse(x) for x in ast.walk(e)
          if isinstance(x, (ast.Name, ast.Attribute, ast.Subscript))}


def _written(stmts) -> Set[str]:
  """Texts of everything stored / deleted / updated in place in stmts."""
  out = set()
  for st in stmts:
    for x in ast.walk(st):
      if isinstance(x, (ast.Name, ast.Attribute, ast.Subscript)) and isinstance(
          getattr(x, 'ctx', None), (ast.Store, ast.Del)):
        out.add(ast.unparse(x))
        # a store to a[k] or a.b also changes what `a` denotes structurally
        y = x
        while isinstance(y, (ast.Attribute, ast.Subscript)):
          y = y.value
          out.add(ast.unparse(y))
      elif isinstance(x, ast.Call) and isinstance(
          x.func, ast.Attribute) and x.func.attr in (
              'append', 'extend', 'add', 'update', 'pop', 'remove', 'clear',
              'insert', 'setdefault', 'discard', 'popitem', 'sort', 'reverse'):
        out.add(ast.unparse(x.func.value))
  return out


def _may_run_before(rest, k, y):
  """Statements / expressions that may execute after the statement before
  rest[0] and before the evaluation of the name node y inside rest[k]."""
  out = list(rest[:k])
  cur = rest[k]
  while True:
    nxt = None
    if isinstance(cur, (ast.For, ast.AsyncFor, ast.While)):
      inside = any(z is y for b in (cur.body, cur.orelse)
                   for s_ in b for z in ast.walk(s_))
      if inside:
        out.append(cur)  # a later statement of the body runs before the next
        return out       # iteration's use
    blocks = []
    for fld in ('body', 'orelse', 'finalbody'):
      v = getattr(cur, fld, None)
      if isinstance(v, list) and v and isinstance(v[0], ast.stmt):
        blocks.append((fld, v))
    for h in getattr(cur, 'handlers', []) or []:
      blocks.append(('handler', h.body))
    for c in getattr(cur, 'cases', []) or []:
      blocks.append(('case', c.body))
    for fld, b in blocks:
      for j, s_ in enumerate(b):
        if any(z is y for z in ast.walk(s_)):
          nxt = (fld, b, j, s_)
    if nxt is None:
      # y is in the header of a compound statement or in a simple statement:
      # within one statement, a store of that statement happens after its
      # value is evaluated
      if isinstance(cur, (ast.Assign, ast.AnnAssign, ast.AugAssign)) and not any(
          z is y for t in _targets(cur) for z in ast.walk(t)):
        return out
      hdr = _header_exprs(cur)
      if hdr is None:
        out.append(cur)
      return out
    fld, b, j, s_ = nxt
    hdr = _header_exprs(cur)
    out.extend(hdr or [])
    if isinstance(cur, (ast.With, ast.AsyncWith)):
      out.extend(i_ for i_ in cur.items)
    if isinstance(cur, (ast.For, ast.AsyncFor)):
      out.append(cur.target)
    if isinstance(cur, ast.Try) and fld != 'body':
      out.extend(cur.body)
      if fld == 'finalbody':
        out.extend(cur.orelse)
        for h in cur.handlers:
          out.extend(h.body)
    if isinstance(cur, ast.Match):
      out.append(cur)
      return out
    out.extend(b[:j])
    cur = s_


def _pos(n):
  return (getattr(n, 'lineno', 0), getattr(n, 'col_offset', 0))


def _header_exprs(st) -> Optional[List[ast.AST]]:
  """Expressions evaluated first when `st` starts (None: a simple statement,
  the whole of it)."""
  if isinstance(st, (ast.If, ast.While)):
    return [st.test]
  if isinstance(st, (ast.For, ast.AsyncFor)):
    return [st.iter]
  if isinstance(st, (ast.With, ast.AsyncWith)):
    return [st.items[0].context_expr] if st.items else []
  if isinstance(st, (ast.Try, ast.Match)) or isinstance(st, _SCOPES):
    return []
  return None


class _Replace(ast.NodeTransformer):

  def __init__(self, name, expr):
    self.name, self.expr, self.n = name, expr, 0

  def visit_Name(self, node):
    if node.id == self.name and isinstance(node.ctx, ast.Load):
      self.n += 1
      new = copy.deepcopy(self.expr)
      for x in ast.walk(new):
        if hasattr(x, 'lineno'):
          x.lineno, x.col_offset = node.lineno, node.col_offset
          x.end_lineno = getattr(node, 'end_lineno', node.lineno)
          x.end_col_offset = getattr(node, 'end_col_offset', node.col_offset)
      return new
    return node

  def visit_FunctionDef(self, node):
    return node

  visit_AsyncFunctionDef = visit_Lambda = visit_ClassDef = visit_FunctionDef


def _split_parallel(fn):
  """`a, b = e1, e2` -> `a = e1; b = e2` when no ei reads a target."""
  for block in _blocks(fn):
    i = 0
    while i < len(block):
      st = block[i]
      if isinstance(st, ast.Assign) and len(st.targets) == 1 and isinstance(
          st.targets[0], ast.Tuple) and isinstance(
              st.value, ast.Tuple) and len(st.targets[0].elts) == len(
                  st.value.elts) and all(
                      isinstance(t, ast.Name) for t in st.targets[0].elts):
        names = {t.id for t in st.targets[0].elts}
        reads = {x.id for v in st.value.elts for x in ast.walk(v)
                 if isinstance(x, ast.Name)}
        if not (names & reads) and not any(
            isinstance(v, ast.Starred) for v in st.value.elts) and sum(
                _has_call(v) for v in st.value.elts) <= 1:
          new = []
          for t, v in zip(st.targets[0].elts, st.value.elts):
            a = ast.Assign(targets=[t], value=v)
            ast.copy_location(a, st)
            new.append(a)
          block[i:i + 1] = new
          i += len(new)
          continue
      i += 1


def _bound_partial(e) -> bool:
  """functools.partial(<name>, <names / constants>...): nothing is evaluated
  but names."""
  if not (isinstance(e, ast.Call) and isinstance(e.func, ast.Attribute) and
          e.func.attr == 'partial' and isinstance(e.func.value, ast.Name) and
          e.func.value.id == 'functools' and e.args):
    return False
  vals = list(e.args) + [k.value for k in e.keywords]
  return all(k.arg is not None for k in e.keywords) and all(
      isinstance(v, (ast.Name, ast.Constant)) for v in vals)


def _is_callee(name_node, stmt) -> bool:
  return any(isinstance(c, ast.Call) and c.func is name_node
             for c in ast.walk(stmt))


class _FoldPartialCalls(ast.NodeTransformer):
  """`functools.partial(f, a, k=v)(b)` -> `f(a, b, k=v)`."""

  def visit_Call(self, node):
    self.generic_visit(node)
    f = node.func
    if _bound_partial(f) and not any(
        isinstance(a, ast.Starred) for a in node.args) and not (
            {k.arg for k in f.keywords} & {k.arg for k in node.keywords}) and all(
                k.arg is not None for k in node.keywords):
      return ast.copy_location(ast.Call(
          func=f.args[0], args=list(f.args[1:]) + list(node.args),
          keywords=list(f.keywords) + list(node.keywords)), node)
    return node


class _FlattenStarred(ast.NodeTransformer):
  """`f(a, *(b, c))` -> `f(a, b, c)`; likewise in tuple / list displays."""

  def __init__(self):
    self.count = 0

  def _flat(self, elts):
    out = []
    for e in elts:
      if isinstance(e, ast.Starred) and isinstance(
          e.value, (ast.Tuple, ast.List)) and not any(
              isinstance(x, ast.Starred) for x in e.value.elts):
        out.extend(e.value.elts)
        self.count += 1
      else:
        out.append(e)
    return out

  def visit_Call(self, node):
    self.generic_visit(node)
    node.args = self._flat(node.args)
    return node

  def visit_Tuple(self, node):
    self.generic_visit(node)
    if isinstance(node.ctx, ast.Load):
      node.elts = self._flat(node.elts)
    return node

  visit_List = visit_Tuple


def flatten_starred_literals(fn) -> int:
  t = _FlattenStarred()
  t.visit(fn)
  return t.count


def eliminate_temps(fn, protect: Set[str] = frozenset()) -> int:
  """Substitutes single-assignment locals into their uses.  Returns the number
  of locals removed."""
  if not isinstance(fn, (ast.FunctionDef, ast.AsyncFunctionDef)):
    return 0
  removed = 0
  _split_parallel(fn)
  for _ in range(4):
    changed = False
    params = {a.arg for a in (fn.args.posonlyargs + fn.args.args +
                              fn.args.kwonlyargs)}
    for a in (fn.args.vararg, fn.args.kwarg):
      if a is not None:
        params.add(a.arg)
    stores: Dict[str, int] = {}
    loads: Dict[str, int] = {}
    captured: Set[str] = set()
    for x in _walk_own(fn):
      if x is fn:
        continue
      if isinstance(x, ast.Name):
        if isinstance(x.ctx, ast.Load):
          loads[x.id] = loads.get(x.id, 0) + 1
        else:
          stores[x.id] = stores.get(x.id, 0) + 1
      elif isinstance(x, (ast.Global, ast.Nonlocal)):
        captured.update(x.names)
      elif isinstance(x, ast.ExceptHandler) and x.name:
        stores[x.name] = stores.get(x.name, 0) + 1
    for x in ast.walk(fn):
      if x is not fn and isinstance(x, _SCOPES):
        for y in ast.walk(x):
          if isinstance(y, ast.Name):
            captured.add(y.id)
    # comprehension-bound names shadow: never touch a name that is a
    # comprehension target anywhere in the function
    for x in _walk_own(fn):
      if isinstance(x, ast.comprehension):
        for y in ast.walk(x.target):
          if isinstance(y, ast.Name):
            captured.add(y.id)
    for block in _blocks(fn):
      i = 0
      while i < len(block):
        st = block[i]
        i += 1
        if not (isinstance(st, ast.Assign) and len(st.targets) == 1 and
                isinstance(st.targets[0], ast.Name)):
          continue
        x = st.targets[0].id
        e = st.value
        if x in params or x in captured or x in protect or stores.get(
            x, 0) != 1 or loads.get(x, 0) == 0:
          continue
        if any(isinstance(z, ast.Lambda) for z in ast.walk(e)):
          continue  # a fresh mutable container / closure is an object, not a view
        rest = block[i:]
        # all uses inside the rest of this block
        uses_rest = [(k, y) for k, s_ in enumerate(rest) for y in _walk_own(s_)
                     if isinstance(y, ast.Name) and y.id == x and
                     isinstance(y.ctx, ast.Load)]
        if len(uses_rest) != loads.get(x, 0):
          continue
        last = max(k for k, _ in uses_rest)
        te = _texts(e)
        if any(te & _written(_may_run_before(rest, k, y))
               for k, y in uses_rest):
          continue
        in_comp = False
        for k, s_ in enumerate(rest[:last + 1]):
          for c in _walk_own(s_):
            if isinstance(c, _COMPS + (ast.IfExp, ast.BoolOp)) and any(
                isinstance(y, ast.Name) and y.id == x for y in ast.walk(c)):
              in_comp = True
        call = _has_call(e)
        heap = any(isinstance(z, (ast.Attribute, ast.Subscript))
                   for z in ast.walk(e))
        if _bound_partial(e) and all(
            _is_callee(y, rest[k]) for k, y in uses_rest):
          # `c = functools.partial(f, a); ... c()`: building the partial has
          # no effect and the object is only ever called - each call reads
          # as f(a) (folded below)
          call = heap = False
        if call and (len(uses_rest) != 1 or in_comp):
          continue
        if call or heap:
          # the expression is evaluated later than it was: no call may run in
          # between (a call can write any attribute / item the expression
          # reads; a moved call must not cross another call)
          ok = True
          for k, y in uses_rest:
            before = _may_run_before(rest, k, y)
            if any(_real_call(s_) for s_ in before if s_ is not rest[k]):
              ok = False
              break
            hdr = _header_exprs(rest[k])
            scope_nodes = [rest[k]] if hdr is None else hdr
            if not any(z is y for h_ in scope_nodes for z in ast.walk(h_)):
              ok = False  # used in the body of a compound statement
              break
            for h_ in scope_nodes:
              for c in ast.walk(h_):
                if isinstance(c, (ast.Call, ast.Await, ast.Yield)) and not any(
                    z is y for z in ast.walk(c)) and _pos(c) <= _pos(y):
                  ok = False
            if isinstance(rest[k], (ast.Assign, ast.AugAssign, ast.AnnAssign,
                                    ast.Delete)) and any(
                                        z is y for t in _targets(rest[k])
                                        for z in ast.walk(t)):
              ok = False
          if not ok:
            continue
        # substitute
        for s_ in rest[:last + 1]:
          _Replace(x, e).visit(s_)
        block.remove(st)
        i -= 1
        removed += 1
        changed = True
        loads[x] = 0
    if not changed:
      break
  # `x = x` left behind by a substitution is a no-op
  for block in _blocks(fn):
    for st in list(block):
      if isinstance(st, ast.Assign) and len(st.targets) == 1 and isinstance(
          st.targets[0], ast.Name) and isinstance(
              st.value, ast.Name) and st.value.id == st.targets[0].id:
        block.remove(st)
        if not block:
          block.append(ast.Pass())
  for x in _walk_own(fn):
    if isinstance(x, ast.If) and len(x.orelse) == 1 and isinstance(
        x.orelse[0], ast.Pass):
      x.orelse = []
  flatten_starred_literals(fn)
  _FoldPartialCalls().visit(fn)
  ast.fix_missing_locations(fn)
  return removed


def _accumulate_shape(body, x):
  """The single accumulating statement of a loop body over accumulator x:
  returns (kind, payload, conditions, inner generators) or None."""
  conds, gens = [], []
  cur = body
  while True:
    # `if c: continue` in front of the rest is `if not c: <rest>`
    while len(cur) >= 2 and isinstance(cur[0], ast.If) and not cur[
        0].orelse and len(cur[0].body) == 1 and isinstance(
            cur[0].body[0], ast.Continue):
      t_ = cur[0].test
      conds.append(t_.operand if isinstance(t_, ast.UnaryOp) and isinstance(
          t_.op, ast.Not) else ast.UnaryOp(op=ast.Not(), operand=t_))
      cur = cur[1:]
    if len(cur) != 1:
      return None
    st = cur[0]
    if isinstance(st, ast.If) and not st.orelse:
      conds.append(st.test)
      cur = st.body
      continue
    if isinstance(st, ast.For) and not st.orelse and not conds:
      return None  # nested loops: keep
    break
  if isinstance(st, ast.Expr) and isinstance(st.value, ast.Call) and isinstance(
      st.value.func, ast.Attribute) and isinstance(
          st.value.func.value, ast.Name) and st.value.func.value.id == x and (
              len(st.value.args) == 1 and not st.value.keywords):
    if st.value.func.attr == 'append':
      return 'list', st.value.args[0], conds, gens
    if st.value.func.attr == 'add':
      return 'set', st.value.args[0], conds, gens
    return None
  if isinstance(st, ast.Assign) and len(st.targets) == 1 and isinstance(
      st.targets[0], ast.Subscript) and isinstance(
          st.targets[0].value, ast.Name) and st.targets[0].value.id == x:
    return 'dict', (st.targets[0].slice, st.value), conds, gens
  return None


def loops_to_comprehensions(fn, accumulate: bool = False) -> int:
  """`x = []; for t in it: [if c:] x.append(e)` -> `x = [e for t in it if c]`
  (and the set / dict forms), when the loop variables are not read after the
  loop and the element expression does not read the accumulator."""
  if not isinstance(fn, (ast.FunctionDef, ast.AsyncFunctionDef)):
    return 0
  n = 0
  for block in _blocks(fn):
    i = 0
    while i + 1 < len(block):
      init, loop = block[i], block[i + 1]
      i += 1
      tgt = None
      if isinstance(init, ast.Assign) and len(init.targets) == 1 and isinstance(
          init.targets[0], ast.Name):
        tgt, val = init.targets[0].id, init.value
      elif isinstance(init, ast.AnnAssign) and isinstance(
          init.target, ast.Name) and init.value is not None:
        tgt, val = init.target.id, init.value
      if tgt is None or not isinstance(loop, ast.For) or loop.orelse:
        continue
      kind0 = None
      if isinstance(val, ast.List) and not val.elts:
        kind0 = 'list'
      elif isinstance(val, ast.Dict) and not val.keys:
        kind0 = 'dict'
      elif isinstance(val, ast.Call) and isinstance(
          val.func, ast.Name) and not val.args and not val.keywords and (
              val.func.id in ('list', 'dict', 'set')):
        kind0 = val.func.id
      acc_init = None
      if kind0 is None and accumulate and isinstance(val, ast.Call):
        # analysis-only form (not source-equivalent in general): an object
        # created by a call and then filled key by key is written
        # __accumulate__(<the call>, {k: v for ...})
        kind0, acc_init = 'dict', val
      if kind0 is None:
        continue
      shape = _accumulate_shape(loop.body, tgt)
      if shape is None or shape[0] != kind0:
        continue
      kind, payload, conds, _ = shape
      reads = [payload] if kind != 'dict' else list(payload)
      if any(isinstance(y, ast.Name) and y.id == tgt
             for e in reads + conds + [loop.iter] for y in ast.walk(e)):
        continue
      loop_names = {y.id for y in ast.walk(loop.target)
                    if isinstance(y, ast.Name)}
      # a later read of a loop variable would see its last value; reads
      # inside another loop / comprehension that binds the name itself do not
      inside = {id(z) for z in ast.walk(loop)}
      rebound = set()
      for o in _walk_own(fn):
        if o is loop:
          continue
        if isinstance(o, (ast.For, ast.AsyncFor)):
          names_o = {t.id for t in ast.walk(o.target)
                     if isinstance(t, ast.Name)}
          for b in o.body:
            for z in ast.walk(b):
              if isinstance(z, ast.Name) and z.id in names_o:
                rebound.add(id(z))
          for z in ast.walk(o.target):
            rebound.add(id(z))
        elif isinstance(o, _COMPS):
          names_o = {t.id for g_ in o.generators for t in ast.walk(g_.target)
                     if isinstance(t, ast.Name)}
          for z in ast.walk(o):
            if isinstance(z, ast.Name) and z.id in names_o:
              rebound.add(id(z))
      leak = any(isinstance(y, ast.Name) and y.id in loop_names and
                 id(y) not in inside and id(y) not in rebound
                 for y in _walk_own(fn))
      if leak:
        continue
      gen = ast.comprehension(target=loop.target, iter=loop.iter, ifs=conds,
                              is_async=0)
      if kind == 'list':
        comp = ast.ListComp(elt=payload, generators=[gen])
      elif kind == 'set':
        comp = ast.SetComp(elt=payload, generators=[gen])
      else:
        comp = ast.DictComp(key=payload[0], value=payload[1], generators=[gen])
      if acc_init is not None:
        comp = ast.Call(func=ast.Name(id='__accumulate__', ctx=ast.Load()),
                        args=[acc_init, comp], keywords=[])
      new = ast.Assign(targets=[ast.Name(id=tgt, ctx=ast.Store())], value=comp)
      ast.copy_location(new, loop)
      block[i - 1:i + 1] = [new]
      n += 1
  ast.fix_missing_locations(fn)
  return n


def unroll_literal_loops(fn) -> int:
  """`for k, v in {K1: V1, K2: V2}.items(): BODY` (the dict written in place
  or held in a local used nowhere else; likewise a literal tuple / list of
  pairs or of single items) -> `t1 = V1; t2 = V2; BODY[k:=K1, v:=t1];
  BODY[k:=K2, v:=t2]`.  All values are still evaluated before the first body
  runs.  The body may not break / continue / rebind the loop variables, and
  the loop variables may not be read after the loop."""
  if not isinstance(fn, (ast.FunctionDef, ast.AsyncFunctionDef)):
    return 0
  count = 0
  for block in _blocks(fn):
    i = 0
    while i < len(block):
      loop = block[i]
      i += 1
      if not isinstance(loop, ast.For) or loop.orelse:
        continue
      it = loop.iter
      src_stmt = None
      lit = it
      items_call = False
      if isinstance(it, ast.Call) and isinstance(
          it.func, ast.Attribute) and it.func.attr == 'items' and not it.args:
        lit, items_call = it.func.value, True
      if isinstance(lit, ast.Name):
        # a local holding the literal, defined just before and used only here
        idx = block.index(loop)
        prev = block[idx - 1] if idx > 0 else None
        uses = [y for y in _walk_own(fn) if isinstance(y, ast.Name) and
                y.id == lit.id]
        if isinstance(prev, ast.Assign) and len(prev.targets) == 1 and (
            isinstance(prev.targets[0], ast.Name)) and (
                prev.targets[0].id == lit.id) and len(uses) == 2:
          src_stmt, lit = prev, prev.value
        else:
          continue
      pairs = None
      if items_call and isinstance(lit, ast.Dict) and all(
          isinstance(k, ast.Constant) for k in lit.keys) and lit.keys:
        pairs = [(k, v) for k, v in zip(lit.keys, lit.values)]
      elif not items_call and isinstance(lit, (ast.Tuple, ast.List)) and (
          lit.elts) and len(lit.elts) <= 8:
        if isinstance(loop.target, ast.Tuple) and all(
            isinstance(e, (ast.Tuple, ast.List)) and len(e.elts) == len(
                loop.target.elts) for e in lit.elts):
          pairs = [tuple(e.elts) for e in lit.elts]
        elif isinstance(loop.target, ast.Name):
          pairs = [(e,) for e in lit.elts]
      if pairs is None or len(pairs) > 8:
        continue
      tnames = [t for t in (loop.target.elts if isinstance(
          loop.target, ast.Tuple) else [loop.target])]
      if not all(isinstance(t, ast.Name) for t in tnames):
        continue
      names = [t.id for t in tnames]
      body_nodes = [x for b in loop.body for x in ast.walk(b)]
      if any(isinstance(x, (ast.Break, ast.Continue, ast.Return, ast.Yield,
                            ast.YieldFrom)) or isinstance(x, _SCOPES) or (
                                isinstance(x, ast.Name) and x.id in names and
                                isinstance(x.ctx, (ast.Store, ast.Del)))
             for x in body_nodes):
        continue
      inside = {id(z) for z in ast.walk(loop)}
      if any(isinstance(y, ast.Name) and y.id in names and id(y) not in inside
             and isinstance(y.ctx, ast.Load) for y in _walk_own(fn)):
        continue
      count += 1
      new = []
      bound = []
      for j, tup in enumerate(pairs):
        row = []
        for nm, e in zip(names, tup):
          if isinstance(e, (ast.Constant, ast.Name)):
            row.append(e)
          else:
            t = f'{nm}__item{j}_{count}'
            a = ast.Assign(targets=[ast.Name(id=t, ctx=ast.Store())], value=e)
            ast.copy_location(a, loop)
            new.append(a)
            row.append(ast.Name(id=t, ctx=ast.Load()))
        bound.append(row)
      for row in bound:
        for st in loop.body:
          cp = copy.deepcopy(st)
          for nm, e in zip(names, row):
            cp = _Replace(nm, e).visit(cp)
          new.append(cp)
      idx = block.index(loop)
      if src_stmt is not None:
        block[idx - 1:idx + 1] = new
        i = idx - 1 + len(new)
      else:
        block[idx:idx + 1] = new
        i = idx + len(new)
  ast.fix_missing_locations(fn)
  return count


def fold_constant_branches(fn) -> int:
  """`x = True; ...; if x: A else: B` -> `x = True; ...; A` when nothing
  between the assignment and the test (same block) can rebind x."""
  if not isinstance(fn, (ast.FunctionDef, ast.AsyncFunctionDef)):
    return 0
  n_fold = 0
  changed = True
  while changed:
    changed = False
    for block in _blocks(fn):
      for i, st in enumerate(block):
        if not (isinstance(st, ast.Assign) and len(st.targets) == 1 and
                isinstance(st.targets[0], ast.Name) and isinstance(
                    st.value, ast.Constant) and isinstance(
                        st.value.value, (bool, type(None)))):
          continue
        x, val = st.targets[0].id, bool(st.value.value)
        for j in range(i + 1, len(block)):
          nxt = block[j]
          if isinstance(nxt, ast.If):
            t, neg = nxt.test, False
            if isinstance(t, ast.UnaryOp) and isinstance(t.op, ast.Not):
              t, neg = t.operand, True
            if isinstance(t, ast.Name) and t.id == x:
              taken = nxt.body if (val != neg) else nxt.orelse
              block[j:j + 1] = taken or [ast.copy_location(ast.Pass(), nxt)]
              n_fold += 1
              changed = True
              break
          if any(isinstance(y, ast.Name) and y.id == x and isinstance(
              y.ctx, (ast.Store, ast.Del)) for y in ast.walk(nxt)):
            break
          if isinstance(nxt, (ast.FunctionDef, ast.ClassDef)):
            break
        if changed:
          break
      if changed:
        break
  if n_fold:
    ast.fix_missing_locations(fn)
  return n_fold


def sink_selected_calls(fn) -> int:
  """`if a: f = g  elif b: f = h  else: f = None` directly followed by
  `if f is not None: return f(args)` (f used nowhere else): each `f = g`
  becomes `return g(args)`, `f = None` falls through.  The call happens where
  it happened, with the same callee and the same arguments."""
  if not isinstance(fn, (ast.FunctionDef, ast.AsyncFunctionDef)):
    return 0
  count = 0
  for block in _blocks(fn):
    i = 0
    while i + 1 < len(block):
      sel, use = block[i], block[i + 1]
      i += 1
      if not (isinstance(sel, ast.If) and isinstance(use, ast.If) and
              not use.orelse and len(use.body) == 1 and isinstance(
                  use.body[0], ast.Return) and isinstance(
                      use.body[0].value, ast.Call) and isinstance(
                          use.body[0].value.func, ast.Name)):
        continue
      f = use.body[0].value.func.id
      t = use.test
      if not (isinstance(t, ast.Compare) and len(t.ops) == 1 and isinstance(
          t.ops[0], ast.IsNot) and isinstance(t.left, ast.Name) and
              t.left.id == f and isinstance(t.comparators[0], ast.Constant)
              and t.comparators[0].value is None):
        continue
      call = use.body[0].value
      if any(isinstance(x, ast.Name) and x.id == f
             for a in list(call.args) + [k.value for k in call.keywords]
             for x in ast.walk(a)):
        continue
      # every leaf of the selecting chain is exactly one `f = <name | None>`
      leaves = []

      def collect(stmts):
        if len(stmts) == 1 and isinstance(stmts[0], ast.If):
          return collect(stmts[0].body) and collect(stmts[0].orelse)
        if len(stmts) == 1 and isinstance(stmts[0], ast.Assign) and len(
            stmts[0].targets) == 1 and isinstance(
                stmts[0].targets[0], ast.Name) and (
                    stmts[0].targets[0].id == f) and (isinstance(
                        stmts[0].value, ast.Name) or (isinstance(
                            stmts[0].value, ast.Constant) and
                                                      stmts[0].value.value
                                                      is None)):
          leaves.append((stmts, stmts[0]))
          return True
        return False

      if not (collect(sel.body) and collect(sel.orelse)):
        continue
      n_uses = sum(1 for x in _walk_own(fn) if isinstance(x, ast.Name) and
                   x.id == f)
      if n_uses != len(leaves) + 2:
        continue
      for stmts, a in leaves:
        if isinstance(a.value, ast.Name):
          c2 = copy.deepcopy(call)
          c2.func = ast.copy_location(ast.Name(id=a.value.id, ctx=ast.Load()),
                                      call.func)
          stmts[0] = ast.copy_location(ast.Return(value=c2), a)
        else:
          stmts[0] = ast.copy_location(ast.Pass(), a)
      block.remove(use)
      count += 1
  if count:
    ast.fix_missing_locations(fn)
  return count


def dispatch_table_calls(fn) -> int:
  """`h = {'a': f, 'b': g}.get(x)` / `if h is None: <raise ...>` / `h(args)`
  (h used nowhere else) reads as `if x == 'a': f(args) elif x == 'b': g(args)
  else: <raise ...>`: the table's values are plain names / attributes, so
  looking them up eagerly or at the branch is the same."""
  if not isinstance(fn, (ast.FunctionDef, ast.AsyncFunctionDef)):
    return 0
  count = 0
  for block in _blocks(fn):
    i = 0
    while i + 2 < len(block) + 0 and i + 2 <= len(block) - 1:
      a, guard, use = block[i], block[i + 1], block[i + 2]
      i += 1
      if not (isinstance(a, ast.Assign) and len(a.targets) == 1 and isinstance(
          a.targets[0], ast.Name) and isinstance(a.value, ast.Call) and
              isinstance(a.value.func, ast.Attribute) and
              a.value.func.attr == 'get' and isinstance(
                  a.value.func.value, ast.Dict) and len(a.value.args) == 1 and
              isinstance(a.value.args[0], ast.Name)):
        continue
      h, d, x = a.targets[0].id, a.value.func.value, a.value.args[0]
      if not (d.keys and all(isinstance(k, ast.Constant) for k in d.keys) and
              all(isinstance(v, (ast.Name, ast.Attribute)) and not any(
                  isinstance(z, (ast.Call, ast.Subscript)) for z in ast.walk(v))
                  for v in d.values)):
        continue
      t = guard.test if isinstance(guard, ast.If) else None
      if not (isinstance(t, ast.Compare) and len(t.ops) == 1 and isinstance(
          t.ops[0], ast.Is) and isinstance(t.left, ast.Name) and
              t.left.id == h and isinstance(t.comparators[0], ast.Constant) and
              t.comparators[0].value is None and not guard.orelse and
              guard.body and isinstance(guard.body[-1], (ast.Raise,
                                                        ast.Return))):
        continue
      call = use.value if isinstance(use, (ast.Expr, ast.Return)) else None
      if not (isinstance(call, ast.Call) and isinstance(
          call.func, ast.Name) and call.func.id == h):
        continue
      n_uses = sum(1 for z in _walk_own(fn) if isinstance(z, ast.Name) and
                   z.id == h)
      if n_uses != 3 or any(isinstance(z, ast.Name) and z.id == h
                            for arg in list(call.args) + [
                                k.value for k in call.keywords]
                            for z in ast.walk(arg)):
        continue
      chain = list(guard.body)
      for k, v in reversed(list(zip(d.keys, d.values))):
        c2 = copy.deepcopy(call)
        c2.func = copy.deepcopy(v)
        st = ast.Return(value=c2) if isinstance(use, ast.Return) else ast.Expr(
            value=c2)
        test = ast.Compare(left=copy.deepcopy(x), ops=[ast.Eq()],
                           comparators=[copy.deepcopy(k)])
        chain = [ast.If(test=test, body=[st], orelse=chain)]
      new = chain[0]
      ast.copy_location(new, a)
      idx = block.index(a)
      block[idx:idx + 3] = [new]
      count += 1
  if count:
    ast.fix_missing_locations(fn)
  return count
