"""C13 - the generated fiddler does what apply_diff does."""
from __future__ import annotations

import ast
from typing import Dict, List, Optional, Set, Tuple

from fdlstatic import cfg as cfg_lib
from fdlstatic.ctx import Ctx, kwarg
from fdlstatic.model import AnalysisError, FuncInfo, norm_text, unparse, walk_function, walk_stmts
from fdlstatic import roles
from fdlstatic.report import RuleSet
from fdlstatic.rules import c10, c14

CD = 'fiddle._src.codegen.codegen_diff'
D = 'fiddle._src.diffing'

EXPLANATION = (
    'Static clauses of C13 decided on the current source: (ORD) the '
    'statement sections of the emitted fiddler are ordered so that every '
    'variable a section may mention is defined by an earlier section: the '
    'alias variables for moved / original parts of the old configuration '
    '(which mention only the fiddler parameter) come before the '
    'new-shared-value variables (whose expressions may mention aliases and '
    'other shared values through the Reference converter), those are emitted '
    'in an order that respects references among them, and both precede the '
    'changes; (ORD) within one parent deletions and tag removals are emitted '
    'before the update_callable call and assignments / tag additions after '
    'it - the same precedence pairs as apply_diff; (EXH) the change '
    'dispatcher covers exactly the DiffOperation subclasses and ends in '
    'raise, the child-expression helper covers Attr / Index / Key and ends '
    'in raise, each operation kind is emitted as the statement apply() '
    'performs (del / assignment / update_callable / add_tag / remove_tag with '
    'parent, name, tag); names of all emitted variables come from the '
    'namespace allocator; (KD) the Buildable converter\'s use of argument '
    'keys - known finding for positional arguments. Not decided: equality of '
    'the fiddler\'s effect with apply_diff for every diff.')
ASSUMPTIONS = [
    'libcst renders the constructed nodes faithfully',
    'diffs produced by build_diff list new shared values dependencies-first',
]


def run(ctx: Ctx, rs: RuleSet, tier: str):
  p = ctx.p
  ff = ctx.func(f'{CD}.fiddler_from_diff')
  g = ctx.cfg(ff)

  # ---- ORD: sections
  rule = 'ORD.fiddler-sections'
  rs.declare(rule, 'every variable a section may mention is defined by an '
             'earlier section (or earlier in the same one)', 3)
  # converter closure: which name tables can a converted value mention?
  ref_tables: Set[str] = set()

  def closure_tables(fn, rename):
    for c in ctx.calls(fn):
      if unparse(c.func).endswith('partial') and c.args and p.resolve(
          c.args[0], fn) == f'{CD}._convert_reference':
        for k in c.keywords:
          if isinstance(k.value, ast.Name) and k.arg != 'param_name':
            nm = rename(k.value.id)
            if nm:
              ref_tables.add(nm)

  closure_tables(ff, lambda x: x)
  if len(ref_tables) < 2:
    # the converter may be put together by a private helper that receives the
    # name tables as arguments
    for c2 in ctx.calls(ff):
      h = p.funcs.get(p.resolve(c2.func, ff) or '')
      if h is None or h.is_lambda or h.module is not ff.module or h is ff:
        continue
      b = ctx.bound_args(c2, ff)
      if not b:
        continue
      closure_tables(h, lambda x, b=b: b[x].id if isinstance(
          b.get(x), ast.Name) else None)
  if len(ref_tables) < 2:
    raise AnalysisError('Reference converter closure not understood')
  # the statement list of the fiddler: the local that the section helpers'
  # results are appended to (`<body> += _cst_for_...(...)`)
  by_target: Dict[str, list] = {}
  for n in g.nodes():
    st = g.stmt[n]
    if isinstance(st, ast.AugAssign) and isinstance(
        st.op, ast.Add) and isinstance(st.value, ast.Call) and isinstance(
            st.target, ast.Name):
      q = p.resolve(st.value.func, ff)
      if q in p.funcs and q.startswith(CD + '.'):
        by_target.setdefault(st.target.id, []).append(
            (n, p.funcs[q], st.value))
  sections = max(by_target.values(), key=len) if by_target else []
  sections.sort(key=lambda s: s[0])
  # CFG order == statement order here (straight-line); verify
  for (a, _, _), (b, _, _) in zip(sections, sections[1:]):
    if not g.dominated_by(b, {a}, labels=cfg_lib.NO_EXC):
      raise AnalysisError('fiddler sections are not straight-line code')
  if len(sections) < 3:
    raise AnalysisError(f'expected >=3 body sections, found {len(sections)}')

  def section_info(sf: FuncInfo, call: ast.Call):
    """(table defined, mentions references?, keeps input order / ordered)."""
    # map callee params -> caller arg names
    argmap = {}
    for i, a in enumerate(call.args):
      if i < len(sf.params) and isinstance(a, ast.Name):
        argmap[sf.params[i]] = a.id
    for k in call.keywords:
      if isinstance(k.value, ast.Name):
        argmap[k.arg] = k.value.id
    defines = None
    # cst.Assign(targets=[cst.AssignTarget(target=cst.Name(<name var>))] ...)
    for n in walk_function(sf.node):
      if isinstance(n, ast.Call) and unparse(n.func) == 'cst.AssignTarget':
        tgt = kwarg(n, 'target') or (n.args[0] if n.args else None)
        if isinstance(tgt, ast.Call) and unparse(tgt.func) == 'cst.Name':
          names = {x.id for x in ast.walk(tgt.args[0])
                   if isinstance(x, ast.Name)}
          # close over loop variables and single local assignments
          for _ in range(3):
            for L in walk_function(sf.node):
              if isinstance(L, (ast.For, ast.comprehension)):
                tg = {x.id for x in ast.walk(L.target)
                      if isinstance(x, ast.Name)}
                if tg & names:
                  names |= {x.id for x in ast.walk(L.iter)
                            if isinstance(x, ast.Name)}
              elif isinstance(L, ast.Assign) and isinstance(
                  L.targets[0], ast.Name) and L.targets[0].id in names:
                names |= {x.id for x in ast.walk(L.value)
                          if isinstance(x, ast.Name)}
          for pn in sf.params:
            if pn in names and argmap.get(pn) in ref_tables:
              defines = argmap[pn]
    # mentions references: calls its pyval_to_cst parameter directly on a
    # value (not only through the path helper on keys / indices)
    conv = [pn for pn in sf.params if 'pyval_to_cst' in pn or 'convert' in pn]
    mentions = False
    for n in walk_function(sf.node):
      if isinstance(n, ast.Call) and isinstance(
          n.func, ast.Name) and n.func.id in conv:
        mentions = True
    return defines, mentions, argmap

  defined: List[str] = []
  for n, sf, call in sections:
    defines, mentions, argmap = section_info(sf, call)
    key = f'{ff.qualname}:section {sf.name}'
    if mentions:
      missing = sorted(t for t in ref_tables
                       if t not in defined and t != defines)
      rs.check(not missing, rule, key,
               f'may mention {sorted(ref_tables)}; defined before: '
               f'{defined}' + (f'; defines {defines}' if defines else '')
               if not missing else
               f'expressions emitted here may name variables from '
               f'{missing}, which are only defined by a later section: the '
               'fiddler would raise UnboundLocalError', ctx.loc(ff, call))
      if defines in ref_tables:
        # self-references: the emission order must respect references
        sorts = [c for c in walk_function(sf.node) if isinstance(c, ast.Call)
                 and ((isinstance(c.func, ast.Name) and c.func.id == 'sorted')
                      or (isinstance(c.func, ast.Attribute) and
                          c.func.attr == 'sort'))]
        inspects_refs = False
        closure = ctx.cg.reachable([sf.qualname],
                                   kinds=('exact', 'nested', 'ref'))
        for cq in closure:
          cf = p.funcs.get(cq)
          if cf is None or not cf.qualname.startswith(CD):
            continue
          src = unparse(cf.node)
          if 'Reference' in src and 'new_shared_values' in src:
            inspects_refs = True
        ok = not sorts or inspects_refs
        rs.check(ok, rule, key + ':self-order',
                 'variables of this section may reference each other; the '
                 'emission order ' + ('follows the references'
                                      if inspects_refs else
                                      'is the order of the diff '
                                      '(dependencies first)') if ok else
                 'variables of this section may reference each other but '
                 'they are emitted sorted by name without looking at the '
                 'references: `shared_a = ...shared_b...` can precede '
                 '`shared_b = ...`', ctx.loc(sf, sf.node))
    else:
      rs.ok(rule, key, 'mentions only the fiddler parameter' + (
          f'; defines {defines}' if defines else ''), ctx.loc(ff, call))
    if defines:
      defined.append(defines)

  # ---- per-parent order in _cst_for_changes
  rule = 'ORD.per-parent-order'
  rs.declare(rule, 'deletes / tag removals, then update_callable, then '
             'assignments / tag additions', 3)
  cc = ctx.func(f'{CD}._cst_for_changes')
  g = ctx.cfg(cc)

  def nodes_with(pred):
    return [n for n in g.nodes() if any(pred(e) for e in cfg_lib.walk_node(g, n))]

  # roles: <body>.extend(<first group>); <body>.append(<callable update>);
  # <body>.extend(<second group>) - found by shape, the first extension is the
  # one that dominates the other
  ext = []  # (node, receiver, argument)
  app = []
  for n in g.nodes():
    for e in cfg_lib.walk_node(g, n):
      if isinstance(e, ast.Call) and isinstance(
          e.func, ast.Attribute) and isinstance(
              e.func.value, ast.Name) and len(e.args) == 1 and isinstance(
                  e.args[0], ast.Name):
        if e.func.attr == 'extend':
          ext.append((n, e.func.value.id, e.args[0].id))
        elif e.func.attr == 'append':
          app.append((n, e.func.value.id, e.args[0].id))
  D = A = U = BODY = None
  for n1, r1, x1 in ext:
    for n2, r2, x2 in ext:
      if r1 == r2 and x1 != x2 and g.dominated_by(n2, {n1},
                                                   labels=cfg_lib.NO_EXC):
        BODY, D, A = r1, x1, x2
  ext_del = [n for n, r, x in ext if r == BODY and x == D]
  ext_asg = [n for n, r, x in ext if r == BODY and x == A]
  app_uc = [n for n, r, x in app if r == BODY]
  if app_uc:
    U = [x for n, r, x in app if r == BODY][0]
  ok = bool(ext_del) and bool(ext_asg) and bool(app_uc) and all(
      g.dominated_by(u, set(ext_del), labels=cfg_lib.NO_EXC) for u in app_uc
  ) and all(
      u not in g.reach([a for a in ext_asg], labels=cfg_lib.NO_EXC,
                       edge_ok=lambda a, b, lab: g.kind[b] != 'for')
      for u in app_uc) and all(
          g.dominated_by(a, set(ext_del), labels=cfg_lib.NO_EXC)
          for a in ext_asg)
  if not ok:
    # the same sequence written as one concatenation:
    # <body>.extend(<first> + [<update>] + <second>) / [*first, *opt, *second],
    # with the update left out only where there is none
    from fdlstatic import dispatch as _dp

    def _chain(e):
      """Operands of a concatenation, as (text, kind) with kind 'list' (a
      list-valued place), 'one' ([x]), 'opt' ([] if x is None else [x])."""
      if isinstance(e, ast.BinOp) and isinstance(e.op, ast.Add):
        return _chain(e.left) + _chain(e.right)
      if isinstance(e, ast.List) and e.elts and all(
          isinstance(x, ast.Starred) for x in e.elts):
        return [y for x in e.elts for y in _chain(x.value)]
      if isinstance(e, ast.List) and len(e.elts) == 1 and not isinstance(
          e.elts[0], ast.Starred):
        return [(unparse(e.elts[0]), 'one')]
      if isinstance(e, ast.IfExp):
        t, a_, b_ = e.test, e.body, e.orelse
        if isinstance(t, ast.Compare) and len(t.ops) == 1 and isinstance(
            t.comparators[0], ast.Constant) and (
                t.comparators[0].value is None):
          some, none = (b_, a_) if isinstance(t.ops[0], ast.Is) else (a_, b_)
          if isinstance(none, ast.List) and not none.elts and isinstance(
              some, ast.List) and len(some.elts) == 1 and unparse(
                  some.elts[0]) == unparse(t.left):
            return [(unparse(t.left), 'opt')]
        return [(unparse(e), 'other')]
      if isinstance(e, (ast.Name, ast.Attribute)):
        return [(unparse(e), 'list')]
      return [(unparse(e), 'other')]

    all_ext = []
    for n in g.nodes():
      for e in cfg_lib.walk_node(g, n):
        if isinstance(e, ast.Call) and isinstance(
            e.func, ast.Attribute) and e.func.attr == 'extend' and isinstance(
                e.func.value, ast.Name) and len(e.args) == 1:
          all_ext.append((n, e.func.value.id, e.args[0]))
    for n, r, xa in all_ext:
      if isinstance(xa, ast.Name):
        rd = roles.reaching(g, n, xa.id)
        if not rd or any(k != 'value' for _, k, _ in rd):
          continue
        chains = [(dn, _chain(v)) for dn, _, v in rd]
      else:
        chains = [(n, _chain(xa))]
      full = [c_ for _, c_ in chains if len(c_) == 3 and c_[0][1] == 'list' and
              c_[2][1] == 'list' and c_[1][1] in ('one', 'opt')]
      if not full:
        continue
      d_, u_, a_ = full[0][0][0], full[0][1][0], full[0][2][0]

      def _no_update(t, u_=u_):
        if isinstance(t, ast.Compare) and len(t.ops) == 1 and unparse(
            t.left) == u_ and isinstance(
                t.comparators[0], ast.Constant) and (
                    t.comparators[0].value is None):
          if isinstance(t.ops[0], ast.Is):
            return False   # evaluated for `there is an update`
          if isinstance(t.ops[0], ast.IsNot):
            return True
        return None

      with_update = _dp.reach_atoms(g, _no_update)
      good = True
      for dn, c_ in chains:
        texts = [x[0] for x in c_]
        if texts == [d_, u_, a_] and c_[1][1] in ('one', 'opt'):
          continue
        if texts == [d_, a_] and dn not in with_update:
          continue
        good = False
      if good and d_ != a_:
        BODY, D, A, U = r, d_, a_, u_
        ok = True
        break
  rs.check(ok, rule, f'{cc.qualname}:emission',
           'body.extend(deletes) -> update_callable -> body.extend(assigns) '
           'for each parent', ctx.loc(cc, cc.node))
  # classification of operations into the two groups: which list receives an
  # append on the paths taken for a change of each operation class
  from fdlstatic import dispatch
  groups: Dict[str, str] = {}
  change_subj = None
  for n in walk_function(cc.node):
    if isinstance(n, ast.Call) and unparse(n.func) == 'isinstance' and len(
        n.args) == 2 and set(dispatch.class_names(n.args[1])) & set(
            c10.op_classes(ctx)):
      change_subj = unparse(n.args[0])

  def _appends_to(node_id, lst):
    return any(isinstance(e, ast.Call) and isinstance(
        e.func, ast.Attribute) and e.func.attr == 'append' and unparse(
            e.func.value) == lst for e in cfg_lib.walk_node(g, node_id))

  for grp, lst in (('deletes', D), ('assigns', A)):
    if lst is None:
      continue
    hit = dispatch.only_for(g, change_subj, list(c10.op_classes(ctx)),
                            lambda n_, lst=lst: _appends_to(n_, lst))
    for k, nodes in hit.items():
      if nodes:
        groups[k] = grp
  want = {'DeleteValue': 'deletes', 'RemoveTag': 'deletes',
          'SetValue': 'assigns', 'ModifyValue': 'assigns', 'AddTag': 'assigns'}
  rs.check(groups == want, rule, f'{cc.qualname}:groups',
           f'operation groups {groups}', ctx.loc(cc, cc.node))
  ok = any(isinstance(n, ast.If) and 'BuildableFnOrCls' in unparse(n.test) and
           any(isinstance(st, ast.Assign) and unparse(st.targets[0]) == U and
               'update_callable' in unparse(st.value) for st in n.body)
           for n in walk_function(cc.node))
  rs.check(ok, rule, f'{cc.qualname}:callable',
           'a change of the callable is emitted as update_callable(parent, '
           'new)', ctx.loc(cc, cc.node))

  # ---- EXH
  rule = 'EXH.fiddler-dispatch'
  rs.declare(rule, 'change and child dispatch cover the operation / element '
             'families and end in raise', 3)
  ops = set(c10.op_classes(ctx))
  covered = set(dispatch.tested_classes(cc.node, change_subj)) & ops
  # a change of none of the known classes raises before the next iteration of
  # the per-change loop (isinstance tests about something else than the
  # change - e.g. the kind of its last path element - are taken as false)
  def _ev(test, subj, kind):
    if isinstance(test, ast.Call) and unparse(test.func) == 'isinstance' and (
        len(test.args) == 2 and unparse(test.args[0]) != subj):
      return False
    if isinstance(test, ast.UnaryOp) and isinstance(test.op, ast.Not):
      v = _ev(test.operand, subj, kind)
      return None if v is None else not v
    if isinstance(test, ast.BoolOp):
      vals = [_ev(v, subj, kind) for v in test.values]
      if isinstance(test.op, ast.And):
        return False if any(v is False for v in vals) else (
            True if all(v is True for v in vals) else None)
      return True if any(v is True for v in vals) else (
          False if all(v is False for v in vals) else None)
    return dispatch.eval_test(test, subj, kind)

  chain_raises = False
  inner = [n for n in g.nodes() if g.kind[n] == 'for' and unparse(
      g.stmt[n].target) == (change_subj or '')]
  if inner:
    h = inner[0]
    seen = set()
    stack = [m for m, lab in g.succ[h] if lab == 'iter']
    back = False
    while stack:
      n = stack.pop()
      if n in seen:
        continue
      seen.add(n)
      if n == h:
        back = True
        continue
      v = _ev(g.stmt[n].test, change_subj, None) if g.kind[n] == 'if' else None
      for m, lab in g.succ[n]:
        if lab == 'exc' or (v is True and lab == 'false') or (
            v is False and lab == 'true'):
          continue
        stack.append(m)
    chain_raises = not back and any(isinstance(g.stmt[n], ast.Raise)
                                    for n in seen)
  rs.check(covered == ops and chain_raises, rule, f'{cc.qualname}:operations',
           f'covers {sorted(covered)} of {sorted(ops)}; default raises',
           ctx.loc(cc, cc.node))
  ch = ctx.func(f'{CD}._cst_for_child')
  ok, kinds = c10.dispatch_ends_in_raise(ch)
  rs.check(ok and {'Attr', 'Index', 'Key'} <= set(kinds), rule, ch.qualname,
           f'covers {kinds}; default raises', ctx.loc(ch, ch.node))
  # statement kinds
  src = unparse(cc.node)
  rs.check('cst.Del(' in src and 'cst.Assign(' in src and
           'tagging.remove_tag' in src and 'tagging.add_tag' in src and
           'mutate_buildable.update_callable' in src, rule,
           f'{cc.qualname}:statements',
           'emits del / assignment / update_callable / add_tag / remove_tag',
           ctx.loc(cc, cc.node), nontrivial=False)

  # ---- which paths get a moved_ alias: every value-replacing operation
  rule = 'EXH.modified-paths'
  rs.declare(rule, 'the paths whose old values need an alias include the '
             'target of every operation that replaces or removes a value', 1)
  tag_ops = set()
  for name, q in c10.op_classes(ctx).items():
    ap = ctx.p.find_method(q, 'apply')
    if ap is not None and any(
        isinstance(c, ast.Call) and unparse(c.func).endswith(
            ('add_tag', 'remove_tag')) for c in walk_function(ap.node)):
      tag_ops.add(name)
  value_ops = set(c10.op_classes(ctx)) - tag_ops
  aliased = [c.args[0].id for c in ctx.calls(ff) if unparse(c.func).endswith(
      '_add_path_aliases') and c.args and isinstance(c.args[0], ast.Name)]
  if len(set(aliased)) != 1 or len(value_ops) < 3:
    raise AnalysisError('fiddler_from_diff: the modified-paths set (argument '
                        'of _add_path_aliases) or the operation classes were '
                        'not found')
  mp = aliased[0]
  defs = [n for n in walk_function(ff.node) if isinstance(n, ast.Assign) and
          any(isinstance(t, ast.Name) and t.id == mp for t in n.targets)]
  covered = None
  why = ''
  if len(defs) == 1:
    v = defs[0].value
    if isinstance(v, ast.Call) and unparse(v.func) in ('set', 'frozenset') and (
        len(v.args) == 1):
      v = v.args[0]
    if isinstance(v, (ast.ListComp, ast.SetComp, ast.GeneratorExp)) and len(
        v.generators) == 1 and unparse(v.generators[0].iter).endswith(
            '.changes') and unparse(v.elt) == (
                unparse(v.generators[0].target) + '.target'):
      covered = set(value_ops) | tag_ops
      for cond in v.generators[0].ifs:
        neg = False
        t = cond
        while isinstance(t, ast.UnaryOp) and isinstance(t.op, ast.Not):
          t, neg = t.operand, not neg
        names = c10.isinstance_names(t)
        if not names or not isinstance(t, ast.Call):
          covered = None  # a filter this rule cannot interpret
          break
        covered = covered - names if neg else covered & names
  if covered is None:
    raise AnalysisError(
        f'fiddler_from_diff: cannot interpret how `{mp}` is computed')
  missing = sorted(value_ops - covered)
  rs.check(not missing, rule, f'{ff.qualname}:{mp}',
           f'`{mp}` holds the targets of {sorted(covered & value_ops)}'
           if not missing else
           f'`{mp}` leaves out the targets of {missing}: a value under such a '
           'path that the diff still refers to gets no `moved_` alias, and the '
           'emitted fiddler reads it after the statement that removed or '
           'replaced it', ctx.loc(ff, defs[0]))

  # ---- alias names start with the ObjectToName prefix (a valid identifier
  # start, whatever the path elements look like)
  rule = 'LIT.alias-name-prefix'
  rs.declare(rule, 'every suggested alias name is <prefix> + ..., so it '
             'starts with a letter even when the path ends in an index or a '
             'digit-leading key', 2)

  def _prefixed(f, e, depth=0):
    if depth > 5:
      return False
    while isinstance(e, ast.BinOp) and isinstance(e.op, ast.Add):
      e = e.left
    if isinstance(e, ast.Attribute) and e.attr == 'prefix':
      return True
    if isinstance(e, ast.JoinedStr) and e.values and isinstance(
        e.values[0], ast.FormattedValue):
      return _prefixed(f, e.values[0].value, depth + 1)
    if isinstance(e, ast.Name):
      defs = roles.defs_of(f, e.id)
      if defs:
        return all(_prefixed(f, d, depth + 1) for d in defs)
      # key of a dict whose keys are all prefixed: for k, v in D.items()
      for L in walk_function(f.node):
        if isinstance(L, ast.For) and isinstance(
            L.target, ast.Tuple) and L.target.elts and unparse(
                L.target.elts[0]) == e.id and isinstance(
                    L.iter, ast.Call) and isinstance(
                        L.iter.func, ast.Attribute) and (
                            L.iter.func.attr == 'items'):
          D = unparse(L.iter.func.value)
          keys = []
          for c in walk_function(f.node):
            if isinstance(c, ast.Call) and isinstance(
                c.func, ast.Attribute) and c.func.attr == 'setdefault' and (
                    unparse(c.func.value) == D) and c.args:
              keys.append(c.args[0])
            if isinstance(c, ast.Assign) and isinstance(
                c.targets[0], ast.Subscript) and unparse(
                    c.targets[0].value) == D:
              keys.append(c.targets[0].slice)
          return bool(keys) and all(_prefixed(f, k, depth + 1) for k in keys)
    return False

  for q in (f'{CD}.assign_explicit_names', f'{CD}.assign_short_names'):
    f = ctx.func(q)
    produced = []
    for r in walk_function(f.node):
      if isinstance(r, ast.Return) and isinstance(r.value, ast.ListComp):
        elt = r.value.elt
        if isinstance(elt, ast.Subscript):
          # looked up in a table filled earlier: check what was stored
          tbl = unparse(elt.value)
          for st in walk_function(f.node):
            if isinstance(st, ast.Assign) and isinstance(
                st.targets[0], ast.Subscript) and unparse(
                    st.targets[0].value) == tbl:
              produced.append(st.value)
        else:
          produced.append(elt)
    bad = [e for e in produced if not _prefixed(f, e)]
    rs.check(bool(produced) and not bad, rule, q,
             f'{len(produced)} name expression(s), all starting with the '
             'prefix' if produced and not bad else
             (f'`{unparse(bad[0])[:60]}` is suggested as a variable name '
              'without the prefix: for a path ending in `[0][\'attn\']` the '
              'name is `0_attn`, not an identifier - fiddler_from_diff fails '
              'in that naming mode' if bad else 'no name expression found'),
             ctx.loc(f, bad[0] if bad else f.node))

  # ---- optional lookups of configuration values are tested by identity
  rule = 'NONE.lookup-by-identity'
  rs.declare(rule, 'a value looked up with .get() (None = absent) is tested '
             'with `is None` / `is not None`, never by truthiness', 1)
  n_lookups = 0
  for f in ctx.mod(CD).all_funcs:
    if f.is_lambda:
      continue
    opt = roles.assigned_from(f, lambda e: isinstance(e, ast.Call) and isinstance(
        e.func, ast.Attribute) and e.func.attr == 'get' and (
            len(e.args) == 1 or (len(e.args) == 2 and isinstance(
                e.args[1], ast.Constant) and e.args[1].value is None)))
    if not opt:
      continue

    def truth_uses(test):
      # names used as a truth value: the whole test, operands of not/and/or
      out = []
      stack = [test]
      while stack:
        t = stack.pop()
        if isinstance(t, ast.Name):
          out.append(t)
        elif isinstance(t, ast.UnaryOp) and isinstance(t.op, ast.Not):
          stack.append(t.operand)
        elif isinstance(t, ast.BoolOp):
          stack += t.values
      return out

    for n in walk_function(f.node):
      test = getattr(n, 'test', None) if isinstance(
          n, (ast.If, ast.While, ast.IfExp, ast.Assert)) else None
      if test is None:
        continue
      ident = [c for c in ast.walk(test) if isinstance(c, ast.Compare) and
               isinstance(c.left, ast.Name) and c.left.id in opt and
               isinstance(c.ops[0], (ast.Is, ast.IsNot))]
      bad = [u for u in truth_uses(test) if u.id in opt]
      for c in ident:
        n_lookups += 1
        rs.ok(rule, f'{f.qualname}:`{norm_text(f, c)}`',
              'tested by identity with None', ctx.loc(f, c))
      for u in bad:
        n_lookups += 1
        rs.fail(rule, f'{f.qualname}:truthiness of `{norm_text(f, u)}`',
                f'`{u.id}` comes from .get() and is tested by truthiness: an '
                'empty list / dict / tuple found under the path counts as '
                '"absent", so its alias paths are not recorded and the '
                'fiddler reads the value after it was replaced',
                ctx.loc(f, u))
  if n_lookups == 0:
    # nothing is looked up optionally any more: nothing to test by identity
    rs.ok(rule, f'{CD}:none', 'no optional (.get) lookup of a configuration '
          'value is tested in this module', '', nontrivial=False)
  # ---- alias groups: a shared value's other paths are recorded when *any* of
  # its paths is modified
  rule = 'QUANT.alias-group-membership'
  rs.declare(rule, 'the paths of a shared value are added when any one of them '
             'is among the modified paths', 1)
  ap = ctx.func(f'{CD}._add_path_aliases')
  pset = ap.params[0]
  one_member = [c for c in walk_function(ap.node) if isinstance(
      c, ast.Compare) and len(c.ops) == 1 and isinstance(
          c.ops[0], (ast.In, ast.NotIn)) and unparse(
              c.comparators[0]) == pset and isinstance(
                  c.left, ast.Subscript) and isinstance(
                      c.left.slice, ast.Constant)]
  updates = [c for c in walk_function(ap.node) if isinstance(c, ast.Call) and
             isinstance(c.func, ast.Attribute) and c.func.attr in (
                 'update', 'add', '__ior__') and unparse(c.func.value) == pset]
  updates += [c for c in walk_function(ap.node) if isinstance(
      c, ast.AugAssign) and unparse(c.target) == pset]
  rs.check(bool(updates) and not one_member, rule, ap.qualname,
           'alias paths are added for every modified path of a shared value'
           if updates and not one_member else
           (f'`{unparse(one_member[0])}` asks about one fixed member of the '
            'group only: when a value is modified through another of its '
            'paths the aliases are not recorded, and the generated fiddler '
            'reads the value through a path that was already overwritten'
            if one_member else 'no update of the path set found'),
           ctx.loc(ap, one_member[0] if one_member else ap.node))

  # ---- names from the namespace
  rule = 'WMC.generated-names'
  rs.declare(rule, 'emitted variable names come from the namespace '
             'allocator', 2)
  # the namespace: a Namespace() made here or the import manager's
  ns_vars = roles.assigned_from(ff, lambda e: (isinstance(e, ast.Call) and
                                               unparse(e.func).endswith(
                                                   'Namespace')) or
                                (isinstance(e, ast.Attribute) and
                                 e.attr == 'namespace'))
  for tbl in sorted(ref_tables):
    ok = False
    for n in walk_function(ff.node):
      if isinstance(n, ast.Assign) and unparse(n.targets[0]) == tbl:
        ok = any(isinstance(c, ast.Call) and isinstance(
            c.func, ast.Attribute) and c.func.attr == 'get_new_name' and
                 unparse(c.func.value) in ns_vars for c in ast.walk(n.value))
    rs.check(ok, rule, f'{ff.qualname}:{tbl}',
             f'{tbl} is filled from namespace.get_new_name(...)',
             ctx.loc(ff, ff.node))
  ok = sum(1 for c in ctx.calls(ff) if isinstance(c.func, ast.Attribute) and
           c.func.attr == 'add' and unparse(c.func.value) in ns_vars) >= 2
  rs.check(ok, rule, f'{ff.qualname}:reserved',
           'the parameter and function names are reserved in the namespace',
           ctx.loc(ff, ff.node))

  # ---- KD
  c14.kd_rule(ctx, rs, 'KD.converter-keys', [
      'fiddle._src.codegen.py_val_to_cst_converter._convert_buildable',
  ], 1)


MANIFEST = dict(
    text=('Decides structural clauses of C13 for every diff: '
          'definition-before-mention ordering of the fiddler\'s statement '
          'sections (computed from which name tables each section defines '
          'and which the Reference converter can mention), per-parent '
          'precedence identical to apply_diff, exhaustive and loud dispatch '
          'over operations and path elements, allocator-issued names, and '
          'key-kind discipline of the Buildable converter. Behavioural '
          'equivalence with apply_diff is not decided.'),
    note='Trusted: ast, CFG, call graph; libcst rendering.',
    technique='static analysis: define/mention ordering over emitted sections, precedence-pair order rule, class-family agreement, key-kind dataflow',
)
