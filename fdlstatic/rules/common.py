"""Rule helpers shared by several properties."""
from __future__ import annotations

import ast
from typing import Callable, Dict, List, Optional, Set, Tuple

from fdlstatic import cfg as cfg_lib
from fdlstatic.ctx import Ctx, assigned_names
from fdlstatic.model import (AnalysisError, FuncInfo, dotted, unparse,
                             walk_function)
from fdlstatic.report import RuleSet


# ----------------------------------------------------------------- guards
class Guard:
  """A piece of process/thread state that is flipped and must be restored."""

  def __init__(self, kind, qual, attr, default, cls=None):
    self.kind = kind  # 'tls-attr' | 'global'
    self.qual = qual  # qualified name of the instance / the global
    self.attr = attr  # attribute name (tls-attr) or None
    self.default = default  # ast expr of the initial value or None
    self.cls = cls
    self.setters: Set[str] = set()  # functions f(p): guard = p
    self.getters: Set[str] = set()  # functions returning the guard

  @property
  def name(self):
    return f'{self.qual}.{self.attr}' if self.attr else self.qual

  def __repr__(self):
    return f'<Guard {self.name}>'


def thread_local_guards(ctx: Ctx) -> List[Guard]:
  """Module-level instances of threading.local subclasses, per attribute."""
  p = ctx.p
  out = []
  for mq, mod in p.modules.items():
    for name, val in mod.assigns.items():
      if not isinstance(val, ast.Call):
        continue
      cq = p.resolve(val.func, mod)
      if cq not in p.classes or 'threading.local' not in p.mro(cq):
        continue
      ci = p.classes[cq]
      attrs: Dict[str, Optional[ast.expr]] = {}
      for a, v in ci.class_assigns.items():
        attrs[a] = v
      for a in ci.annotations:
        attrs.setdefault(a, ci.class_assigns.get(a))
      init = ci.methods.get('__init__')
      if init is not None:
        for n in walk_function(init.node):
          if isinstance(n, ast.Assign):
            for t in n.targets:
              if (isinstance(t, ast.Attribute) and
                  isinstance(t.value, ast.Name) and
                  t.value.id == init.params[0]):
                attrs[t.attr] = n.value
      for a, default in attrs.items():
        out.append(Guard('tls-attr', f'{mq}.{name}', a, default, cq))
  return out


def relocated_global(ctx: Ctx, q: str, depth: int = 3) -> str:
  """Where the module-level object `q` lives now: if its old module only
  keeps an alias (`name = other_module.name`), the qualified name of the
  object the alias refers to."""
  p = ctx.p
  while depth > 0:
    mq, _, name = q.rpartition('.')
    mod = p.modules.get(mq)
    if mod is None:
      return q
    v = mod.assigns.get(name)
    if v is None:
      # imported under the same name: `from other_module import name`
      tgt = mod.imports.get(name)
      if tgt and tgt.rpartition('.')[0] in p.modules:
        q = tgt
        depth -= 1
        continue
      return q
    if not isinstance(v, (ast.Name, ast.Attribute)):
      return q
    r = p.resolve(v, mod)
    if not r or r == q or r.rpartition('.')[0] not in p.modules:
      return q
    q = r
    depth -= 1
  return q


def _is_guard_ref(ctx: Ctx, expr, f, guard: Guard) -> bool:
  if guard.kind == 'tls-attr':
    return (isinstance(expr, ast.Attribute) and expr.attr == guard.attr and
            ctx.p.resolve(expr.value, f) == guard.qual)
  short = guard.qual.rsplit('.', 1)[1]
  gmod = guard.qual.rsplit('.', 1)[0]
  if isinstance(expr, ast.Name):
    if expr.id != short:
      return False
    s = f
    while s is not None and not hasattr(s, 'tree'):
      if hasattr(s, 'local_names') and expr.id in s.local_names():
        return False
      s = s.parent
    return f.module.name == gmod
  return isinstance(expr, ast.Attribute) and expr.attr == short and (
      ctx.p.resolve(expr.value, f) == gmod)


def classify_guard_functions(ctx: Ctx, guard: Guard):
  """Finds setter wrappers `def s(p): guard = p` and getter wrappers."""
  for q, f in ctx.p.funcs.items():
    if f.is_lambda:
      continue
    stmts = [s for s in f.node.body
             if not (isinstance(s, ast.Expr) and
                     isinstance(s.value, ast.Constant))]
    stmts = [s for s in stmts if not isinstance(s, (ast.Global, ast.Nonlocal))]
    if len(stmts) != 1:
      continue
    s = stmts[0]
    if (isinstance(s, ast.Assign) and len(s.targets) == 1 and
        _is_guard_ref(ctx, s.targets[0], f, guard) and
        isinstance(s.value, ast.Name) and s.value.id in f.params):
      guard.setters.add(q)
    if isinstance(s, ast.Return) and s.value is not None and _is_guard_ref(
        ctx, s.value, f, guard):
      guard.getters.add(q)


def guard_write_value(ctx: Ctx, g, n: int, f: FuncInfo,
                      guard: Guard) -> Optional[ast.expr]:
  """If CFG node n writes the guard, returns the stored value expression."""
  st = g.stmt[n]
  if g.kind[n] != 'stmt' or st is None:
    return None
  if isinstance(st, ast.Assign):
    for t in st.targets:
      if _is_guard_ref(ctx, t, f, guard):
        if guard.kind == 'global' and isinstance(t, ast.Name):
          if t.id in f.local_names():
            return None
        return st.value
  if isinstance(st, ast.Expr) and isinstance(st.value, ast.Call):
    c = st.value
    q = ctx.p.resolve(c.func, f)
    if q in guard.setters:
      if c.args:
        return c.args[0]
      if c.keywords:
        return c.keywords[0].value
  return None


def _is_guard_read(ctx, expr, f, guard) -> bool:
  if _is_guard_ref(ctx, expr, f, guard):
    return True
  if isinstance(expr, ast.Call) and ctx.p.resolve(expr.func,
                                                  f) in guard.getters:
    return True
  return False


def _guard_known_at(ctx, g, f, guard, node, const) -> bool:
  """Every path to `node` passes a test of the guard on the branch where the

  guard equals the boolean constant `const`.
  """
  from fdlstatic import cfg as cfg_lib
  if not isinstance(const, bool):
    return False
  for m in g.nodes():
    if g.kind[m] != 'if':
      continue
    t = g.stmt[m].test
    neg = False
    while isinstance(t, ast.UnaryOp) and isinstance(t.op, ast.Not):
      t, neg = t.operand, not neg
    if not _is_guard_read(ctx, t, f, guard):
      # a local holding a read of the guard (`was = guard; if was: ...`)
      if not isinstance(t, ast.Name):
        continue
      defs = [s for s in walk_function(f.node) if t.id in assigned_names(s)]
      if not (len(defs) == 1 and isinstance(defs[0], ast.Assign) and
              _is_guard_read(ctx, defs[0].value, f, guard)):
        continue
    # branch on which the guard == const
    want = 'true' if (const is True) != neg else 'false'
    other = 'false' if want == 'true' else 'true'
    via = [x for x, lab in g.succ[m] if lab == want]
    off = [x for x, lab in g.succ[m] if lab == other]
    if g.dominated_by(node, {m}, labels=cfg_lib.NO_EXC) and (
        node in g.reach(via, labels=cfg_lib.NO_EXC)) and (
            node not in g.reach(off, labels=cfg_lib.NO_EXC)):
      # no write of the guard between the test and the node
      return True
  return False


def _in_finally(f: FuncInfo, stmt) -> bool:
  for n in walk_function(f.node):
    if isinstance(n, ast.Try) and n.finalbody:
      for s in n.finalbody:
        for sub in ast.walk(s):
          if sub is stmt:
            return True
  return False


def pair_rule(ctx: Ctx, rs: RuleSet, rule: str, guard: Guard,
              expected_writers: Dict[str, str] = None) -> List[str]:
  """PAIR(a): every flip of `guard` is restored on all exits.

  Returns the qualnames of the writer functions found.
  """
  writers = []
  for q, f in sorted(ctx.p.funcs.items()):
    if q in guard.setters:
      continue
    g = ctx.cfg(f)
    writes = {}
    for n in g.nodes():
      v = guard_write_value(ctx, g, n, f, guard)
      if v is not None:
        writes[n] = v
    if not writes:
      continue
    # class __init__ of the thread-local itself
    if guard.cls and f.cls is not None and f.cls.qualname == guard.cls:
      continue
    writers.append(q)
    live = g.live_nodes()
    # class-based context manager: the flip in __enter__ is paired with the
    # restore in __exit__ of the same class (`with` runs __exit__ on every
    # exit of the block once __enter__ has returned)
    if f.cls is not None and f.name in ('__enter__', '__exit__') and (
        '__enter__' in f.cls.methods and '__exit__' in f.cls.methods):
      _pair_enter_exit(ctx, rs, rule, guard, f, g, writes, live)
      continue
    restores = {n for n in writes if _in_finally(f, g.stmt[n])}
    flips = {n for n in writes if n not in restores}
    for n in sorted(flips):
      if n not in live:
        continue
      key = f'{q}:{guard.name}'
      starts = [m for m, lab in g.succ[n] if lab != 'exc']
      bad = None
      for s in starts:
        if s in restores:
          continue
        r = g.reach([s], blocked=restores)
        for e in (g.exit, g.raise_exit):
          if e in r:
            bad = (s, e)
            break
        if bad:
          break
      if bad:
        path = g.find_path(n, {bad[1]}, blocked=restores) or []
        rs.fail(rule, key,
                f'{guard.name} is set at "{g.describe(n)}" but a path leaves '
                f'{q} ({g.kind[bad[1]]}) without restoring it',
                ctx.loc(f, g.stmt[n]),
                witness=[g.describe(x) for x in path])
      else:
        rs.ok(rule, key,
              f'flip "{g.describe(n)}" is followed by a restore in a finally '
              'block on every normal, exceptional and generator-close exit',
              ctx.loc(f, g.stmt[n]))
    # restored value: the initial default, or the value read before the flip
    for n in sorted(restores):
      if n not in live:
        continue
      v = writes[n]
      key = f'{q}:{guard.name}:restore-value'
      ok = False
      why = ''
      if isinstance(v, ast.Constant) and guard.default is not None and isinstance(
          guard.default, ast.Constant) and v.value == guard.default.value:
        # a constant is the previous value only if the flip can be reached
        # solely with the guard holding that constant (re-entry rejected);
        # otherwise an inner block re-enables / clears the guard for the rest
        # of the outer one
        known = bool(flips) and all(
            _guard_known_at(ctx, g, f, guard, fl, v.value) for fl in flips)
        ok = known
        why = (f'restores {v.value!r}, the value the guard is known to hold '
               'at every flip (re-entry is rejected before it)' if ok else
               f'restores the constant {v.value!r} although the guard may '
               'hold another value when the block is entered (nested use): '
               'leaving the inner block would undo the outer one; the value '
               'read before the flip must be restored')
      elif isinstance(v, ast.Name):
        defs = [s for s in walk_function(f.node)
                if v.id in assigned_names(s)]
        if len(defs) == 1 and isinstance(defs[0], ast.Assign) and _is_guard_read(
            ctx, defs[0].value, f, guard):
          dn = g.nodes_of(defs[0])
          ok = all(g.dominated_by(fl, set(dn)) for fl in flips) if flips else bool(dn)
          why = (f'restores `{v.id}`, read from the guard before the flip'
                 if ok else f'`{v.id}` is not read before every flip')
        else:
          why = f'`{v.id}` is not a single read of the guard'
      else:
        why = f'restored value `{unparse(v)}` is neither the initial value nor the saved previous value'
      # dedupe per (function, guard): several CFG copies of one finally stmt
      if not any(o.rule == rule and o.construct == key and o.ok == ok
                 for o in rs.obs):
        rs.check(ok, rule, key, why, ctx.loc(f, g.stmt[n]))
    if not flips and restores:
      pass
  return writers


def _pair_enter_exit(ctx, rs, rule, guard, f, g, writes, live):
  """PAIR for a context-manager class (one obligation set per class)."""
  from fdlstatic import cfg as cfg_lib
  cls = f.cls
  if f.name != '__enter__':
    return  # handled together with __enter__
  ex = cls.methods['__exit__']
  gx = ctx.cfg(ex)
  xw = {n: guard_write_value(ctx, gx, n, ex, guard) for n in gx.nodes()}
  xw = {n: v for n, v in xw.items() if v is not None}
  key = f'{cls.qualname}:{guard.name}'
  # (a) __exit__ restores on every path (normal return or raise)
  always = bool(xw) and gx.exit not in gx.reach(
      [gx.entry], blocked=set(xw), labels=cfg_lib.NO_EXC) and (
          gx.raise_exit not in gx.reach([gx.entry], blocked=set(xw),
                                        labels=cfg_lib.NO_EXC))
  # (b) after the flip __enter__ only returns (an explicit raise after the
  # flip would leave the guard set: __exit__ does not run then)
  ok_enter = True
  for n in writes:
    r = g.reach([m for m, lab in g.succ[n] if lab != 'exc'],
                labels=cfg_lib.NO_EXC)
    if g.raise_exit in r:
      ok_enter = False
  rs.check(always and ok_enter, rule, key,
           f'{guard.name} is set in {cls.name}.__enter__ and restored on every '
           f'path of {cls.name}.__exit__' if always and ok_enter else
           (f'{cls.name}.__exit__ has a path that does not restore '
            f'{guard.name}' if not always else
            f'{cls.name}.__enter__ can raise after it set {guard.name}: '
            '__exit__ is not run for a failed __enter__'),
           ctx.loc(f, f.node))
  # restored value: the constant the guard is known to hold at the flip, or a
  # value read from the guard in __enter__ before the flip
  for n, v in sorted(xw.items()):
    ok = False
    why = f'restored value `{unparse(v)}` not understood'
    if isinstance(v, ast.Constant) and guard.default is not None and isinstance(
        guard.default, ast.Constant) and v.value == guard.default.value:
      ok = bool(writes) and all(
          _guard_known_at(ctx, g, f, guard, fl, v.value) for fl in writes)
      why = (f'restores {v.value!r}, the value the guard is known to hold '
             'when __enter__ flips it (re-entry is rejected before)' if ok else
             f'restores the constant {v.value!r} although the guard may hold '
             'another value on entry (nested use)')
    elif isinstance(v, ast.Attribute) and isinstance(v.value, ast.Name) and (
        v.value.id == ex.params[0]):
      saved = [s for s in walk_function(f.node) if isinstance(s, ast.Assign)
               and any(isinstance(t, ast.Attribute) and t.attr == v.attr and
                       unparse(t.value) == f.params[0] for t in s.targets)
               and _is_guard_read(ctx, s.value, f, guard)]
      ok = bool(saved)
      why = (f'restores self.{v.attr}, read from the guard in __enter__'
             if ok else f'self.{v.attr} is not a read of the guard')
    rs.check(ok, rule, key + ':restore-value', why, ctx.loc(ex, gx.stmt[n]))


def stmt_key(f: FuncInfo, text: str) -> str:
  return f'{f.qualname}:{text}'
