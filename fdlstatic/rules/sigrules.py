"""Rules over config.py / signatures.py shared by C01, C03 and C16."""
from __future__ import annotations

import ast
from typing import Dict, List, Optional, Set, Tuple

from fdlstatic import cfg as cfg_lib
from fdlstatic.ctx import Ctx
from fdlstatic.model import AnalysisError, FuncInfo, unparse, walk_function, walk_stmts
from fdlstatic.report import RuleSet

B = 'fiddle._src.config.Buildable'
SI = 'fiddle._src.signatures.SignatureInfo'
KINDS = {'POSITIONAL_ONLY', 'POSITIONAL_OR_KEYWORD', 'VAR_POSITIONAL',
         'KEYWORD_ONLY', 'VAR_KEYWORD'}
SET_PRIM = f'{B}._arguments_set_value'
DEL_PRIM = f'{B}._arguments_del_value'


# module-level constants that hold a collection of parameter kinds, e.g.
# _POSITIONAL_KINDS = frozenset({Parameter.POSITIONAL_ONLY, ...}); filled from
# the analysed tree by register_kind_constants (names bound twice to different
# collections are dropped)
KIND_CONSTS: Dict[str, frozenset] = {}


def register_kind_constants(project) -> None:
  KIND_CONSTS.clear()
  clash = set()
  for mod in project.modules.values():
    for name, v in getattr(mod, 'assigns', {}).items():
      probe = ast.Compare(left=ast.Attribute(value=ast.Name(id='p'), attr='kind'),
                          ops=[ast.In()], comparators=[v])
      a = kind_atom(probe)
      if a is None or not a[0]:
        continue
      if name in KIND_CONSTS and KIND_CONSTS[name] != frozenset(a[0]):
        clash.add(name)
      KIND_CONSTS[name] = frozenset(a[0])
  for name in clash:
    KIND_CONSTS.pop(name, None)


def kind_atom(e) -> Optional[Tuple[Set[str], bool]]:
  """`X.kind == P.K` / `X.kind in (P.K1, ..)` -> ({K..}, positive?)."""
  if not (isinstance(e, ast.Compare) and len(e.ops) == 1):
    return None
  l, r, op = e.left, e.comparators[0], e.ops[0]

  def is_kind(x):
    return isinstance(x, ast.Attribute) and x.attr == 'kind'

  def kind_const(x):
    if isinstance(x, ast.Attribute) and x.attr in KINDS:
      return {x.attr}
    if isinstance(x, ast.Name) and x.id in KIND_CONSTS:
      return set(KIND_CONSTS[x.id])
    if isinstance(x, ast.Attribute) and x.attr in KIND_CONSTS:
      return set(KIND_CONSTS[x.attr])
    if isinstance(x, ast.Call) and isinstance(x.func, ast.Name) and (
        x.func.id in ('frozenset', 'set', 'tuple', 'list')) and len(
            x.args) == 1 and not x.keywords:
      return kind_const(x.args[0])
    if isinstance(x, ast.Dict) and x.keys and all(
        k is not None for k in x.keys):
      x = ast.Tuple(elts=list(x.keys), ctx=ast.Load())  # membership in keys
    if isinstance(x, (ast.Tuple, ast.List, ast.Set)):
      out = set()
      for el in x.elts:
        k = kind_const(el)
        if k is None:
          return None
        out |= k
      return out
    return None

  if is_kind(r) and not is_kind(l):
    l, r = r, l
  if not is_kind(l):
    # a plain variable holding a kind: `kind == Parameter.VAR_POSITIONAL`
    # (only against an explicit kind constant, never a named collection)
    def explicit(x):
      return isinstance(x, ast.Attribute) and x.attr in KINDS
    if isinstance(l, ast.Name) and explicit(r):
      pass
    elif isinstance(r, ast.Name) and explicit(l):
      l, r = r, l
    else:
      return None
  ks = kind_const(r)
  if ks is None:
    return None
  if isinstance(op, (ast.Eq, ast.Is, ast.In)):
    return ks, True
  if isinstance(op, (ast.NotEq, ast.IsNot, ast.NotIn)):
    return ks, False
  return None


def kinds_on_branch(test, branch: bool) -> Optional[Set[str]]:
  """Set of kinds the parameter may have when `test` evaluates to branch,

  considering only kind atoms (other conjuncts are ignored = may be anything).
  """
  if isinstance(test, ast.UnaryOp) and isinstance(test.op, ast.Not):
    return kinds_on_branch(test.operand, not branch)
  a = kind_atom(test)
  if a is not None:
    ks, pos = a
    return set(ks) if pos == branch else KINDS - ks
  if isinstance(test, ast.BoolOp):
    parts = [kinds_on_branch(v, branch) for v in test.values]
    if isinstance(test.op, ast.And) == branch:
      # all conjuncts hold (and/true) or all disjuncts fail (or/false)
      out = set(KINDS)
      for s in parts:
        if s is not None:
          out &= s
      return out
    # some conjunct fails: no information unless single
    known = [s for s in parts if s is not None]
    if len(parts) == 1 and known:
      return known[0]
    return None
  return None


def eval3(test, kind: Optional[str], param_var: Optional[str] = None,
          f=None):
  """Three-valued truth of `test` for a parameter of the given kind (None =

  "no such parameter": `param_var is None` holds).  True / False / None
  (unknown: depends on something other than the kind).
  """
  if f is not None and isinstance(test, ast.Name) and test.id != param_var:
    # a test held in a local: is_positional_only = param.kind == ...
    from fdlstatic import roles  # pylint: disable=g-import-not-at-top
    d = roles.deref(f, test, 1)
    if d is not test:
      return eval3(d, kind, param_var, None)
  if isinstance(test, ast.UnaryOp) and isinstance(test.op, ast.Not):
    v = eval3(test.operand, kind, param_var, f)
    return None if v is None else not v
  if isinstance(test, ast.BoolOp):
    vals = [eval3(v, kind, param_var, f) for v in test.values]
    if isinstance(test.op, ast.And):
      if any(v is False for v in vals):
        return False
      return True if all(v is True for v in vals) else None
    if any(v is True for v in vals):
      return True
    return False if all(v is False for v in vals) else None
  if param_var is not None and isinstance(test, ast.Compare) and len(
      test.ops) == 1 and isinstance(test.left, ast.Name) and (
          test.left.id == param_var) and isinstance(
              test.comparators[0], ast.Constant) and (
                  test.comparators[0].value is None):
    if isinstance(test.ops[0], ast.Is):
      return kind is None
    if isinstance(test.ops[0], ast.IsNot):
      return kind is not None
  a = kind_atom(test)
  if a is not None:
    if kind is None:
      return None
    ks, pos = a
    return (kind in ks) == pos
  return None


def residual(test, kind: Optional[str], param_var: Optional[str] = None):
  """`test` with its kind atoms decided for `kind`: True / False / an ast

  expression equivalent to the test for every parameter of that kind.
  """
  v = eval3(test, kind, param_var)
  if v is not None:
    return v
  if isinstance(test, ast.UnaryOp) and isinstance(test.op, ast.Not):
    r = residual(test.operand, kind, param_var)
    if isinstance(r, bool):
      return not r
    return ast.UnaryOp(op=ast.Not(), operand=r)
  if isinstance(test, ast.BoolOp):
    is_and = isinstance(test.op, ast.And)
    parts = []
    for v_ in test.values:
      r = residual(v_, kind, param_var)
      if isinstance(r, bool):
        if r != is_and:
          return r  # False in an and / True in an or decides
        continue
      parts.append(r)
    if not parts:
      return is_and
    if len(parts) == 1:
      return parts[0]
    return ast.BoolOp(op=test.op, values=parts)
  return test


def reachable_for_kind(g, start_nodes, target: int, kind: Optional[str],
                       param_var: Optional[str], stop: Set[int],
                       f=None) -> bool:
  """Can `target` be reached from `start_nodes` when every kind test is

  decided for a parameter of `kind` (unknown tests go both ways)?
  """
  seen = set()
  stack = list(start_nodes)
  while stack:
    n = stack.pop()
    if n in seen or n in stop:
      continue
    seen.add(n)
    if n == target:
      return True
    if g.kind[n] == 'if':
      v = eval3(g.stmt[n].test, kind, param_var, f)
      for m, lab in g.succ[n]:
        if lab == 'exc':
          continue
        if v is True and lab == 'false':
          continue
        if v is False and lab == 'true':
          continue
        stack.append(m)
    else:
      stack += [m for m, lab in g.succ[n] if lab != 'exc']
  return False


def kinds_mentioned(f: FuncInfo) -> Set[str]:
  out = set()
  for n in walk_function(f.node):
    a = kind_atom(n) if isinstance(n, ast.Compare) else None
    if a:
      out |= a[0]
  return out


def _prim_calls(ctx: Ctx, f: FuncInfo, g) -> List[int]:
  """CFG nodes that call a store primitive (or another mutating edit method)."""
  out = []
  for n in g.nodes():
    for e in cfg_lib.walk_node(g, n):
      if isinstance(e, ast.Call) and isinstance(e.func, ast.Attribute) and (
          e.func.attr in ('_arguments_set_value', '_arguments_del_value',
                          '_set_item_by_index', '_set_item_by_slice')):
        out.append(n)
        break
      if isinstance(e, ast.Subscript) and isinstance(
          e.ctx, (ast.Store, ast.Del)) and isinstance(
              e.value, ast.Attribute) and e.value.attr == '__arguments__':
        out.append(n)
        break
  return out


def _raise_nodes(g) -> List[int]:
  return [n for n in g.nodes() if isinstance(g.stmt[n], ast.Raise)]


def edit_entry_points(ctx: Ctx, rs: RuleSet):
  p = ctx.p
  rule = 'DOM.validate-before-mutate'
  rs.declare(rule, 'validation dominates the first mutation in each edit '
             'entry point', 3)
  # __setattr__: validate_param_name dominates _arguments_set_value
  f = ctx.func(f'{B}.__setattr__')
  g = ctx.cfg(f)
  val = [n for n in g.nodes() if any(
      isinstance(e, ast.Call) and isinstance(e.func, ast.Attribute) and
      e.func.attr == 'validate_param_name' and e.args and
      isinstance(e.args[0], ast.Name) and e.args[0].id == f.params[1]
      for e in cfg_lib.walk_node(g, n))]
  muts = _prim_calls(ctx, f, g)
  if not muts:
    rs.fail(rule, f'{f.qualname}:validate_param_name',
            '__setattr__ no longer stores the value', ctx.loc(f, f.node))
  for m in muts:
    rs.check(bool(val) and g.dominated_by(m, set(val), labels=cfg_lib.NO_EXC),
             rule, f'{f.qualname}:validate_param_name',
             'validate_param_name(name, ...) dominates the store',
             ctx.loc(f, g.stmt[m]))
  # _set_item_by_index: a raising range test dominates the store
  f = ctx.func(f'{B}._set_item_by_index')
  g = ctx.cfg(f)
  muts = _prim_calls(ctx, f, g)
  guards = []
  for n in g.nodes():
    if g.kind[n] == 'if':
      t_succ = [m for m, lab in g.succ[n] if lab == 'true']
      r = g.reach(t_succ, labels=cfg_lib.NO_EXC)
      if g.exit not in r and g.raise_exit in r and any(
          isinstance(c, ast.Compare) and any(
              isinstance(o, (ast.GtE, ast.Gt, ast.Lt, ast.LtE)) for o in c.ops)
          for c in ast.walk(g.stmt[n].test)):
        guards.append(n)
  for m in muts:
    rs.check(bool(guards) and g.dominated_by(m, set(guards),
                                             labels=cfg_lib.NO_EXC),
             rule, f'{f.qualname}:range-check',
             'an index range test with a raising branch dominates the store',
             ctx.loc(f, g.stmt[m]))
  # _set_item_by_slice: in the branch that handles the fixed prefix, the
  # length test dominates the element stores
  f = ctx.func(f'{B}._set_item_by_slice')
  g = ctx.cfg(f)
  len_guards = []
  for n in g.nodes():
    if g.kind[n] == 'if':
      t_succ = [m for m, lab in g.succ[n] if lab == 'true']
      r = g.reach(t_succ, labels=cfg_lib.NO_EXC)
      test = g.stmt[n].test
      lens = [c for c in ast.walk(test) if isinstance(c, ast.Call) and
              isinstance(c.func, ast.Name) and c.func.id == 'len']
      if g.exit not in r and g.raise_exit in r and len(lens) >= 2:
        len_guards.append(n)
  idx_calls = [n for n in g.nodes() if any(
      isinstance(e, ast.Call) and isinstance(e.func, ast.Attribute) and
      e.func.attr == '_set_item_by_index' for e in cfg_lib.walk_node(g, n))]
  if not idx_calls:
    raise AnalysisError('_set_item_by_slice no longer delegates to '
                        '_set_item_by_index for the fixed prefix')
  for m in idx_calls:
    rs.check(bool(len_guards) and g.dominated_by(m, set(len_guards),
                                                 labels=cfg_lib.NO_EXC),
             rule, f'{f.qualname}:length-check',
             'the slice/value length test with a raising branch dominates '
             'every store of the fixed-prefix branch', ctx.loc(f, g.stmt[m]))

  rule = 'DOM.no-raise-after-mutation'
  rs.declare(rule, 'no explicit raise is reachable after a mutation inside an '
             'edit entry point (rejected edits leave arguments unchanged)', 6)
  for name in ('__setattr__', '__delattr__', '__setitem__', '__delitem__',
               '_set_item_by_index', '_set_item_by_slice'):
    f = ctx.func(f'{B}.{name}')
    g = ctx.cfg(f)
    muts = _prim_calls(ctx, f, g)
    raises = set(_raise_nodes(g))
    bad = None
    for m in muts:
      succ = [x for x, lab in g.succ[m] if lab != 'exc']
      r = g.reach(succ, labels=cfg_lib.NO_EXC)
      hit = raises & r
      if hit:
        bad = (m, sorted(hit)[0])
        break
    if bad:
      path = g.find_path(bad[0], {bad[1]}, labels=cfg_lib.NO_EXC) or []
      rs.fail(rule, f'{f.qualname}', f'"{g.describe(bad[1])}" is reachable '
              f'after the mutation "{g.describe(bad[0])}": a rejected edit '
              'would leave the arguments modified',
              ctx.loc(f, g.stmt[bad[1]]),
              witness=[g.describe(x) for x in path])
    else:
      rs.ok(rule, f'{f.qualname}',
            f'{len(muts)} mutation site(s); no explicit raise follows any',
            ctx.loc(f, f.node))


def _fresh_receiver(f, recv, at) -> bool:
  """`recv` (a Name) was last rebound, before `at`, to a new object."""
  if not isinstance(recv, ast.Name):
    return False
  defs = [s for s in walk_function(f.node) if isinstance(s, ast.Assign) and
          any(isinstance(t, ast.Name) and t.id == recv.id for t in s.targets)
          and s.lineno < at.lineno]
  if not defs:
    return False
  v = max(defs, key=lambda s: s.lineno).value
  # a copy of anything is new, whatever name it is kept under
  return isinstance(v, ast.Call) and len(v.args) == 1 and not v.keywords and (
      unparse(v.func) in ('copy.copy', 'copy.deepcopy') or (
          isinstance(v.func, ast.Attribute) and
          v.func.attr == 'map_children'))


def store_primitives(ctx: Ctx, rs: RuleSet):
  """The argument store is written only via the logging primitives.

  Everywhere in the repository: an item store / delete / mutator call on
  `X.__arguments__` sits in a primitive of config.py, or X is a copy the
  function has just made (map_children / copy.copy of the same variable: the
  code generators rewrite their private copies).  Wholesale replacement only
  in construction / unflatten / unpickle or on such a copy.
  """
  rule = 'WMC.argument-store-writers'
  rs.declare(rule, 'stores/deletes on __arguments__ go through '
             '_arguments_set_value/_arguments_del_value (or act on a copy the '
             'function has just made); wholesale replacement only in '
             'construction/unflatten/unpickle', 3)
  allowed_item = {SET_PRIM, DEL_PRIM}
  allowed_whole = {f'{B}.__init_callable__', f'{B}.__unflatten__',
                   f'{B}.__setstate__', f'{B}.__deepcopy__'}
  for modname in sorted(ctx.p.modules):
    mod = ctx.mod(modname)
    in_config = modname == 'fiddle._src.config'
    for f in mod.all_funcs:
      for n in walk_function(f.node):
        tgts = []
        if isinstance(n, ast.Assign):
          tgts = n.targets
        elif isinstance(n, ast.AugAssign):
          tgts = [n.target]
        elif isinstance(n, ast.Delete):
          tgts = n.targets
        for t in tgts:
          if isinstance(t, ast.Subscript) and isinstance(
              t.value, ast.Attribute) and t.value.attr == '__arguments__':
            prim = f.qualname in allowed_item
            fresh = not in_config and _fresh_receiver(f, t.value.value, n)
            rs.check(prim or fresh, rule,
                     f'{f.qualname}:__arguments__[...]',
                     'item store/delete on __arguments__ ' +
                     ('inside a logging primitive' if prim else
                      f'of the copy `{unparse(t.value.value)}` made in this '
                      'function' if fresh else
                      'outside the logging primitives: no history entry is '
                      'appended for the change (the parameter\'s history no '
                      'longer ends with its current value / a deletion '
                      'marker) and tag expansion is bypassed'), ctx.loc(f, n))
        if isinstance(n, ast.Call) and isinstance(n.func, ast.Attribute) and (
            n.func.attr == '__setattr__') and n.args:
          for i, a in enumerate(n.args[:2]):
            if isinstance(a, ast.Constant) and a.value == '__arguments__':
              recv = n.args[0] if i == 1 else None
              fresh = (not in_config and recv is not None and
                       _fresh_receiver(f, recv, n))
              rs.check(f.qualname in allowed_whole or fresh, rule,
                       f'{f.qualname}:__arguments__=',
                       'wholesale replacement of __arguments__' + (
                           ' of a copy made in this function' if fresh else
                           ''), ctx.loc(f, n), nontrivial=False)
        # mutator method calls on the store
        if isinstance(n, ast.Call) and isinstance(
            n.func, ast.Attribute) and n.func.attr in (
                'update', 'pop', 'clear', 'setdefault', 'popitem'
            ) and isinstance(n.func.value, ast.Attribute) and (
                n.func.value.attr == '__arguments__'):
          fresh = not in_config and _fresh_receiver(
              f, n.func.value.value, n)
          rs.check(fresh, rule, f'{f.qualname}:__arguments__.{n.func.attr}',
                   f'`{unparse(n)[:70]}` ' + (
                       'acts on a copy made in this function' if fresh else
                       'mutates the argument store without logging'),
                   ctx.loc(f, n))


def store_log_pairing(ctx: Ctx, rs: RuleSet, rule='PAIR.store-log'):
  """PAIR(b): in the primitives, store and history log come together."""
  rs.declare(rule, 'every path through a store primitive that stores/deletes '
             'logs exactly one matching history entry with the same key', 2)
  for q, store_kind, log_attr in ((SET_PRIM, 'store', 'add_new_value'),
                                  (DEL_PRIM, 'delete', 'add_deleted_value')):
    f = ctx.func(q)
    g = ctx.cfg(f)
    key_param = f.params[1]
    stores, logs = [], []
    for n in g.nodes():
      st = g.stmt[n]
      if g.kind[n] != 'stmt':
        continue
      tg = []
      if isinstance(st, ast.Assign):
        tg = st.targets
      elif isinstance(st, ast.Delete):
        tg = st.targets
      for t in tg:
        if isinstance(t, ast.Subscript) and isinstance(
            t.value, ast.Attribute) and t.value.attr == '__arguments__':
          stores.append((n, t, st))
      for e in cfg_lib.walk_node(g, n):
        if isinstance(e, ast.Call) and isinstance(
            e.func, ast.Attribute) and e.func.attr == log_attr and isinstance(
                e.func.value, ast.Attribute) and (
                    e.func.value.attr == '__argument_history__'):
          logs.append((n, e))
    if not stores:
      raise AnalysisError(f'{q} no longer writes __arguments__')
    log_nodes = {n for n, _ in logs}
    store_nodes = {n for n, _, _ in stores}
    for n, t, st in stores:
      key_ok = isinstance(t.slice, ast.Name) and t.slice.id == key_param
      # every path from the store to the exit passes a log
      succ = [x for x, lab in g.succ[n] if lab != 'exc']
      r = g.reach(succ, blocked=log_nodes, labels=cfg_lib.NO_EXC)
      logged = g.exit not in r
      rs.check(key_ok and logged, rule, f'{q}:{store_kind}',
               f'{store_kind} under key `{unparse(t.slice)}` is followed by '
               f'{log_attr} on every path' if key_ok and logged else
               f'{store_kind} `{unparse(st)}`: key_is_param={key_ok} '
               f'followed_by_log={logged}', ctx.loc(f, st))
    for n, e in logs:
      a0 = e.args[0] if e.args else None
      key_ok = isinstance(a0, ast.Name) and a0.id == key_param
      val_ok = True
      if store_kind == 'store':
        stored = [st.value for _, _, st in stores]
        a1 = e.args[1] if len(e.args) > 1 else None
        val_ok = a1 is not None and any(
            unparse(a1) == unparse(v) for v in stored)
      dominated = g.dominated_by(n, store_nodes, labels=cfg_lib.NO_EXC)
      # exactly one: no second log reachable after this one
      succ = [x for x, lab in g.succ[n] if lab != 'exc']
      again = log_nodes & g.reach(succ, labels=cfg_lib.NO_EXC)
      rs.check(key_ok and val_ok and dominated and not again, rule,
               f'{q}:{log_attr}',
               f'{unparse(e)}: same key={key_ok} same value={val_ok} '
               f'only after the {store_kind}={dominated} once={not again}',
               ctx.loc(f, e))
    if not logs:
      rs.fail(rule, f'{q}:{log_attr}', f'{q} never calls {log_attr}',
              ctx.loc(f, f.node))


def validate_param_name(ctx: Ctx, rs: RuleSet):
  rule = 'PK.name-validation'
  rs.declare(rule, 'name validation rejects positional-only / variadic '
             'parameters and unknown names unless **kwargs exists; attribute '
             'reads reject them too', 4)
  f = ctx.func(f'{SI}.validate_param_name')
  g = ctx.cfg(f)
  from fdlstatic import dispatch, roles
  # the looked-up parameter object: <signature>.parameters.get(name)
  pvars = roles.assigned_from(f, lambda e: isinstance(e, ast.Call) and isinstance(
      e.func, ast.Attribute) and e.func.attr == 'get' and unparse(
          e.func.value).endswith('parameters'))
  if len(pvars) != 1:
    raise AnalysisError(f'{f.qualname}: parameter lookup not found')
  pv = next(iter(pvars))

  def outcomes(kind, has_kw):
    """Exits reachable for a name whose parameter has `kind` (None: no such
    parameter) when the callable has / has no **kwargs.  Assigning None to
    the parameter variable makes the name an unknown one from there on."""
    def atoms(k):
      def ev(t, depth=0):
        if isinstance(t, ast.Attribute) and t.attr == 'has_var_keyword':
          return has_kw
        if isinstance(t, ast.Name) and t.id != pv and depth < 3:
          d = roles.deref(f, t, 1)
          if d is not t:
            return dispatch.eval_atoms(d, lambda x: ev(x, depth + 1))
        if isinstance(t, ast.Name) and t.id == pv:
          return k is not None  # truthiness of the parameter object
        v = eval3(t, k, pv)
        if v is not None and not isinstance(t, (ast.BoolOp, ast.UnaryOp)):
          return v
        if kind_atom(t) is not None and k is None:
          return None
        return None
      return ev
    seen, out = set(), set()
    stack = [(g.entry, kind)]
    while stack:
      n, k = stack.pop()
      if (n, k) in seen:
        continue
      seen.add((n, k))
      if n == g.exit:
        out.add('return')
        continue
      if n == g.raise_exit:
        out.add('raise')
        continue
      st = g.stmt[n]
      k2 = k
      if g.kind[n] == 'stmt' and isinstance(st, ast.Assign) and any(
          isinstance(t, ast.Name) and t.id == pv for t in st.targets):
        if isinstance(st.value, ast.Constant) and st.value.value is None:
          k2 = None
        elif not (isinstance(st.value, ast.Call)):
          k2 = k  # unknown re-binding: keep (conservative for the checks below)
      v = dispatch.eval_atoms(st.test, atoms(k)) if g.kind[n] in (
          'if', 'while') else None
      for m, lab in g.succ[n]:
        if lab == 'exc':
          continue
        if (v is True and lab == 'false') or (v is False and lab == 'true'):
          continue
        stack.append((m, k2))
    return out

  for k in ('POSITIONAL_ONLY', 'VAR_POSITIONAL'):
    ok = outcomes(k, True) == {'raise'} and outcomes(k, False) == {'raise'}
    rs.check(ok, rule, f'{f.qualname}:{k}',
             f'a {k} parameter addressed by name always raises',
             ctx.loc(f, f.node))
  ok = outcomes(None, False) == {'raise'} and outcomes(None, True) == {
      'return'} and all(outcomes(k, h) == {'return'} for k in (
          'POSITIONAL_OR_KEYWORD', 'KEYWORD_ONLY') for h in (True, False))
  rs.check(ok, rule, f'{f.qualname}:unknown-name',
           'an unknown name (param is None) raises exactly when the callable '
           'has no **kwargs; keyword-capable parameters are accepted',
           ctx.loc(f, f.node))
  # VAR_KEYWORD parameter's own name is treated as unknown
  ok = outcomes('VAR_KEYWORD', True) == {'return'} and outcomes(
      'VAR_KEYWORD', False) == {'raise'}
  rs.check(ok, rule, f'{f.qualname}:VAR_KEYWORD',
           'the **kwargs parameter\'s own name is handled as an unknown name',
           ctx.loc(f, f.node))
  # __getattr__ rejects positional-only / variadic names
  f = ctx.func(f'{B}.__getattr__')
  g = ctx.cfg(f)
  ok = False
  for n in g.nodes():
    if g.kind[n] == 'if':
      ks = kinds_on_branch(g.stmt[n].test, True)
      if ks == {'POSITIONAL_ONLY', 'VAR_POSITIONAL'}:
        t_succ = [m for m, lab in g.succ[n] if lab == 'true']
        r = g.reach(t_succ, labels=cfg_lib.NO_EXC)
        # it must come before any return of a stored value
        rets = [x for x in g.nodes() if isinstance(g.stmt[x], ast.Return)]
        before = all(g.dominated_by(x, {n}, labels=cfg_lib.NO_EXC)
                     for x in rets)
        if g.exit not in r and g.raise_exit in r and before:
          ok = True
  rs.check(ok, rule, f'{f.qualname}:positional-by-name',
           'reading a positional-only / variadic parameter by name raises '
           'before any value is returned', ctx.loc(f, f.node))


def index_to_key(ctx: Ctx, rs: RuleSet):
  rule = 'PK.index-to-key'
  rs.declare(rule, 'index_to_key returns a name exactly for '
             'positional-or-keyword parameters and the index otherwise', 2)
  f = ctx.func(f'{SI}.index_to_key')
  g = ctx.cfg(f)
  idx = f.params[1]
  rets = [n for n in g.nodes() if isinstance(g.stmt[n], ast.Return)]
  name_rets = [n for n in rets if isinstance(g.stmt[n].value, ast.Attribute)
               and g.stmt[n].value.attr == 'name']
  idx_rets = [n for n in rets if isinstance(g.stmt[n].value, ast.Name) and
              g.stmt[n].value.id == idx]
  rs.check(len(name_rets) + len(idx_rets) == len(rets) and name_rets and
           idx_rets, rule, f'{f.qualname}:returns',
           f'{len(name_rets)} return(s) of a parameter name, {len(idx_rets)} '
           f'return(s) of the index, {len(rets)} in total', ctx.loc(f, f.node))
  for n in name_rets:
    ok = False
    for m in g.nodes():
      if g.kind[m] == 'if' and kinds_on_branch(
          g.stmt[m].test, True) == {'POSITIONAL_OR_KEYWORD'}:
        t_succ = {x for x, lab in g.succ[m] if lab == 'true'}
        # n reachable only through the true edge
        r = g.reach([g.entry], labels=cfg_lib.NO_EXC,
                    edge_ok=lambda a, b, lab, m=m: not (a == m and
                                                        lab == 'true'))
        if n not in r:
          ok = True
    rs.check(ok, rule, f'{f.qualname}:name-only-for-pos-or-kw',
             'a name is returned only under kind == POSITIONAL_OR_KEYWORD',
             ctx.loc(f, g.stmt[n]))
  # negative indices are normalised by the full positional length
  ok = False
  for n in g.nodes():
    if g.kind[n] == 'if':
      t = g.stmt[n].test
      if isinstance(t, ast.Compare) and isinstance(t.ops[0], ast.Lt) and (
          isinstance(t.left, ast.Name) and t.left.id == idx) and isinstance(
              t.comparators[0], ast.Constant) and t.comparators[0].value == 0:
        body = list(walk_stmts(g.stmt[n].body))
        if any(isinstance(s, ast.AugAssign) and isinstance(s.op, ast.Add) and
               isinstance(s.target, ast.Name) and s.target.id == idx
               for s in body):
          ok = True
  rs.check(ok, rule, f'{f.qualname}:negative-index',
           'negative indices are shifted by the positional length before '
           'the lookup', ctx.loc(f, f.node))


def setitem_dispatch(ctx: Ctx, rs: RuleSet):
  rule = 'EXH.setitem-dispatch'
  rs.declare(rule, '__setitem__ dispatches int and slice keys; the key type '
             'is asserted by replace_varargs_handle', 3)
  f = ctx.func(f'{B}.__setitem__')
  seen = {}
  for n in walk_function(f.node):
    if isinstance(n, ast.If):
      t = n.test
      if isinstance(t, ast.Call) and isinstance(
          t.func, ast.Name) and t.func.id == 'isinstance' and len(t.args) == 2:
        ty = unparse(t.args[1])
        callee = None
        for s in walk_stmts(n.body):
          if isinstance(s, ast.Call) and isinstance(s.func, ast.Attribute):
            callee = s.func.attr
            break
        seen[ty] = callee
  rs.check(seen.get('int') == '_set_item_by_index', rule,
           f'{f.qualname}:int', f'int keys -> {seen.get("int")}',
           ctx.loc(f, f.node))
  rs.check(seen.get('slice') == '_set_item_by_slice', rule,
           f'{f.qualname}:slice', f'slice keys -> {seen.get("slice")}',
           ctx.loc(f, f.node))
  # every index entry point normalises the key first
  for name in ('__getitem__', '__setitem__', '__delitem__'):
    ff = ctx.func(f'{B}.{name}')
    g = ctx.cfg(ff)
    key = ff.params[1]
    norm = [n for n in g.nodes() if isinstance(g.stmt[n], ast.Assign) and any(
        isinstance(e, ast.Call) and isinstance(e.func, ast.Attribute) and
        e.func.attr == 'replace_varargs_handle'
        for e in ast.walk(g.stmt[n].value)) and any(
            isinstance(t, ast.Name) and t.id == key
            for t in g.stmt[n].targets)]
    uses = [n for n in g.nodes() if n not in norm and any(
        isinstance(e, ast.Name) and e.id == key and isinstance(e.ctx, ast.Load)
        for e in cfg_lib.walk_node(g, n))]
    ok = bool(norm) and all(
        g.dominated_by(u, set(norm), labels=cfg_lib.NO_EXC) for u in uses)
    rs.check(ok, rule, f'{ff.qualname}:varargs-handle',
             'the VARARGS handle is replaced before the key is used',
             ctx.loc(ff, ff.node))
  rv = ctx.func(f'{SI}.replace_varargs_handle')
  ok = False
  for n in walk_function(rv.node):
    if isinstance(n, ast.Assert):
      t = n.test
      if isinstance(t, ast.Call) and isinstance(
          t.func, ast.Name) and t.func.id == 'isinstance':
        tys = {unparse(x) for x in (t.args[1].elts if isinstance(
            t.args[1], ast.Tuple) else [t.args[1]])}
        ok = tys == {'int', 'slice'}
    if isinstance(n, ast.If):
      pass
  if not ok:
    # an explicit raise for other key types is accepted as well
    g = ctx.cfg(rv)
    for n in g.nodes():
      if g.kind[n] == 'if' and 'isinstance' in unparse(g.stmt[n].test):
        ok = True
  rs.check(ok, rule, f'{rv.qualname}:key-type',
           'keys that are neither int nor slice are rejected loudly',
           ctx.loc(rv, rv.node))
