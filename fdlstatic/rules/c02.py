"""C02 - one invocation per Buildable instance; built graph mirrors config graph."""
from __future__ import annotations

import ast

from fdlstatic import cfg as cfg_lib
from fdlstatic import idmemo
from fdlstatic.ctx import Ctx, kwarg
from fdlstatic.model import AnalysisError, unparse, walk_function, walk_stmts
from fdlstatic import roles
from fdlstatic.report import RuleSet
from fdlstatic.rules import c01

MT = 'fiddle._src.daglish.MemoizedTraversal'
BUILD = 'fiddle._src.building.build'

EXPLANATION = (
    'Static clauses of C02 decided on the current source: (IDMEMO) the '
    'traversal memo is keyed by id() of the visited value itself, its entry '
    'stores that value (so the id cannot be reused while the table lives), '
    'the lookup returns the stored result component, the entry is written '
    'only after the traversal function returned, and the memo / cycle tables '
    'are per-traversal dataclass fields with default_factory (no table shared '
    'between builds); the internable bypass is taken only when memoization of '
    'internables is switched off, which build() never does; (CYCLE) the '
    'cycle-table entry is set before and removed after the recursive call and '
    'a hit raises; (WMC) build() starts a new MemoizedTraversal per call via '
    'the class-method constructor and no traversal object is kept at module '
    'level; containers go through map_children under the same traversal so '
    'they are memoized as well; every child is visited through State.call -> '
    'traversal.apply (no path bypasses the memo), children in flatten order; '
    '(DOM) children are built before the Buildable is called and '
    'call_buildable is invoked once per memo miss (no loop). Not decided: '
    'the exact invocation count as a dynamic quantity.')
ASSUMPTIONS = [
    'CPython object ids are unique among simultaneously live objects',
    'dataclasses.field(default_factory=dict) creates one table per instance',
]


def run(ctx: Ctx, rs: RuleSet, tier: str):
  p = ctx.p
  apply = ctx.func(f'{MT}.apply')
  g = ctx.cfg(apply)
  value, state = apply.params[1], apply.params[2]

  # ---- IDMEMO on apply
  rule = 'IDMEMO.traversal-memo'
  rs.declare(rule, 'memo keyed by id(visited value), entry pins the value, '
             'lookup returns the result slot, written after the call', 5)
  sites = idmemo.scan_function(ctx, apply)
  memo_sites = [s for s in sites if s.table.endswith('.memo')]
  cyc_sites = [s for s in sites if s.table.endswith('._cycle_start')]
  if not memo_sites:
    rs.fail(rule, f'{apply.qualname}:memo-store',
            'apply() no longer writes an id-keyed memo entry',
            ctx.loc(apply, apply.node))
  result_slot = None
  for s in memo_sites:
    key_ok = isinstance(s.x, ast.Name) and s.x.id == value
    rs.check(key_ok, rule, f'{apply.qualname}:memo-key',
             f'memo key is id({unparse(s.x)}); visited value parameter is '
             f'`{value}`', ctx.loc(apply, s.node))
    rs.check(s.pinned and 'stores' in s.how, rule,
             f'{apply.qualname}:memo-pin',
             s.how or f'the entry `{unparse(s.value)}` does not hold '
             f'`{unparse(s.x)}`: its id can be reused by a temporary created '
             'later in the traversal', ctx.loc(apply, s.node))
    # which tuple slot holds the result of traversal_fn?
    res_names = set()
    for n in walk_function(apply.node):
      if isinstance(n, ast.Assign) and isinstance(
          n.value, ast.Call) and isinstance(
              n.value.func, ast.Attribute) and (
                  n.value.func.attr == 'traversal_fn'):
        res_names |= {t.id for t in n.targets if isinstance(t, ast.Name)}
    if isinstance(s.value, ast.Tuple):
      for i, e in enumerate(s.value.elts):
        if isinstance(e, ast.Name) and e.id in res_names:
          result_slot = i
    elif isinstance(s.value, ast.Name) and s.value.id in res_names:
      result_slot = 'whole'
    # written after the call: dominated by the traversal_fn call node
    calls = [n for n in g.nodes() if any(
        isinstance(e, ast.Call) and isinstance(e.func, ast.Attribute) and
        e.func.attr == 'traversal_fn' for e in cfg_lib.walk_node(g, n))]
    sn = g.nodes_of(s.node)
    ok = bool(sn) and all(
        g.dominated_by(x, set(calls), labels=cfg_lib.NO_EXC) for x in sn)
    rs.check(ok and result_slot is not None, rule,
             f'{apply.qualname}:memo-after-call',
             'the memo entry is written only after traversal_fn returned and '
             f'stores its result (slot {result_slot})', ctx.loc(apply, s.node))
  # lookup returns the result slot
  hit_rets = []
  for n in g.nodes():
    st = g.stmt[n]
    if isinstance(st, ast.Return) and st.value is not None and any(
        isinstance(x, ast.Attribute) and x.attr == 'memo'
        for x in ast.walk(roles.deref_deep(apply, st.value))):
      hit_rets.append((n, st))
  ok = bool(hit_rets)
  for n, st in hit_rets:
    v = roles.deref(apply, st.value)
    if isinstance(v, ast.Subscript) and isinstance(v.value, ast.Name):
      # the entry looked up first: `entry = self.memo.get(k, MISSING)`
      inner = roles.deref(apply, v.value)
      if isinstance(inner, ast.Call) and isinstance(
          inner.func, ast.Attribute) and inner.func.attr == 'get' and isinstance(
              inner.func.value, ast.Attribute) and (
                  inner.func.value.attr == 'memo') and inner.args:
        v = ast.Subscript(value=ast.Subscript(
            value=inner.func.value, slice=inner.args[0], ctx=ast.Load()),
                          slice=v.slice, ctx=ast.Load())
    if result_slot == 'whole':
      good = isinstance(v, ast.Subscript) and not isinstance(
          v.value, ast.Subscript)
    else:
      good = (isinstance(v, ast.Subscript) and isinstance(
          v.slice, ast.Constant) and v.slice.value == result_slot and
              isinstance(v.value, ast.Subscript))
    ok = ok and good
    # the hit branch is guarded by `<id> in self.memo`
    guards = [m for m in g.nodes() if g.kind[m] == 'if' and (any(
        isinstance(c, ast.Compare) and isinstance(c.ops[0], ast.In) and
        isinstance(c.comparators[0], ast.Attribute) and
        c.comparators[0].attr == 'memo' for c in ast.walk(g.stmt[m].test))
                                                           or any(
        # `<entry> is not <sentinel>` for an entry fetched with .get
        isinstance(c, ast.Compare) and isinstance(
            c.ops[0], (ast.Is, ast.IsNot)) and isinstance(
                c.left, ast.Name) and '.memo.get(' in unparse(
                    roles.deref(apply, c.left))
        for c in ast.walk(g.stmt[m].test)))]
    ok = ok and bool(guards) and g.dominated_by(n, set(guards),
                                                labels=cfg_lib.NO_EXC)
  rs.check(ok, rule, f'{apply.qualname}:memo-hit',
           f'a memo hit returns slot {result_slot} of the stored entry',
           ctx.loc(apply, apply.node))
  # whether an entry is a hit is decided by identity alone: a guard that also
  # compares the stored object with `==` hands the decision to user-defined
  # equality (not reflexive for NaN-holding Buildables, arbitrary for user
  # classes), and a shared node is then visited once per reference
  bad_cmp = None
  for m in g.nodes():
    if g.kind[m] != 'if':
      continue
    t = g.stmt[m].test
    mentions_memo = any(isinstance(x, ast.Attribute) and x.attr == 'memo'
                        for x in ast.walk(t))
    if not mentions_memo:
      continue
    for c in ast.walk(t):
      if isinstance(c, ast.Compare) and any(
          isinstance(o, (ast.Eq, ast.NotEq)) for o in c.ops):
        bad_cmp = c
      elif isinstance(c, ast.Call) and not (
          isinstance(c.func, ast.Name) and c.func.id in ('id', 'len', 'type')):
        bad_cmp = c
  rs.check(bad_cmp is None, rule, f'{apply.qualname}:hit-by-identity',
           'the memo lookup is decided by the id key alone (no value '
           'equality, no call on the visited value)' if bad_cmp is None else
           f'the memo lookup also evaluates `{unparse(bad_cmp)[:60]}`: a hit '
           'then depends on user-defined equality / a call on the value, so a '
           'node whose == is not reflexive (a NaN argument) is visited - and '
           'built - once per reference', ctx.loc(apply, bad_cmp or apply.node))
  # every return of apply is a memo hit, a traversal_fn result, or the bypass
  rets = [n for n in g.nodes() if isinstance(g.stmt[n], ast.Return)]
  bypass = [n for n in rets if isinstance(g.stmt[n].value, ast.Call) and
            isinstance(g.stmt[n].value.func, ast.Attribute) and
            g.stmt[n].value.func.attr == 'traversal_fn']
  for n in bypass:
    # dominated by a test `not self.memoize_internables and ...`
    ok = False
    for m in g.nodes():
      if g.kind[m] == 'if':
        t = g.stmt[m].test
        conj = t.values if isinstance(t, ast.BoolOp) and isinstance(
            t.op, ast.And) else [t]
        neg_flag = any(isinstance(c, ast.UnaryOp) and isinstance(
            c.op, ast.Not) and isinstance(c.operand, ast.Attribute) and
                       c.operand.attr == 'memoize_internables' for c in conj)
        internable = any(isinstance(c, ast.Call) and unparse(c.func).endswith(
            'is_internable') for c in conj)
        t_succ = {x for x, lab in g.succ[m] if lab == 'true'}
        if neg_flag and internable and n in g.reach(
            t_succ, labels=cfg_lib.NO_EXC) and n not in g.reach(
                [x for x, lab in g.succ[m] if lab == 'false'],
                labels=cfg_lib.NO_EXC):
          ok = True
    rs.check(ok, rule, f'{apply.qualname}:bypass',
             'the un-memoized path is taken only when memoize_internables is '
             'off and the value is internable', ctx.loc(apply, g.stmt[n]))

  # ---- CYCLE
  rule = 'CYCLE.table'
  rs.declare(rule, 'cycle entry set before / removed after the recursive '
             'call; a hit raises', 3)
  call_nodes = [n for n in g.nodes() if any(
      isinstance(e, ast.Call) and isinstance(e.func, ast.Attribute) and
      e.func.attr == 'traversal_fn' for e in cfg_lib.walk_node(g, n))]
  sets = [x for s in cyc_sites for x in g.nodes_of(s.node)]
  dels = [n for n in g.nodes() if isinstance(g.stmt[n], ast.Delete) and any(
      isinstance(t, ast.Subscript) and isinstance(t.value, ast.Attribute) and
      t.value.attr == '_cycle_start' for t in g.stmt[n].targets)]
  memo_call = [n for n in call_nodes if n not in bypass]
  ok_set = bool(sets) and all(
      g.dominated_by(c, set(sets), labels=cfg_lib.NO_EXC) for c in memo_call)
  rs.check(ok_set and bool(memo_call), rule, f'{apply.qualname}:set-before',
           'the cycle entry is set before the memoized call',
           ctx.loc(apply, apply.node))
  ok_del = bool(dels) and all(
      g.postdominated_by(c, set(dels), [g.exit], labels=cfg_lib.NO_EXC)
      for c in memo_call)
  rs.check(ok_del, rule, f'{apply.qualname}:del-after',
           'the cycle entry is removed on every normal path after the call',
           ctx.loc(apply, apply.node))
  for s in cyc_sites:
    rs.check(isinstance(s.x, ast.Name) and s.x.id == value, rule,
             f'{apply.qualname}:cycle-key',
             f'cycle key is id({unparse(s.x)})', ctx.loc(apply, s.node))
  ok = False
  def _on_stack(c):
    return (isinstance(c, ast.Compare) and len(c.ops) == 1 and isinstance(
        c.ops[0], ast.In) and isinstance(c.comparators[0], ast.Attribute) and
            c.comparators[0].attr == '_cycle_start')

  for m in g.nodes():
    lab_hit = roles.branch_when(g.stmt[m].test, _on_stack) if (
        g.kind[m] == 'if') else None
    if lab_hit is not None:
      t_succ = [x for x, lab in g.succ[m] if lab == lab_hit]
      r = g.reach(t_succ, labels=cfg_lib.NO_EXC)
      # it must be tested before the entry is (re)set
      before = all(g.dominated_by(x, {m}, labels=cfg_lib.NO_EXC) for x in sets)
      if g.exit not in r and g.raise_exit in r and before:
        ok = True
  if not ok:
    # the same test written as a lookup: `try: s = self._cycle_start[k]` /
    # `except KeyError: pass` / `else: raise`
    for t_ in walk_function(apply.node):
      if not (isinstance(t_, ast.Try) and t_.orelse and not t_.finalbody):
        continue
      looks = [x for b_ in t_.body for x in ast.walk(b_) if isinstance(
          x, ast.Subscript) and isinstance(x.ctx, ast.Load) and isinstance(
              x.value, ast.Attribute) and x.value.attr == '_cycle_start']
      only_lookup = len(t_.body) == 1 and bool(looks)
      misses = all(isinstance(h_.type, ast.Name) and h_.type.id == 'KeyError'
                   and all(isinstance(b_, ast.Pass) for b_ in h_.body)
                   for h_ in t_.handlers) and bool(t_.handlers)
      raises = isinstance(t_.orelse[-1], ast.Raise) or isinstance(
          t_.orelse[0], ast.Raise)
      try_nodes = [m for m in g.nodes() if g.stmt[m] is t_.body[0]]
      before = bool(try_nodes) and all(
          g.dominated_by(x, set(try_nodes), labels=cfg_lib.NO_EXC)
          for x in sets)
      if only_lookup and misses and raises and before:
        ok = True
  rs.check(ok, rule, f'{apply.qualname}:hit-raises',
           'meeting a value that is still on the traversal stack raises',
           ctx.loc(apply, apply.node))

  # ---- per-traversal tables
  rule = 'WMC.per-build-tables'
  rs.declare(rule, 'memo tables are per-instance; build() creates a new '
             'traversal per call; nothing is kept at module level', 4)
  mt = ctx.cls(MT)
  for fld in ('memo', '_cycle_start'):
    v = mt.class_assigns.get(fld)
    ok = (isinstance(v, ast.Call) and unparse(v.func).endswith('field') and
          kwarg(v, 'default_factory') is not None and
          unparse(kwarg(v, 'default_factory')) in ('dict', 'collections.OrderedDict'))
    rs.check(ok, rule, f'{MT}:{fld}',
             f'{fld} = {unparse(v) if v is not None else "<missing>"}',
             ctx.loc(mt, mt.node))
  bt = ctx.cls('fiddle._src.daglish.BasicTraversal')
  v = bt.class_assigns.get('paths_cache')
  rs.check(isinstance(v, ast.Call) and kwarg(v, 'default_factory') is not None,
           rule, f'{bt.qualname}:paths_cache',
           f'paths_cache = {unparse(v) if v is not None else "<missing>"}',
           ctx.loc(bt, bt.node))
  # Traversal.run / begin construct a new instance from cls(...)
  for name in ('run', 'begin'):
    for cq in (MT, 'fiddle._src.daglish.Traversal'):
      f = ctx.cls(cq).methods.get(name)
      if f is None:
        continue
      decos = {getattr(d, 'id', None) for d in f.decorators}
      makes = any(isinstance(c.func, ast.Name) and c.func.id == f.params[0]
                  for c in ctx.calls(f))
      delegates = any(isinstance(c.func, ast.Attribute) and
                      c.func.attr == 'begin' and isinstance(
                          c.func.value, ast.Name) and
                      c.func.value.id == f.params[0] for c in ctx.calls(f))
      rs.check('classmethod' in decos and (makes or delegates), rule,
               f'{f.qualname}:fresh-instance',
               'class-method constructor: every call creates a new traversal '
               'object', ctx.loc(f, f.node))
  # build() uses it; no module-level traversal instances
  bf = ctx.func(BUILD)
  uses = [c for c in ctx.calls(bf)
          if p.resolve(c.func, bf) == 'fiddle._src.daglish.Traversal.run' and
          isinstance(c.func, ast.Attribute) and isinstance(
              c.func.value, ast.Attribute) and
          c.func.value.attr == 'MemoizedTraversal']
  rs.check(len(uses) == 1 and not uses[0].keywords, rule,
           f'{BUILD}:traversal',
           'build() runs MemoizedTraversal.run(...) with default settings '
           '(internables memoized)', ctx.loc(bf, bf.node))
  offenders = []
  for mq, mod in p.modules.items():
    for name, val in mod.assigns.items():
      if isinstance(val, ast.Call):
        q = p.resolve(val.func, mod)
        if q in p.classes and 'fiddle._src.daglish.Traversal' in p.mro(q):
          offenders.append(f'{mq}.{name}')
  rs.check(not offenders, rule, 'module-level-traversals',
           'no Traversal instance is stored at module level' if not offenders
           else f'module-level traversal objects: {offenders}', '',
           nontrivial=False)

  # ---- no bypass of the memo
  rule = 'WMC.all-children-through-apply'
  rs.declare(rule, 'every child visit goes State.call -> traversal.apply; '
             'children are visited in flatten order', 3)
  call_f = ctx.func('fiddle._src.daglish.State.call')
  rets = [n for n in walk_function(call_f.node) if isinstance(n, ast.Return)]
  new_states = []

  def is_apply(r):
    v = roles.deref(call_f, r.value) if r.value is not None else None
    if not (isinstance(v, ast.Call) and isinstance(
        v.func, ast.Attribute) and v.func.attr == 'apply' and len(
            v.args) == 2 and not v.keywords):
      return False
    recv = roles.deref(call_f, v.func.value)
    if unparse(recv) != f'{call_f.params[0]}.traversal':
      return False
    if not (isinstance(v.args[0], ast.Name) and
            v.args[0].id == call_f.params[1]):
      return False
    new_states.append(roles.deref(call_f, v.args[1]))
    return True

  ok = bool(rets) and all(is_apply(r) for r in rets)
  rs.check(ok, rule, f'{call_f.qualname}:apply',
           'State.call returns self.traversal.apply(value, new_state)',
           ctx.loc(call_f, call_f.node))
  # new state carries the value and extended path
  ok = bool(new_states)
  for c in new_states:
    b = ctx.bound_args(c, call_f) if isinstance(c, ast.Call) and p.resolve(
        c.func, call_f) == 'fiddle._src.daglish.State' else None
    names = list(b) if b else []
    good = False
    if b and len(names) >= 3:
      path_arg = roles.deref(call_f, b[names[1]])
      trav = roles.deref(call_f, b[names[0]])
      good = (unparse(trav) == f'{call_f.params[0]}.traversal' and
              isinstance(b[names[2]], ast.Name) and
              b[names[2]].id == call_f.params[1] and
              isinstance(path_arg, ast.Tuple) and len(path_arg.elts) == 2 and
              all(isinstance(e, ast.Starred) for e in path_arg.elts) and
              unparse(path_arg.elts[0].value) == (
                  f'{call_f.params[0]}.current_path') and
              len(call_f.params) > 2 and unparse(
                  path_arg.elts[1].value) == call_f.params[2])
    ok = ok and good
  rs.check(ok, rule, f'{call_f.qualname}:state',
           'the child state holds the child value and current_path + element',
           ctx.loc(call_f, call_f.node))
  fm = ctx.func('fiddle._src.daglish.State._flattened_map_children')
  # new_subvalues = [self.call(v, pe) for v, pe in zip(subvalues, path_elements)]
  ok = False
  for n in roles.both_forms(fm):
    if isinstance(n, ast.ListComp) and isinstance(n.elt, ast.Call) and (
        isinstance(n.elt.func, ast.Attribute) and n.elt.func.attr == 'call'):
      gen = n.generators[0]
      if isinstance(gen.iter, ast.Call) and isinstance(
          gen.iter.func, ast.Name) and gen.iter.func.id == 'zip' and len(
              gen.iter.args) == 2 and not gen.ifs:
        tgt = [e.id for e in gen.target.elts] if isinstance(
            gen.target, ast.Tuple) else []
        args = [a.id for a in n.elt.args if isinstance(a, ast.Name)]
        ok = tgt == args and len(tgt) == 2
  rs.check(ok, rule, f'{fm.qualname}:children',
           'children = [self.call(value_i, element_i)] over '
           'zip(flatten values, path elements), unfiltered and in order',
           ctx.loc(fm, fm.node))
  # values/metadata come from one flatten call on the visited value
  ok = False
  for n in walk_function(fm.node):
    if isinstance(n, ast.Assign) and isinstance(n.value, ast.Call) and (
        isinstance(n.value.func, ast.Attribute) and
        n.value.func.attr == 'flatten') and n.value.args and isinstance(
            n.value.args[0], ast.Name) and n.value.args[0].id == fm.params[1]:
      ok = True
  rs.check(ok, rule, f'{fm.qualname}:flatten',
           'values and metadata come from flatten(value) of the visited value',
           ctx.loc(fm, fm.node))

  # ---- containers are rebuilt, never handed through
  from fdlstatic.rules import c08
  rs.declare('SHAPE.map-children', 'map_children returns a rebuilt container '
             'for every traversable value (built objects are never the '
             'configuration\'s own containers; separate builds share nothing)',
             1)
  c08.map_children_rule(ctx, rs, 'SHAPE.map-children')
  # ---- no cache between a Buildable and its built value
  rule_c = 'FRESH.no-build-cache'
  rs.declare(rule_c, 'no function on the build path returns a cached result '
             '(distinct but equal Buildables are built separately)', 1)
  closure = ctx.cg.reachable([BUILD], kinds=('exact', 'nested', 'proto', 'inst'))
  accepted = {
      'fiddle._src.reraised_exception.make_exception_class':
          'error path only: the proxy exception *class* per exception type, '
          'not a built value',
  }
  cached = []
  for q in sorted(closure):
    f2 = p.funcs.get(q)
    if f2 is None or not q.startswith('fiddle._src.') or f2.is_lambda:
      continue
    if any('cache' in unparse(d) for d in f2.decorators):
      cached.append(f2)
  for f2 in cached:
    if f2.qualname in accepted:
      rs.exception(rule_c, f2.qualname, accepted[f2.qualname])
      rs.ok(rule_c, f2.qualname, 'cached, accepted: ' + accepted[f2.qualname],
            ctx.loc(f2, f2.node))
    else:
      rs.fail(rule_c, f2.qualname,
              f'{f2.qualname} is decorated with a cache and lies on the build '
              'path: two distinct Buildables with equal (hashable) arguments '
              'receive the same object, so they are built once and share one '
              'result', ctx.loc(f2, f2.node),
              witness=ctx.cg.path_to(closure, f2.qualname))
  if not cached:
    rs.ok(rule_c, BUILD, f'{len(closure)} functions on the build path, none '
          'cached', '')
  # ---- children before call, once per miss
  c01.children_before_call(ctx, rs)
  rule = 'DOM.single-invocation'
  rs.declare(rule, 'the build callback invokes call_buildable at most once '
             'per visit (not inside a loop)', 1)
  for f in ctx.p.callbacks(ctx.func(BUILD)):
    for n in walk_function(f.node):
      if isinstance(n, (ast.For, ast.While, ast.ListComp, ast.GeneratorExp)):
        for sub in ast.walk(n):
          if isinstance(sub, ast.Call) and p.resolve(
              sub.func, f) == 'fiddle._src.building.call_buildable':
            rs.fail(rule, f'{f.qualname}:call_buildable',
                    'call_buildable is invoked inside a loop',
                    ctx.loc(f, sub))
    cs = [c for c in ctx.calls(f)
          if p.resolve(c.func, f) == 'fiddle._src.building.call_buildable']
    if cs:
      rs.check(len(cs) == 1, rule, f'{f.qualname}:call_buildable',
               f'{len(cs)} call site(s) of call_buildable in the callback',
               ctx.loc(f, f.node))


MANIFEST = dict(
    text=('Decides the structural clauses on which exact-once building rests, '
          'for every DAG shape: identity-keyed memo with pinned entries (ids '
          'cannot be recycled for temporaries), result-slot agreement between '
          'store and lookup, write-after-call, cycle-table set/remove pairing '
          'with a raising hit, per-traversal tables and a fresh traversal per '
          'build, no child visit bypassing apply(), children-before-call and '
          'a single invocation site. The invocation count itself is a runtime '
          'quantity and is not decided.'),
    note=('Trusted: ast, CFG dominance; CPython id() uniqueness among live '
          'objects; dataclasses default_factory semantics.'),
    technique='static analysis: identity-table pinning rule, CFG dominance / post-dominance, who-may-construct, def-use chains',
)
