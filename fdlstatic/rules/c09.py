"""C09 - JSON serialization is lossless or loud, and policy-gated."""
from __future__ import annotations

import ast
import re

from fdlstatic import cfg as cfg_lib
from fdlstatic import idmemo
from fdlstatic.ctx import Ctx, kwarg
from fdlstatic.model import AnalysisError, unparse, walk_function, walk_stmts
from fdlstatic import roles
from fdlstatic.report import RuleSet
from fdlstatic.rules import c08

SER = 'fiddle._src.experimental.serialization'
INJECTIVE_BYTE_CODECS = {'latin-1', 'latin1', 'latin_1', 'iso-8859-1',
                         'iso8859-1', 'l1', '8859', 'cp819'}
DYNAMIC_RESOLVERS = {'importlib.import_module', 'builtins.__import__',
                     'builtins.eval', 'builtins.exec', 'pydoc.locate',
                     'pkgutil.resolve_name', 'importlib.__import__'}

EXPLANATION = (
    'Static clauses of C09 decided on the current source: (DOM) in '
    'import_symbol the module import is dominated by the true branch of '
    'policy.allows_import(module, symbol), every returned value by the true '
    'branch of policy.allows_value(<that value>), and the fall-through raises '
    'PyrefPolicyError; (WMC) in the call-graph closure of load_json dynamic '
    'symbol resolution (import_module, __import__, eval, exec, locate) occurs '
    'only inside import_symbol; the policy object is stored once from the '
    'constructor parameter and is the one handed to import_symbol; '
    'reconstruction of Buildables (__unflatten__, __init_callable__, '
    '__setstate__) never calls the configured callable; (INV) every '
    'flatten/unflatten pair that carries bytes through str uses the same '
    'codec in both directions and that codec is injective on all 256 byte '
    'values; (IDMEMO) the reference memo is keyed by id(value) and pins the '
    'value in the same block; (EXH) the untraversable branch of _serialize '
    'and the unknown-type branches of _deserialize end in raise; items are '
    'written as (path-element, value) pairs and read back from the value '
    'slot; history is stripped from Buildable metadata and unset parameters '
    'are not materialised; (LIT) float leaves require json.dumps(..., '
    'allow_nan=False) for the output to be valid JSON. Not decided: '
    'losslessness for every value.')
ASSUMPTIONS = [
    'json.dumps / json.loads round-trip int, str, bool, None and finite '
    'floats exactly',
    'registered traversers of other libraries are not analysed',
]


def run(ctx: Ctx, rs: RuleSet, tier: str):
  p = ctx.p
  _policy_rules(ctx, rs)
  _codec_rule(ctx, rs)
  _memo_rule(ctx, rs)
  _loud_rules(ctx, rs)
  _shape_rules(ctx, rs)
  _leaf_type_rule(ctx, rs)
  _nan_rule(ctx, rs)


def _policy_rules(ctx: Ctx, rs: RuleSet):
  p = ctx.p
  rule = 'DOM.policy-gates'
  rs.declare(rule, 'imports and returned values of import_symbol are gated by '
             'the policy; fall-through raises', 4)
  # a policy decision is taken per call: nothing that consults the policy or
  # resolves a symbol may be memoised across calls (a cache keyed by the
  # arguments answers for another policy instance that compares equal, or
  # for a policy whose configuration has changed since)
  rule_pc = 'DOM.policy-per-call'
  rs.declare(rule_pc, 'functions that consult the policy or resolve symbols '
             'dynamically carry no memoising decorator', 1)
  for h in p.funcs.values():
    if h.module.name != SER or h.is_lambda:
      continue
    consults = [e for e in walk_function(h.node) if isinstance(e, ast.Call) and (
        (isinstance(e.func, ast.Attribute) and
         e.func.attr in ('allows_import', 'allows_value')) or
        p.resolve(e.func, h) in DYNAMIC_RESOLVERS)]
    if not consults:
      continue
    memo = [unparse(d) for d in h.node.decorator_list
            if re.search(r'\b(lru_cache|cache|cached_property)\b', unparse(d))]
    rs.check(not memo, rule_pc, f'{h.qualname}:decorators',
             'not memoised' if not memo else
             f'decorated with {memo[0]}: a policy decision or a resolved '
             'symbol is remembered across calls, so a later load under a '
             'stricter policy (an equal-comparing instance, or the same '
             'instance reconfigured) is answered without consulting it',
             ctx.loc(h, h.node))
  f = ctx.func(f'{SER}.import_symbol')
  g = ctx.cfg(f)
  pol = f.params[0]

  def policy_if(method):
    """[(if node, policy call, label of the approving branch)]"""
    out = []
    for n in g.nodes():
      if g.kind[n] == 'if':
        t = g.stmt[n].test
        label = 'true'
        if isinstance(t, ast.UnaryOp) and isinstance(t.op, ast.Not):
          t = t.operand
          label = 'false'
        if isinstance(t, ast.Call) and isinstance(
            t.func, ast.Attribute) and t.func.attr == method and unparse(
                t.func.value) == pol:
          out.append((n, t, label))
    return out

  def only_via_true(target, ifnode, label='true'):
    r = g.reach([g.entry], labels=cfg_lib.NO_EXC,
                edge_ok=lambda a, b, lab: not (a == ifnode and lab == label))
    return target not in r

  imports = [n for n in g.nodes() if any(
      isinstance(e, ast.Call) and p.resolve(e.func, f) in DYNAMIC_RESOLVERS
      for e in cfg_lib.walk_node(g, n))]
  ai = policy_if('allows_import')
  av = policy_if('allows_value')
  if not imports:
    raise AnalysisError('import_symbol no longer imports anything')
  for n in imports:
    ok = any(only_via_true(n, m, lab) and [unparse(a) for a in t.args] ==
             f.params[1:3] for m, t, lab in ai)
    rs.check(ok, rule, f'{f.qualname}:import',
             'import_module is reached only through the true branch of '
             f'{pol}.allows_import({", ".join(f.params[1:3])})' if ok else
             'the module is imported on a path that has not passed '
             'policy.allows_import(module, symbol)', ctx.loc(f, g.stmt[n]))
  rets = [n for n in g.nodes() if isinstance(g.stmt[n], ast.Return)]
  if not rets:
    rs.fail(rule, f'{f.qualname}:return', 'import_symbol never returns',
            ctx.loc(f, f.node))
  for n in rets:
    v = g.stmt[n].value
    ok = v is not None and any(
        only_via_true(n, m, lab) and len(t.args) == 1 and
        unparse(t.args[0]) == unparse(v) for m, t, lab in av) and any(
            only_via_true(n, m, lab) for m, t, lab in ai)
    rs.check(ok, rule, f'{f.qualname}:return',
             f'`return {unparse(v) if v else ""}` is reached only after '
             'allows_import(...) and allows_value(<the returned value>) were '
             'both true' if ok else
             f'`return {unparse(v) if v else ""}` can be reached without both '
             'policy checks having approved it', ctx.loc(f, g.stmt[n]))
  # the value checked is the value produced by the import chain: no write to
  # the returned variable between the allows_value test and the return
  for n in rets:
    v = g.stmt[n].value
    if isinstance(v, ast.Name):
      for m, t, ok_lab in av:
        between = g.reach([x for x, lab in g.succ[m] if lab == ok_lab],
                          blocked={n}, labels=cfg_lib.NO_EXC)
        dirty = [x for x in between if x != n and isinstance(
            g.stmt[x], ast.Assign) and any(
                isinstance(tg, ast.Name) and tg.id == v.id
                for tg in g.stmt[x].targets)]
        rs.check(not dirty, rule, f'{f.qualname}:checked-value',
                 'the approved value is returned unchanged',
                 ctx.loc(f, g.stmt[n]))
  # fall-through raises the policy error
  tail = [n for n in g.nodes() if isinstance(g.stmt[n], ast.Raise) and
          'PyrefPolicyError' in unparse(g.stmt[n])]
  # every path that is not a return ends in that raise
  r = g.reach([g.entry], blocked=set(rets) | set(tail), labels=cfg_lib.NO_EXC)
  rs.check(bool(tail) and g.exit not in r, rule, f'{f.qualname}:fallthrough',
           'a symbol rejected by either check raises PyrefPolicyError',
           ctx.loc(f, f.node))

  rule = 'WMC.symbol-resolution'
  rs.declare(rule, 'dynamic symbol resolution happens only in import_symbol '
             'within the closure of load_json / dump_json', 3)
  closure = ctx.cg.reachable([f'{SER}.load_json', f'{SER}.dump_json',
                              f'{SER}.Deserialization.__init__',
                              f'{SER}.Serialization.__init__'],
                             kinds=('exact', 'ref', 'nested'))
  offenders = []
  n_sites = 0
  for q in sorted(closure):
    ff = p.funcs.get(q)
    if ff is None:
      continue
    for c in ctx.calls(ff):
      r = p.resolve(c.func, ff)
      if r in DYNAMIC_RESOLVERS:
        n_sites += 1
        key = f'{q}:{r}'
        if q == f.qualname:
          rs.ok(rule, key, 'inside import_symbol (policy-gated)',
                ctx.loc(ff, c))
        else:
          rs.fail(rule, key, f'{q} resolves symbols with {r} outside '
                  'import_symbol: the reference policy is bypassed',
                  ctx.loc(ff, c), witness=ctx.cg.path_to(closure, q))
  # policy plumbing
  for cname in ('Deserialization', 'Serialization'):
    init = ctx.func(f'{SER}.{cname}.__init__')
    stores = [n for n in walk_function(init.node) if isinstance(n, ast.Assign)
              and any(isinstance(t, ast.Attribute) and
                      t.attr == '_pyref_policy' for t in n.targets)]
    other_stores = []
    for m in ctx.cls(f'{SER}.{cname}').methods.values():
      if m is init:
        continue
      for n in walk_function(m.node):
        if isinstance(n, (ast.Assign, ast.AugAssign)):
          for t in (n.targets if isinstance(n, ast.Assign) else [n.target]):
            if isinstance(t, ast.Attribute) and t.attr == '_pyref_policy':
              other_stores.append(m.qualname)
    ok = len(stores) == 1 and not other_stores
    if ok:
      v = stores[0].value
      names = {x.id for x in ast.walk(v) if isinstance(x, ast.Name)}
      ok = 'pyref_policy' in names and 'pyref_policy' in init.params
      # `pyref_policy or DefaultPyrefPolicy()`: parameter must come first
      if isinstance(v, ast.BoolOp):
        ok = ok and isinstance(v.op, ast.Or) and unparse(
            v.values[0]) == 'pyref_policy'
    rs.check(ok, rule, f'{init.qualname}:_pyref_policy',
             'the policy is stored once, from the constructor parameter '
             '(default only when none is supplied)', ctx.loc(init, init.node))
  dp = ctx.func(f'{SER}.Deserialization._deserialize_pyref')
  ok = False
  for c in ctx.calls(dp):
    if p.resolve(c.func, dp) == f.qualname:
      ok = c.args and unparse(c.args[0]) == f'{dp.params[0]}._pyref_policy'
  rs.check(ok, rule, f'{dp.qualname}:policy',
           'pyrefs are resolved through import_symbol(self._pyref_policy, ...)',
           ctx.loc(dp, dp.node))
  for fn, cls in (('load_json', 'Deserialization'), ('dump_json',
                                                     'Serialization')):
    ff = ctx.func(f'{SER}.{fn}')
    ok = False
    for c in ctx.calls(ff):
      if p.resolve(c.func, ff) == f'{SER}.{cls}':
        args = [unparse(a) for a in c.args] + [
            unparse(k.value) for k in c.keywords]
        ok = 'pyref_policy' in args
    rs.check(ok, rule, f'{ff.qualname}:policy',
             f'{fn} hands its pyref_policy to {cls}', ctx.loc(ff, ff.node))

  rule = 'TAINT.callable-not-invoked'
  rs.declare(rule, 'rebuilding a Buildable never calls the configured '
             'callable', 3)
  for q in ('fiddle._src.config.Buildable.__unflatten__',
            'fiddle._src.config.Buildable.__init_callable__',
            'fiddle._src.config.Buildable.__setstate__',
            'fiddle._src.config.BuildableTraverserMetadata.arguments',
            'fiddle._src.config.BuildableTraverserMetadata.tags',
            'fiddle._src.config.BuildableTraverserMetadata.history',
            f'{SER}.Deserialization._deserialize'):
    ff = ctx.func(q)
    bad = [c for c in ctx.calls(ff) if any(
        isinstance(x, (ast.Name, ast.Attribute)) and
        (getattr(x, 'id', None) == 'fn_or_cls' or
         getattr(x, 'attr', None) in ('fn_or_cls', '__fn_or_cls__'))
        for x in ast.walk(c.func))]
    rs.check(not bad, rule, q,
             'no call expression has the configured callable as callee'
             if not bad else f'calls the configured callable: '
             f'`{unparse(bad[0])[:70]}`', ctx.loc(ff, bad[0] if bad else ff.node),
             nontrivial=False)


def _codec_calls(fn_node):
  out = []
  for n in ast.walk(fn_node):
    if isinstance(n, ast.Call) and isinstance(
        n.func, ast.Attribute) and n.func.attr in ('encode', 'decode'):
      codec = None
      if n.args and isinstance(n.args[0], ast.Constant):
        codec = n.args[0].value
      elif kwarg(n, 'encoding') is not None and isinstance(
          kwarg(n, 'encoding'), ast.Constant):
        codec = kwarg(n, 'encoding').value
      elif not n.args:
        codec = 'utf-8'
      out.append((n.func.attr, codec, n))
  return out


def _codec_rule(ctx: Ctx, rs: RuleSet):
  rule = 'INV.byte-codec'
  rs.declare(rule, 'bytes are carried through str with one codec, injective '
             'on all byte values, in both directions', 1)
  regs = [r for r in c08.find_registrations(ctx)
          if r.scope.module.name == SER]
  found = 0
  for r in regs:
    fl = c08.resolve_fn(ctx, r.flatten, r.scope)
    un = c08.resolve_fn(ctx, r.unflatten, r.scope)
    if not fl or not un or fl[0] != 'func' or un[0] != 'func':
      continue
    a = _codec_calls(fl[1].node)
    b = _codec_calls(un[1].node)
    if not a and not b:
      continue
    found += 1
    tname = unparse(r.node_type)
    key = f'{SER}:register({tname}):codec'
    dec = [c for d, c, _ in a if d == 'decode']
    enc = [c for d, c, _ in b if d == 'encode']
    ok = len(dec) == 1 and len(enc) == 1 and dec[0] == enc[0] and isinstance(
        dec[0], str) and dec[0].lower() in INJECTIVE_BYTE_CODECS
    rs.check(ok, rule, key,
             f'flatten decodes with {dec}, unflatten encodes with {enc}' + (
                 '' if ok else ': the codec must be the same in both '
                 'directions and map all 256 byte values to distinct '
                 'characters (latin-1); e.g. raw_unicode_escape decodes the '
                 "6 bytes b'\\\\u0041' to 'A', which encodes back to b'A'"),
             ctx.loc(r.scope, r.call))
  if not found:
    raise AnalysisError('no codec-based traverser found in serialization.py')


def _memo_rule(ctx: Ctx, rs: RuleSet):
  rule = 'IDMEMO.reference-memo'
  rs.declare(rule, 'the reference memo is keyed by id(value) and pins value '
             'in the same block; lookups use the same key', 2)
  f = ctx.func(f'{SER}.Serialization._serialize')
  sites = [s for s in idmemo.scan_function(ctx, f) if s.table.endswith('._memo')]
  if not sites:
    rs.fail(rule, f'{f.qualname}:_memo', 'no id-keyed memo store found',
            ctx.loc(f, f.node))
  val = f.params[1]
  for s in sites:
    rs.check(unparse(s.x) == val, rule, f'{f.qualname}:_memo:key',
             f'keyed by id({unparse(s.x)})', ctx.loc(f, s.node))
    # the pin runs whenever the store runs: on every path the store is
    # either preceded (dominated) or followed (post-dominated, exceptions
    # aside) by `<container>.append(value)` / `.add(value)`
    gm = ctx.cfg(f)
    pins = {n for n in gm.nodes() if any(
        isinstance(x, ast.Call) and isinstance(x.func, ast.Attribute) and
        x.func.attr in ('append', 'add') and x.args and
        unparse(x.args[0]) == val for x in cfg_lib.walk_node(gm, n))}
    store_nodes = [n for n in gm.nodes() if any(
        x is s.node for x in cfg_lib.walk_node(gm, n)) or gm.stmt[n] is s.node]
    same_block = bool(pins) and bool(store_nodes) and all(
        gm.dominated_by(n, pins, labels=cfg_lib.NO_EXC) or
        gm.postdominated_by(n, pins, [gm.exit], labels=cfg_lib.NO_EXC)
        for n in store_nodes)
    rs.check(s.pinned and same_block, rule, f'{f.qualname}:_memo:pin',
             s.how if s.pinned and same_block else
             f'`{unparse(s.node)}` records id({val}) but `{val}` is not kept '
             'alive by this block: metadata objects are temporaries whose id '
             'can be reused within one dump', ctx.loc(f, s.node))
  # the hit returns a reference to the memoised name
  g = ctx.cfg(f)
  ok = False
  for n in g.nodes():
    if g.kind[n] != 'if':
      continue
    # the test may look the entry up first: `hit = self._memo.get(id(value))`
    tt = unparse(roles.deref_deep(f, g.stmt[n].test))
    if 'self._memo' in tt and f'id({val})' in tt:
      st_ = g.stmt[n]
      neg = isinstance(st_.test, ast.Compare) and isinstance(
          st_.test.ops[0], ast.Is) and 'None' in unparse(
              st_.test.comparators[0])
      body = st_.orelse if neg and st_.orelse else st_.body
      if neg and not st_.orelse:
        continue
      if len(body) == 1 and isinstance(body[0], ast.Return):
        rt = unparse(roles.deref_deep(f, body[0].value))
        if '_ref(' in rt and (f'self._memo[id({val})]' in rt or
                              f'self._memo.get(id({val})' in rt):
          ok = True
  rs.check(ok, rule, f'{f.qualname}:_memo:hit',
           'a memo hit returns _ref(self._memo[id(value)])', ctx.loc(f, f.node))
  # deserialization shares references: _deserialize_ref caches by key
  dr = ctx.func(f'{SER}.Deserialization._deserialize_ref')
  g = ctx.cfg(dr)
  stores = [n for n in g.nodes() if isinstance(g.stmt[n], ast.Assign) and any(
      isinstance(t, ast.Subscript) and
      unparse(t.value).endswith('_deserialized_objects')
      for t in g.stmt[n].targets)]
  def _test_text(gg, n):
    # the test with its names read as the definition reaching it
    t = gg.stmt[n].test
    parts = [unparse(t)]
    for x in ast.walk(t):
      if isinstance(x, ast.Name):
        parts.append(unparse(roles.value_at(gg, n, x)[0]))
    return ' '.join(parts)

  def _hit_test(gg, n):
    # `key in <table>`, or a looked-up entry compared by identity with the
    # value that stands for "absent" - not its truthiness (an empty container
    # that was deserialized is an entry too)
    t = gg.stmt[n].test
    for c in ast.walk(t):
      if isinstance(c, ast.Compare) and len(c.ops) == 1:
        if isinstance(c.ops[0], (ast.In, ast.NotIn)) and (
            '_deserialized_objects' in unparse(c.comparators[0])):
          return True
        if isinstance(c.ops[0], (ast.Is, ast.IsNot)) and isinstance(
            c.left, ast.Name) and '_deserialized_objects' in unparse(
                roles.value_at(gg, n, c.left)[0]):
          return True
    return False

  hits = [n for n in g.nodes() if g.kind[n] == 'if' and _hit_test(g, n)]
  rs.check(bool(stores) and bool(hits), rule, f'{dr.qualname}',
           'each referenced object is deserialized once and cached by key '
           '(sharing is reproduced)', ctx.loc(dr, dr.node))


def _loud_rules(ctx: Ctx, rs: RuleSet):
  rule = 'EXH.loud-defaults'
  rs.declare(rule, 'unsupported values / documents are rejected with an '
             'error', 3)
  f = ctx.func(f'{SER}.Serialization._serialize')
  g = ctx.cfg(f)
  # the `traverser is None` branch: last else raises
  ok = False
  trav = roles.assigned_from(f, roles.call_of('find_node_traverser'))
  # no traverser and none of the special cases (leaf type, importable symbol,
  # proxy, registered constant): every test of those is false - the only way
  # on is a raise of UnserializableValueError
  from fdlstatic import dispatch
  leaf_q = ctx.func(f'{SER}._is_leaf_type').qualname  # wherever it lives

  def _ev(t):
    nt = roles.is_none_test(t, trav)
    if nt is not None:
      return nt  # `traverser is None` holds
    if isinstance(t, ast.Call) and (unparse(t.func) == 'isinstance' or
                                    ctx.p.resolve(t.func, f) == leaf_q):
      return False
    if isinstance(t, ast.Compare) and isinstance(t.ops[0], ast.In) and (
        '_serialization_constants' in unparse(t.comparators[0])):
      return False
    # the registered-constant lookup done by a helper that returns None when
    # there is none: `(c := lookup(value)) is not None`
    if isinstance(t, ast.Compare) and len(t.ops) == 1 and isinstance(
        t.ops[0], (ast.Is, ast.IsNot)) and isinstance(
            t.comparators[0], ast.Constant) and (
                t.comparators[0].value is None):
      left = t.left.value if isinstance(t.left, ast.NamedExpr) else (
          roles.deref(f, t.left))
      if isinstance(left, ast.Call) and isinstance(
          left.func, ast.Attribute) and left.func.attr == 'get' and (
              '_serialization_constants' in unparse(left.func.value)) and (
                  len(left.args) == 1 or (len(left.args) == 2 and isinstance(
                      left.args[1], ast.Constant) and
                                          left.args[1].value is None)):
        return isinstance(t.ops[0], ast.Is)   # the lookup finds nothing
      if isinstance(left, ast.Call):
        h = ctx.p.funcs.get(ctx.p.resolve(left.func, f) or '')
        if h is not None and not h.is_lambda and (
            '_serialization_constants' in unparse(h.node)):
          return isinstance(t.ops[0], ast.Is)
      # ... or written out: `(c := (A[k] if k in A else ... else None))`
      arm = left
      while isinstance(arm, ast.IfExp):
        v = dispatch.eval_atoms(arm.test, _ev)
        if v is None:
          break
        arm = arm.body if v else arm.orelse
      if arm is not left and isinstance(arm, ast.Constant) and (
          arm.value is None):
        return isinstance(t.ops[0], ast.Is)
    return None

  r = dispatch.reach_atoms(g, _ev)
  rets = [n for n in r if isinstance(g.stmt[n], ast.Return)]
  raises = [n for n in r if isinstance(g.stmt[n], ast.Raise) and
            'UnserializableValueError' in unparse(g.stmt[n])]
  # returns reachable before the traverser lookup (memo hit) are not part of
  # this case: only those dominated by the `traverser is None` test count
  none_tests = [n for n in g.nodes() if g.kind[n] == 'if' and
                roles.is_none_test(g.stmt[n].test, trav) is not None]
  late_rets = [n for n in rets if any(
      g.dominated_by(n, {m}, labels=cfg_lib.NO_EXC) for m in none_tests)]
  ok = bool(none_tests) and bool(raises) and not late_rets and (
      g.exit not in dispatch.reach_atoms(
          g, _ev, start=[x for m in none_tests for x, lab in g.succ[m]
                         if lab in ('true', 'false')]) or not late_rets)
  rs.check(ok, rule, f'{f.qualname}:untraversable',
           'a value that is no leaf, pyref-able symbol, proxy or registered '
           'constant raises UnserializableValueError', ctx.loc(f, f.node))
  # pyref identity check
  pf = ctx.func(f'{SER}.Serialization._pyref')
  g = ctx.cfg(pf)
  ok = False
  imported = roles.assigned_from(pf, roles.call_of('import_symbol'))
  for n in g.nodes():
    if g.kind[n] != 'if':
      continue
    t = g.stmt[n].test
    neg = isinstance(t, ast.UnaryOp) and isinstance(t.op, ast.Not)
    core = t.operand if neg else t
    # a comparison (operator.is_ / eq through a local, or `is`) of the value
    # with what importing the symbol gave back
    cmp_args = []
    if isinstance(core, ast.Call) and len(core.args) == 2:
      cmp_args = [unparse(a) for a in core.args]
    elif isinstance(core, ast.Compare) and len(core.ops) == 1 and isinstance(
        core.ops[0], (ast.Is, ast.Eq)):
      cmp_args = [unparse(core.left), unparse(core.comparators[0])]
    if len(cmp_args) == 2 and pf.params[1] in cmp_args and (
        set(cmp_args) & imported):
      succ = [x for x, lab in g.succ[n] if lab == ('true' if neg else 'false')]
      r = g.reach(succ, labels=cfg_lib.NO_EXC)
      rets = [x for x in g.nodes() if isinstance(g.stmt[x], ast.Return)]
      ok = g.exit not in r and all(
          g.dominated_by(x, {n}, labels=cfg_lib.NO_EXC) for x in rets)
  rs.check(ok, rule, f'{pf.qualname}:import-back',
           'a pyref is emitted only if importing the symbol back yields the '
           'same object; otherwise UnserializableValueError',
           ctx.loc(pf, pf.node))
  d = ctx.func(f'{SER}.Deserialization._deserialize')
  g = ctx.cfg(d)
  raises = [n for n in g.nodes() if isinstance(g.stmt[n], ast.Raise) and
            'DeserializationError' in unparse(g.stmt[n])]
  unfl = [n for n in g.nodes() if isinstance(g.stmt[n], ast.Return) and
          'unflatten' in unparse(g.stmt[n])]
  dtrav = roles.assigned_from(d, roles.call_of('find_node_traverser'))
  tr_none = [n for n in g.nodes() if g.kind[n] == 'if' and
             roles.is_none_test(g.stmt[n].test, dtrav) is True]
  ok = len(raises) >= 2 and bool(unfl) and bool(tr_none) and all(
      g.dominated_by(u, set(tr_none), labels=cfg_lib.NO_EXC) for u in unfl)
  rs.check(ok, rule, f'{d.qualname}:unknown-type',
           'invalid object types and types without traverser raise '
           'DeserializationError before unflatten', ctx.loc(d, d.node))


def _shape_rules(ctx: Ctx, rs: RuleSet):
  rule = 'SHAPE.items-round-trip'
  rs.declare(rule, 'items are written as (element, value) pairs in flatten '
             'order and read back from the value slot; history is stripped; '
             'unset parameters stay unset', 4)
  f = ctx.func(f'{SER}.Serialization._serialize')
  # the loop over zip(<path elements>, <flattened values>) of one traverser
  trav = roles.assigned_from(f, roles.call_of('find_node_traverser'))
  pe = roles.assigned_from(f, lambda e: roles.call_of('path_elements')(e) and
                           unparse(e.func.value) in trav)
  vals = roles.assigned_from(f, lambda e: roles.call_of('flatten')(e) and
                             unparse(e.func.value) in trav, position=0)
  def over_children(it):
    return isinstance(it, ast.Call) and unparse(it.func) == 'zip' and len(
        it.args) == 2 and unparse(it.args[0]) in pe and unparse(
            it.args[1]) in vals

  # (target, item expressions): an append loop or a comprehension
  producers = []
  for n in walk_function(f.node):
    if isinstance(n, ast.For) and over_children(n.iter):
      items = [roles.deref(f, st.args[0]) for st in ast.walk(n) if isinstance(
          st, ast.Call) and isinstance(st.func, ast.Attribute) and
               st.func.attr == 'append' and st.args]
      producers.append((n.target, items))
    elif isinstance(n, (ast.ListComp, ast.GeneratorExp)) and len(
        n.generators) == 1 and over_children(n.generators[0].iter) and (
            not n.generators[0].ifs):
      producers.append((n.generators[0].target, [n.elt]))
  zip_ok = bool(producers)
  ok = False
  for target, items in producers:
    if not isinstance(target, ast.Tuple):
      continue
    child = unparse(target.elts[1])
    # the recursive result for the child (possibly held in a local) is the
    # second slot of the item (itself possibly held in a local)
    def is_child_result(e):
      e = roles.deref(f, e)
      return isinstance(e, ast.Call) and unparse(e.func).endswith(
          '._serialize') and bool(e.args) and unparse(e.args[0]) == child

    for item in items:
      if isinstance(item, ast.Tuple) and len(item.elts) == 2 and (
          is_child_result(item.elts[1])):
        ok = True
  rs.check(ok and zip_ok, rule, f'{f.qualname}:items',
           'serialized_item = (repr(path_element), serialized child) over '
           'zip(path_elements, values)', ctx.loc(f, f.node))
  d = ctx.func(f'{SER}.Deserialization._deserialize')
  ok = False
  for n in walk_function(d.node):
    if isinstance(n, ast.ListComp) and isinstance(
        n.generators[0].target, ast.Tuple) and len(
            n.generators[0].target.elts) == 2:
      second = n.generators[0].target.elts[1]
      ok = isinstance(second, ast.Name) and unparse(n.elt) == second.id and (
          not n.generators[0].ifs)
  rs.check(ok, rule, f'{d.qualname}:items',
           'values are taken from the second slot of every item, unfiltered',
           ctx.loc(d, d.node))
  # unflatten(values, metadata) in that order
  # values = [second slot of each item], metadata = deserialized metadata
  def is_values(e):
    e = roles.deref(d, e)
    return isinstance(e, ast.ListComp) and isinstance(
        e.generators[0].target, ast.Tuple)

  def is_metadata(e):
    e = roles.deref(d, e)
    return roles.call_of('_deserialize')(e) and bool(e.args) and (
        'METADATA_KEY' in unparse(e.args[0]))

  ok = any(isinstance(n, ast.Return) and isinstance(n.value, ast.Call) and
           unparse(n.value.func).endswith('unflatten') and
           len(n.value.args) == 2 and is_values(n.value.args[0]) and
           is_metadata(n.value.args[1])
           for n in walk_function(d.node))
  rs.check(ok, rule, f'{d.qualname}:unflatten',
           'the node is rebuilt with traverser.unflatten(values, metadata)',
           ctx.loc(d, d.node))
  # history stripped
  ok = False
  for n in walk_function(f.node):
    if isinstance(n, ast.If) and 'BuildableTraverserMetadata' in unparse(
        n.test):
      ok = any('without_history' in unparse(s) for s in n.body)
  rs.check(ok, rule, f'{f.qualname}:history',
           'Buildable metadata is serialized without history', ctx.loc(f, f.node))
  wh = ctx.func('fiddle._src.config.BuildableTraverserMetadata.without_history')
  ret, _ = c08.fn_return(wh)
  ok = (isinstance(ret, ast.Call) and unparse(ret.func).endswith('_replace') and
        [k.arg for k in ret.keywords] == ['argument_history'])
  rs.check(ok, rule, wh.qualname,
           'without_history replaces only argument_history (tags, names and '
           'callable are kept)', ctx.loc(wh, wh.node))
  bf = ctx.func('fiddle._src.config.Buildable.__flatten__')
  ret, _ = c08.fn_return(bf)
  ok = isinstance(ret, ast.Call) and any(
      k.arg == 'include_defaults' and isinstance(k.value, ast.Constant) and
      k.value.value is False for k in ret.keywords)
  rs.check(ok, rule, bf.qualname,
           'the default flatten does not materialise defaults (unset stays '
           'unset)', ctx.loc(bf, bf.node))


def _leaf_type_rule(ctx: Ctx, rs: RuleSet):
  rule = 'TYPE.exact-leaf-test'
  rs.declare(rule, 'a value is written as a bare JSON leaf only if its type '
             'is exactly a JSON-representable type', 1)
  lt = ctx.func(f'{SER}._is_leaf_type')
  rets = [r for r in walk_function(lt.node) if isinstance(r, ast.Return)]
  ok = bool(rets)
  for r in rets:
    v = r.value
    good = (isinstance(v, ast.Compare) and len(v.ops) == 1 and isinstance(
        v.ops[0], ast.In) and unparse(v.left) == lt.params[0] and isinstance(
            v.comparators[0], (ast.Tuple, ast.Set, ast.List)))
    ok = ok and good
  sub = [c for c in walk_function(lt.node) if isinstance(c, ast.Call) and
         isinstance(c.func, ast.Name) and c.func.id in ('issubclass',
                                                         'isinstance')]
  rs.check(ok and not sub, rule, lt.qualname,
           'exact membership test on the type' if ok and not sub else
           'the leaf test accepts subclasses (issubclass / isinstance): an '
           'IntEnum, a str-enum or any user subclass of int / str / float is '
           'written as a bare leaf and comes back as the base type - silent '
           'type loss instead of a pyref or an UnserializableValueError',
           ctx.loc(lt, lt.node))
  # callers test type(value), not the value
  f = ctx.func(f'{SER}.Serialization._serialize')
  calls = [c for c in ctx.calls(f) if ctx.p.resolve(c.func, f) == lt.qualname]
  rs.check(bool(calls) and all(
      isinstance(c.args[0], ast.Call) and unparse(c.args[0].func) == 'type'
      for c in calls), rule, f'{f.qualname}:leaf-test-argument',
           'the leaf test is applied to type(value)', ctx.loc(f, f.node),
           nontrivial=False)


def _nan_rule(ctx: Ctx, rs: RuleSet):
  rule = 'LIT.json-nan'
  rs.declare(rule, 'float leaves are emitted as valid JSON', 1)
  lt = ctx.func(f'{SER}._is_leaf_type')
  has_float = any(isinstance(n, ast.Name) and n.id == 'float'
                  for n in walk_function(lt.node))
  dj = ctx.func(f'{SER}.dump_json')
  for c in ctx.calls(dj):
    if ctx.p.resolve(c.func, dj) == 'json.dumps':
      an = kwarg(c, 'allow_nan')
      strict = an is not None and isinstance(an, ast.Constant) and (
          an.value is False)
      rs.check(strict or not has_float, rule, f'{dj.qualname}:json.dumps',
               'json.dumps(..., allow_nan=False)' if strict else
               'float is a leaf type and json.dumps is called without '
               'allow_nan=False: nan / inf are written as the non-JSON tokens '
               'NaN / Infinity instead of raising', ctx.loc(dj, c))


MANIFEST = dict(
    text=('Decides the structural clauses of C09: policy gating by CFG '
          'dominance in import_symbol, absence of any other dynamic symbol '
          'resolution in the closure of load_json/dump_json, policy '
          'plumbing, no invocation of configured callables while rebuilding, '
          'injectivity and symmetry of the byte codec, pinning of the '
          'reference memo, loud defaults of the (de)serializer dispatch, and '
          'the item/metadata round-trip shape. Holds for all documents and '
          'values; value-level losslessness is not decided.'),
    note=('Trusted: ast, CFG, call graph (exact + reference + nested edges); '
          'the json module; the list of dynamic-resolution primitives and of '
          'byte-injective codecs in the checker.'),
    technique='static analysis: CFG dominance on policy tests, who-may-call over the call-graph closure, inverse-pipeline codec table, identity-table pinning',
)
