"""C14 - tags select exactly the tagged arguments and survive transformations."""
from __future__ import annotations

import ast

from fdlstatic import cfg as cfg_lib
from fdlstatic.ctx import Ctx, kwarg
from fdlstatic.keykind import KeyKind
from fdlstatic.model import AnalysisError, unparse, walk_function, walk_stmts
from fdlstatic import roles
from fdlstatic.report import RuleSet
from fdlstatic.rules import sigrules

T = 'fiddle._src.tagging'
SEL = 'fiddle._src.selectors'
CFG = 'fiddle._src.config'

EXPLANATION = (
    'Static clauses of C14 decided on the current source: (KD) every use of '
    'an argument key taken from __argument_tags__ / __arguments__ in the tag '
    'APIs that only works for str keys (getattr / setattr / Attr) is guarded '
    'by an isinstance test, so tags on positional arguments are handled; '
    '(FRAME) in set_tagged and TagSelection.replace the only mutation sink is '
    'control-dependent on any(issubclass(t, <queried tag>) ...) over the tag '
    'set of the very argument being assigned, on the node being visited, and '
    'the walk is memoized; list_tags unions the tag sets of every Buildable '
    'yielded by a memoized walk from the root; (DOM) each tag-editing '
    'function validates the argument and converts an index to its storage '
    'key before touching the tag set; (WMC) traversal metadata is built only '
    'by the flatten function with the source\'s tags and is narrowed only by '
    'dropping history, so tags survive copy, cast, serialization and rebuilds; '
    'assigning a TaggedValue merges its tags before storing the unwrapped '
    'value and stores nothing when it carries no value; a TaggedValue builds '
    'through tagged_value_fn, which raises when the value is NO_VALUE. Not '
    'decided: the frame condition as an observed before/after equality.')
ASSUMPTIONS = ['issubclass(t, tag) is the subclass-aware match relation']


def kd_rule(ctx: Ctx, rs: RuleSet, rule: str, quals, min_instances: int):
  rs.declare(rule, 'uses of canonical argument keys that need a str are '
             'guarded by an isinstance test', min_instances)
  for q in quals:
    f = ctx.func(q)
    k = KeyKind(f, ctx.cfg(f)).run()
    for node, desc in k.ok:
      rs.ok(rule, f'{q}:{desc}', 'the key is known to be a str here',
            ctx.loc(f, node))
    for node, desc in k.bad:
      rs.fail(rule, f'{q}:{desc}',
              f'{desc}: the key comes from a map keyed by Union[int, str] '
              '(positional arguments use int keys) and reaches a use that '
              'requires a str without an isinstance guard',
              ctx.loc(f, node))
    if not k.ok and not k.bad:
      # keys are iterated but never used in a str-only way: fine
      srcs = len(k.sources)
      rs.ok(rule, f'{q}:no-str-only-use',
            f'{srcs} key iteration(s), none feeds a str-only use',
            ctx.loc(f, f.node), nontrivial=False)


def frame_rule(ctx: Ctx, rs: RuleSet, rule: str, q: str, tag_expr: str):
  """Sink control-dependent on any(issubclass(t, <tag>) for t in tags)."""
  f = ctx.func(q)
  g = ctx.cfg(f)
  sinks = []
  for n in g.nodes():
    for e in cfg_lib.walk_node(g, n):
      if isinstance(e, ast.Call) and isinstance(
          e.func, ast.Name) and e.func.id in ('setattr', 'delattr'):
        sinks.append((n, e, e.args[0], e.args[1]))
    st = g.stmt[n]
    if g.kind[n] == 'stmt' and isinstance(st, ast.Assign):
      for t in st.targets:
        if isinstance(t, ast.Subscript):
          sinks.append((n, st, t.value, t.slice))
  if not sinks:
    rs.fail(rule, f'{q}:sink', 'no assignment sink found', ctx.loc(f, f.node))
    return
  for n, e, recv, keyexpr in sinks:
    # enclosing loop: for <key>, <tags> in <node>.__argument_tags__.items()
    loop = None
    for L in walk_function(f.node):
      if isinstance(L, ast.For) and any(sub is e for sub in ast.walk(L)):
        it = L.iter
        if isinstance(it, ast.Call) and isinstance(
            it.func, ast.Attribute) and it.func.attr == 'items' and isinstance(
                it.func.value, ast.Attribute) and (
                    it.func.value.attr == '__argument_tags__'):
          loop = L
    key = f'{q}:{unparse(e)[:50]}'
    if loop is None:
      rs.fail(rule, key, 'the assignment is not inside a loop over the '
              'node\'s own __argument_tags__.items()', ctx.loc(f, e))
      continue
    kname, tname = [x.id for x in loop.target.elts]
    node_expr = unparse(loop.iter.func.value.value)
    same_node = unparse(recv) == node_expr
    same_key = unparse(keyexpr) == kname
    # guard: if any(issubclass(t, TAG) for t in <tname>)
    guard_ok = False
    for m in g.nodes():
      if g.kind[m] != 'if':
        continue
      t = g.stmt[m].test
      pass_label = 'true'
      if isinstance(t, ast.UnaryOp) and isinstance(t.op, ast.Not):
        t = t.operand
        pass_label = 'false'
      if (isinstance(t, ast.Call) and isinstance(t.func, ast.Name) and
          t.func.id == 'any' and t.args and isinstance(
              t.args[0], ast.GeneratorExp)):
        ge = t.args[0]
        c = ge.elt
        if (isinstance(c, ast.Call) and isinstance(c.func, ast.Name) and
            c.func.id == 'issubclass' and len(c.args) == 2 and
            unparse(ge.generators[0].iter) == tname and
            unparse(c.args[0]) == unparse(ge.generators[0].target) and
            unparse(roles.deref(f, c.args[1])) == tag_expr and
            not ge.generators[0].ifs):
          # sink reachable only through the true edge
          r = g.reach([g.entry], labels=cfg_lib.NO_EXC,
                      edge_ok=lambda a, b, lab, m=m, pl=pass_label: not (
                          a == m and lab == pl))
          if n not in r:
            guard_ok = True
    rs.check(same_node and same_key and guard_ok, rule, key,
             f'assigns `{node_expr}`[{kname}] only under '
             f'any(issubclass(t, {tag_expr}) for t in {tname})'
             if same_node and same_key and guard_ok else
             f'same_node={same_node} same_key={same_key} '
             f'guarded_by_own_tag_set={guard_ok}', ctx.loc(f, e))


def tags_in_metadata(ctx: Ctx, rs: RuleSet):
  """Traversal metadata carries every tag set (also used by C07: copies are
  unflatten(flatten), so a tag dropped here is dropped by every copy)."""
  p = ctx.p
  rule = 'WMC.tags-in-metadata'
  rs.declare(rule, 'traversal metadata is built only by flatten with the '
             'source tags and narrowed only by dropping history', 3)
  MD = f'{CFG}.BuildableTraverserMetadata'
  ctors = []
  for q, sites in ctx.cg.call_sites.items():
    for call, callees, exact in sites:
      scope = p.funcs.get(q) or p.modules.get(q[:-len('.<module>')])
      if scope is not None and p.resolve(call.func, scope) == MD:
        ctors.append((q, call, scope))
  for q, call, scope in ctors:
    ok = q == ctx.func(f'{CFG}._buildable_flatten').qualname
    rs.check(ok, rule, f'{q}:BuildableTraverserMetadata(...)',
             'constructed by the flatten function' if ok else
             f'{q} constructs traversal metadata itself: tags may be dropped',
             ctx.loc(scope, call))
  ff = ctx.func(f'{CFG}._buildable_flatten')
  at = None
  for c in ctx.calls(ff):
    if p.resolve(c.func, ff) == MD:
      at = kwarg(c, 'argument_tags') or (ctx.bound_args(c, ff) or {}).get(
          'argument_tags')
  comp = roles.deref(ff, at) if at is not None else None
  ok = (isinstance(comp, ast.DictComp) and
        '__argument_tags__' in unparse(comp.generators[0].iter) and
        unparse(comp.key) == unparse(comp.generators[0].target.elts[0]))
  # the only filter allowed is dropping empty sets
  if ok:
    ifs = comp.generators[0].ifs
    ok = all(unparse(c) == unparse(comp.generators[0].target.elts[1])
             for c in ifs)
  rs.check(ok, rule, f'{ff.qualname}:argument_tags',
           'argument_tags covers every non-empty tag set of the source',
           ctx.loc(ff, ff.node))
  repl = []
  for q, f in p.funcs.items():
    for c in ctx.calls(f):
      if isinstance(c.func, ast.Attribute) and c.func.attr == '_replace':
        ks = [k.arg for k in c.keywords]
        if any(k in ('argument_tags', 'argument_names', 'fn_or_cls') for k in ks):
          repl.append((q, c, f))
  rs.check(not repl, rule, 'metadata._replace',
           'no _replace call rewrites tags / names / callable of traversal '
           'metadata' if not repl else
           f'{repl[0][0]} rewrites metadata: `{unparse(repl[0][1])[:70]}`',
           ctx.loc(repl[0][2], repl[0][1]) if repl else '')



def run(ctx: Ctx, rs: RuleSet, tier: str):
  p = ctx.p
  kd_rule(ctx, rs, 'KD.tag-keys',
          [f'{T}.set_tagged', f'{T}.list_tags', f'{T}.materialize_tags.transform',
           f'{SEL}.TagSelection.__iter__', f'{SEL}.TagSelection.replace'], 3)

  rule = 'FRAME.tagged-assignment'
  rs.declare(rule, 'tag-directed assignment touches exactly the arguments '
             'whose own tag set matches', 2)
  frame_rule(ctx, rs, rule, f'{T}.set_tagged', 'tag')
  frame_rule(ctx, rs, rule, f'{SEL}.TagSelection.replace', 'self.tag')
  # TagSelection.__iter__ uses the same predicate
  it = ctx.func(f'{SEL}.TagSelection.__iter__')
  from fdlstatic import dispatch
  gi = ctx.cfg(it)
  # the tag sets iterated: `for <key>, <tags> in X.__argument_tags__.items()`
  tag_vars = {unparse(n.target.elts[1]) for n in walk_function(it.node)
              if isinstance(n, ast.For) and isinstance(
                  n.target, ast.Tuple) and len(n.target.elts) == 2 and unparse(
                      n.iter).endswith('.__argument_tags__.items()')}

  def matches(v):
    def ev(t):
      if isinstance(t, ast.Call) and unparse(t.func) == 'any' and len(
          t.args) == 1 and isinstance(t.args[0], (ast.GeneratorExp,
                                                  ast.ListComp)):
        ge = t.args[0]
        c = ge.elt
        if (isinstance(c, ast.Call) and unparse(c.func) == 'issubclass' and
            len(c.args) == 2 and unparse(
                roles.deref(it, c.args[1])) == 'self.tag' and
            unparse(c.args[0]) == unparse(ge.generators[0].target) and
            unparse(ge.generators[0].iter) in tag_vars and
            not ge.generators[0].ifs):
          return v
      return None
    return ev

  yields = [n for n in gi.nodes() if any(
      isinstance(e, ast.Yield) for e in cfg_lib.walk_node(gi, n))]
  no_match = dispatch.reach_atoms(gi, matches(False))
  ok = bool(yields) and bool(tag_vars) and not any(
      y in no_match for y in yields)
  rs.check(ok, rule, f'{it.qualname}:predicate',
           'yields under any(issubclass(t, self.tag) for t in <own tag set>)',
           ctx.loc(it, it.node))
  # walks are memoized traversals from the root
  st = ctx.func(f'{T}.set_tagged')
  ok = any(p.resolve(c.func, st) == 'fiddle._src.daglish.iterate' and
           unparse(c.args[0]) == st.params[0] and not any(
               k.arg == 'memoized' for k in c.keywords)
           for c in ctx.calls(st))
  rs.check(ok, rule, f'{st.qualname}:walk',
           'walks daglish.iterate(root) (memoized: each node once)',
           ctx.loc(st, st.node))
  lt = ctx.func(f'{T}.list_tags')
  ok_walk = any(p.resolve(c.func, lt) == 'fiddle._src.daglish.iterate' and
                unparse(c.args[0]) == lt.params[0] for c in ctx.calls(lt))
  ok_union = False
  for n in walk_function(lt.node):
    if isinstance(n, ast.For) and isinstance(
        n.iter, ast.Call) and isinstance(n.iter.func, ast.Attribute) and (
            n.iter.func.attr == 'values') and unparse(
                n.iter.func.value).endswith('.__argument_tags__'):
      for s in walk_stmts(n.body):
        if isinstance(s, ast.Call) and isinstance(
            s.func, ast.Attribute) and s.func.attr == 'update' and unparse(
                s.args[0]) == unparse(n.target):
          ok_union = True
  for c in ctx.calls(lt):
    # <set>.update(*X.__argument_tags__.values())
    if isinstance(c.func, ast.Attribute) and c.func.attr == 'update' and len(
        c.args) == 1 and isinstance(c.args[0], ast.Starred) and unparse(
            c.args[0].value).endswith('.__argument_tags__.values()'):
      ok_union = True
  rs.check(ok_walk and ok_union, rule, f'{lt.qualname}:union',
           'unions __argument_tags__.values() of every Buildable reached by '
           'daglish.iterate(root)', ctx.loc(lt, lt.node))

  # ---- tag editing API: validate, then index -> key, then mutate
  rule = 'DOM.tag-edit-validation'
  rs.declare(rule, 'tag editing validates the argument and converts an index '
             'to its storage key before touching the tag set', 4)
  for name in ('add_tag', 'remove_tag', 'clear_tags', 'get_tags', 'set_tags'):
    f = ctx.func(f'{T}.{name}')
    g = ctx.cfg(f)
    arg = f.params[1]
    # validated directly, or by an editor of this module that is called first
    # with the same (buildable, argument)
    # the argument, or locals that merely hold it
    args_ = {arg}
    for _ in range(3):
      args_ |= roles.assigned_from(f, lambda e: isinstance(
          e, ast.Name) and e.id in args_)
    val = {n for n in g.nodes() if any(
        isinstance(e, ast.Call) and p.resolve(e.func, f) in (
            f'{T}._validate_argument_name', f'{T}.clear_tags', f'{T}.add_tag',
            f'{T}.remove_tag') and len(e.args) >= 2 and
        unparse(e.args[1]) in args_ for e in cfg_lib.walk_node(g, n))}
    conv = {n for n in g.nodes() if isinstance(g.stmt[n], ast.Assign) and
            g.kind[n] == 'stmt' and isinstance(
                g.stmt[n].targets[0], ast.Name) and any(
                    isinstance(c_, ast.Call) and isinstance(
                        c_.func, ast.Attribute) and
                    c_.func.attr == 'index_to_key' and c_.args and
                    unparse(c_.args[0]) in args_
                    for c_ in ast.walk(g.stmt[n].value))}
    keys_ = set(args_) | {g.stmt[n].targets[0].id for n in conv}
    conv_guard = {n for n in g.nodes() if g.kind[n] == 'if' and any(
        isinstance(c_, ast.Call) and unparse(c_) in {
            f'isinstance({a_}, int)' for a_ in args_}
        for c_ in ast.walk(g.stmt[n].test))}
    uses = [n for n in g.nodes() if n not in conv and any(
        isinstance(e, ast.Subscript) and isinstance(e.value, ast.Attribute) and
        e.value.attr == '__argument_tags__' for e in cfg_lib.walk_node(g, n))]
    use_keys = {unparse(e.slice) for n in uses for e in cfg_lib.walk_node(g, n)
                if isinstance(e, ast.Subscript) and isinstance(
                    e.value, ast.Attribute) and
                e.value.attr == '__argument_tags__'}
    ok = bool(val) and bool(conv) and bool(conv_guard) and bool(uses) and all(
        g.dominated_by(u, val, labels=cfg_lib.NO_EXC) and
        g.dominated_by(u, conv_guard, labels=cfg_lib.NO_EXC) for u in uses
    ) and use_keys <= keys_
    rs.check(ok, rule, f.qualname,
             'validate -> (int -> storage key) -> tag set access'
             if ok else f'validated={bool(val)} converted={bool(conv)} '
             f'uses={len(uses)}', ctx.loc(f, f.node))
  # tags declared with Annotated[...] are stored under the storage key too
  bi = ctx.func('fiddle._src.config.Buildable.__init__')
  ok = False
  why = 'the loop over find_tags_from_annotations(...) was not found'
  for L in walk_function(bi.node):
    if not (isinstance(L, ast.For) and 'find_tags_from_annotations' in unparse(
        L.iter) and isinstance(L.target, ast.Tuple)):
      continue
    nv = unparse(L.target.elts[0])
    conv = False
    for st in ast.walk(L):
      if isinstance(st, ast.If) and sigrules.kinds_on_branch(
          st.test, True) == {'POSITIONAL_ONLY'}:
        conv = any(isinstance(a, ast.Assign) and unparse(
            a.targets[0]) == nv and ('.index(' in unparse(a.value))
                   for a in st.body)
    ok = conv
    why = ('a tag annotated on a positional-only parameter is stored under '
           'its index' if conv else
           'tags from Annotated[...] are stored under the parameter name even '
           'for positional-only parameters, whose values are stored by index: '
           'set_tagged then tries setattr on a positional-only name '
           '(AttributeError) and a tag selection yields NO_VALUE for a set '
           'argument')
  rs.check(ok, 'KD.annotation-tag-keys', f'{bi.qualname}:annotation-tags', why,
           ctx.loc(bi, bi.node))
  rs.declare('KD.annotation-tag-keys', 'annotation-declared tags use the '
             'canonical storage key', 1)
  va = ctx.func(f'{T}._validate_argument_name')
  calls = {p.resolve(c.func, va) or unparse(c.func) for c in ctx.calls(va)}
  rs.check('fiddle._src.signatures.SignatureInfo.validate_param_name' in
           {c for c in calls} | {x for c in ctx.calls(va)
                                 for x in ctx.callees(c, va)} and
           f'{T}._validate_param_index' in calls, rule, va.qualname,
           'names go through validate_param_name, indices through '
           '_validate_param_index', ctx.loc(va, va.node))

  tags_in_metadata(ctx, rs)

  # ---- TaggedValue expansion on assignment
  # ---- tags survive diff application: the tag comparison is never skipped
  from fdlstatic.rules import c10
  rs.declare('INDEP.diff-tags', 'build_diff compares the tags of aligned '
             'Buildables whatever else differs', 1)
  c10.buildable_facets(ctx, rs, 'INDEP.diff-tags', only={'tags'})

  # ---- tags attached by annotation: the type hints belong to this callable
  from fdlstatic.rules import c19
  c19.cache_premise(ctx, rs, 'CACHE.type-hints',
                    ['fiddle._src.signatures._type_hints_cache'])

  rule = 'SHAPE.tagged-value'
  rs.declare(rule, 'assigning a TaggedValue merges tags then stores the '
             'unwrapped value (or nothing); building it returns the value or '
             'raises', 4)
  sv = ctx.func(f'{CFG}.Buildable._arguments_set_value')
  g = ctx.cfg(sv)
  branch = [n for n in g.nodes() if g.kind[n] == 'if' and
            'TaggedValueCls' in unparse(g.stmt[n].test)]
  def tag_set_of(e):
    # X.__argument_tags__[k], directly or through a local holding that set
    e = roles.deref(sv, e)
    return e if isinstance(e, ast.Subscript) and isinstance(
        e.value, ast.Attribute) and e.value.attr == '__argument_tags__' else None

  merges = [n for n in g.nodes() if any(
      isinstance(e, ast.Call) and isinstance(e.func, ast.Attribute) and
      e.func.attr == 'update' and tag_set_of(e.func.value) is not None
      for e in cfg_lib.walk_node(g, n))]
  stores = [n for n in g.nodes() if isinstance(g.stmt[n], ast.Assign) and any(
      isinstance(t, ast.Subscript) and unparse(t.value).endswith(
          '.__arguments__') for t in g.stmt[n].targets)]
  unwrap = [n for n in g.nodes() if isinstance(g.stmt[n], ast.Assign) and
            unparse(g.stmt[n].targets[0]) == sv.params[2] and
            "__arguments__['value']" in unparse(g.stmt[n].value)]
  rets = [n for n in g.nodes() if isinstance(g.stmt[n], ast.Return)]
  ok = bool(branch) and bool(merges) and bool(stores) and bool(unwrap)
  if ok:
    b = branch[0]
    # on the TaggedValue path the store is reached only after the unwrap
    t_succ = [x for x, lab in g.succ[b] if lab == 'true']
    r = g.reach(t_succ, blocked=set(unwrap), labels=cfg_lib.NO_EXC)
    ok = not any(s in r for s in stores)
    # and a TaggedValue without value returns without storing
    ok = ok and any(x in g.reach(t_succ, blocked=set(stores),
                                 labels=cfg_lib.NO_EXC) for x in rets)
    # tags merged under the same key as the store
    mk = [unparse(tag_set_of(e.func.value).slice) for n in merges
          for e in cfg_lib.walk_node(g, n)
          if isinstance(e, ast.Call) and isinstance(e.func, ast.Attribute) and
          e.func.attr == 'update' and tag_set_of(e.func.value) is not None]
    ok = ok and mk == [sv.params[1]]
  rs.check(ok, rule, f'{sv.qualname}:TaggedValue',
           'tags merged under the same key; the stored value is the '
           'unwrapped one; nothing is stored when the TaggedValue is empty',
           ctx.loc(sv, sv.node))
  tv = ctx.func(f'{CFG}.tagged_value_fn')
  g = ctx.cfg(tv)
  from fdlstatic import dispatch

  def unset(v):
    def ev(t):
      if isinstance(t, ast.Compare) and len(t.ops) == 1 and {
          unparse(t.left), unparse(t.comparators[0]).split('.')[-1]} == {
              tv.params[0], 'NO_VALUE'}:
        if isinstance(t.ops[0], ast.Is):
          return v
        if isinstance(t.ops[0], ast.IsNot):
          return not v
      return None
    return ev

  r_unset = dispatch.reach_atoms(g, unset(True))
  set_vals = [unparse(x) for x in dispatch.returned_under(g, unset(False), tv)]
  r_set = dispatch.reach_atoms(g, unset(False))
  # unset: never returns normally; set: returns the value and cannot raise
  ok = (g.exit not in r_unset and g.raise_exit in r_unset and
        set_vals == [tv.params[0]] and not any(
            isinstance(g.stmt[n], ast.Raise) for n in r_set))
  rs.check(ok, rule, tv.qualname,
           'raises when the value is NO_VALUE, otherwise returns it',
           ctx.loc(tv, tv.node))
  tb = ctx.func(f'{CFG}.TaggedValueCls.__build__')
  ok = any(isinstance(r.value, ast.Call) and
           unparse(r.value.func) == f'{tb.params[0]}.__fn_or_cls__' and
           any(isinstance(a, ast.Starred) for a in r.value.args)
           for r in walk_function(tb.node) if isinstance(r, ast.Return))
  guard = any(isinstance(n, ast.If) and 'tagged_value_fn' in unparse(n.test)
              for n in walk_function(tb.node))
  rs.check(ok and guard, rule, tb.qualname,
           '__build__ calls tagged_value_fn with the configured value',
           ctx.loc(tb, tb.node))
  tvf = ctx.func(f'{T}.TaggedValue')
  ok = any(p.resolve(c.func, tvf) == f'{T}.add_tag' and
           isinstance(c.args[1], ast.Constant) and c.args[1].value == 'value'
           for c in ctx.calls(tvf))
  rs.check(ok, rule, tvf.qualname, 'every given tag is attached to `value`',
           ctx.loc(tvf, tvf.node))
  # wherever a tagged-value node is made with a value in hand, the value may
  # itself be a TaggedValue whose tags the constructor / assignment has just
  # merged into the node: tags given afterwards are added to that set, never
  # put in its place (set_tags / clear_tags / a store of a new set)
  rule = 'SHAPE.tagged-value-tags-accumulate'
  rs.declare(rule, 'a tagged-value node under construction has its tags '
             'added, not replaced', 1)
  REPLACERS = {f'{T}.set_tags', f'{T}.clear_tags'}
  for h in list(p.funcs.values()):
    if h.is_lambda or h.module.name.endswith('_test') or h.qualname in REPLACERS:
      continue
    made = [c for c in ctx.calls(h) if (p.resolve(c.func, h) or '').endswith(
        'config.TaggedValueCls') or unparse(c.func).endswith('TaggedValueCls')]
    if not made:
      continue
    names = roles.assigned_from(h, lambda e: e in made)
    bad = []
    for c in ctx.calls(h):
      tgt = p.resolve(c.func, h)
      if tgt in REPLACERS and c.args and (
          unparse(c.args[0]) in names or roles.deref(h, c.args[0]) in made):
        bad.append(c)
      if isinstance(c.func, ast.Attribute) and c.func.attr in (
          'clear', 'difference_update', 'intersection_update', 'discard',
          'remove', 'pop') and '__argument_tags__' in unparse(
              roles.deref(h, c.func.value)) and any(
                  unparse(roles.deref(h, c.func.value)).startswith(n + '.')
                  for n in names):
        bad.append(c)
    rs.check(not bad, rule, f'{h.qualname}:tags',
             'tags are attached with add_tag / merged' if not bad else
             f'`{unparse(bad[0])[:80]}` replaces the tag set of the node just '
             'built: tags contributed by a TaggedValue passed as its value '
             '(Tag.new(...) wrapped again) are lost, so tag-directed '
             'assignment and list_tags no longer see them',
             ctx.loc(h, bad[0] if bad else h.node))


MANIFEST = dict(
    text=('Decides structural clauses of C14 for every DAG and tag '
          'hierarchy: key-kind safety of the tag APIs (tags on positional '
          'arguments), the frame condition as control dependence of the only '
          'sink on the argument\'s own tag set, validate-then-convert-then-'
          'mutate order in the tag editing API, tag preservation in traversal '
          'metadata, and TaggedValue expansion / build shape. Observed '
          'before/after equality is not decided.'),
    note='Trusted: ast, CFG; issubclass as the match relation.',
    technique='static analysis: key-kind dataflow with isinstance refinement, control dependence on the tag-match test, CFG dominance, who-may-construct',
)
