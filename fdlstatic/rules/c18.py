"""C18 - printed paths are valid override paths; flag directives apply in order."""
from __future__ import annotations

import ast
from typing import Dict, List, Optional, Set, Tuple

from fdlstatic import cfg as cfg_lib
from fdlstatic import regexlang as rl
from fdlstatic.ctx import Ctx, kwarg
from fdlstatic.model import AnalysisError, unparse, walk_function, walk_stmts
from fdlstatic import roles
from fdlstatic.report import RuleSet
from fdlstatic.rules import c10

DAG = 'fiddle._src.daglish'
DX = 'fiddle._src.daglish_extensions'
U = 'fiddle._src.absl_flags.utils'
FL = 'fiddle._src.absl_flags.flags'
PR = 'fiddle._src.printing'

EXPLANATION = (
    'Static clauses of C18 decided on the current source: (STRT) the '
    'language printed by the PathElement.code templates - with each hole '
    'replaced by the regular language of the values the property allows '
    '(non-negative int indices; repr of quote-free, =-free string keys, '
    'including the empty string; repr of non-negative int keys; identifier '
    'attribute names) - is included in the language of the override '
    'parser\'s regular expression (automaton inclusion, shortest '
    'counter-example reported); the printer strips exactly the leading "." '
    'that the flag parser restores; the parser maps attribute matches to '
    'Attr and bracket matches to Key(literal_eval); set_value follows the '
    'parent elements in order, splits on the first "=", and has one '
    'assignment sink per element kind with a raising default; (EXH) the '
    'directive names accepted by the command regex are exactly those '
    'dispatched, the base-config set equals what _parse_config handles and '
    'contains the serializer\'s prefix, the dispatch ends in a raise; (FIFO) '
    'the directive queue is only extended at the tail, popped at the head '
    'inside the draining loop, or reset; each directive is applied where it '
    'is popped (no regrouping); (INV) the compressed flag value is decoded by '
    'the mirror image of its encoding pipeline and the reference policy is '
    'forwarded on both sides. Not decided: that repr(value) parses back for '
    'every leaf (literal leaves are assumed by the property).')
ASSUMPTIONS = [
    'repr of a quote-free str uses single quotes and escapes with backslash',
    'attribute names are ASCII identifiers',
]


def const_str(expr) -> Optional[str]:
  """Evaluates constant string expressions built with format / join / +."""
  if isinstance(expr, ast.Constant) and isinstance(expr.value, str):
    return expr.value
  if isinstance(expr, ast.JoinedStr):
    parts = []
    for v in expr.values:
      s = const_str(v) if not isinstance(v, ast.FormattedValue) else None
      if s is None:
        return None
      parts.append(s)
    return ''.join(parts)
  if isinstance(expr, ast.BinOp) and isinstance(expr.op, ast.Add):
    a, b = const_str(expr.left), const_str(expr.right)
    return a + b if a is not None and b is not None else None
  if isinstance(expr, ast.Call) and isinstance(expr.func, ast.Attribute):
    base = const_str(expr.func.value)
    if base is None:
      return None
    if expr.func.attr == 'join' and len(expr.args) == 1 and isinstance(
        expr.args[0], (ast.List, ast.Tuple)):
      items = [const_str(e) for e in expr.args[0].elts]
      return base.join(items) if all(i is not None for i in items) else None
    if expr.func.attr == 'format' and not expr.keywords:
      args = [const_str(a) for a in expr.args]
      if all(a is not None for a in args):
        try:
          return base.format(*args)
        except (IndexError, KeyError):
          return None
  return None


# hole languages (regular) per (field, conversion)
DIGIT = rl.chars('digit', lambda ch: ch in '0123456789')
NONNEG_INT = rl.plus(DIGIT)
ANY_INT = rl.alt(NONNEG_INT, rl.cat(rl.lit('-'), NONNEG_INT))
IDENT = rl.cat(rl.chars('ident-start', lambda ch: ch == '_' or (
    ch.isascii() and ch.isalpha())), rl.star(rl.chars(
        'ident-char', lambda ch: ch == '_' or (ch.isascii() and ch.isalnum()))))
STR_BODY = rl.star(rl.chars('not quote/equals',
                            lambda ch: ch not in '\'"=' and ch != '\n'))
REPR_STR = rl.cat(rl.lit("'"), STR_BODY, rl.lit("'"))
HOLES = {
    ('Index', 'index', -1): ('non-negative int', NONNEG_INT),
    ('Key', 'key', 114): ('repr of a quote-free, =-free str or of an int '
                          '(negative ones included)',
                          rl.alt(REPR_STR, ANY_INT)),
    ('Attr', 'name', -1): ('identifier', IDENT),
    # str() / plain formatting of a key prints the raw characters
    ('Key', 'key', 115): ('str of a quote-free str or non-negative int key',
                          rl.alt(STR_BODY, NONNEG_INT)),
    ('Key', 'key', -1): ('str of a quote-free str or non-negative int key',
                         rl.alt(STR_BODY, NONNEG_INT)),
    ('Index', 'index', 114): ('non-negative int', NONNEG_INT),
    ('Index', 'index', 115): ('non-negative int', NONNEG_INT),
    ('Attr', 'name', 115): ('identifier', IDENT),
    ('Attr', 'name', 114): ('repr of an identifier',
                            rl.cat(rl.lit("'"), IDENT, rl.lit("'"))),
}


def template_regex(ctx: Ctx, cname: str):
  ci = ctx.cls(f'{DAG}.{cname}')
  m = ci.methods.get('code')
  if m is None:
    raise AnalysisError(f'{cname}.code not found')
  rets = [r for r in walk_function(m.node) if isinstance(r, ast.Return)]
  if len(rets) != 1 or not isinstance(rets[0].value, ast.JoinedStr):
    raise AnalysisError(f'{cname}.code is not a single f-string')
  parts = []
  text = []
  for v in rets[0].value.values:
    if isinstance(v, ast.Constant):
      parts.append(rl.lit(v.value))
      text.append(v.value)
    else:
      fld = v.value.attr if isinstance(v.value, ast.Attribute) else None
      key = (cname, fld, v.conversion)
      if key not in HOLES or v.format_spec is not None:
        raise AnalysisError(f'{cname}.code: unknown hole {unparse(v)}')
      parts.append(HOLES[key][1])
      text.append('{' + HOLES[key][0] + '}')
  return rl.cat(*parts), ''.join(text), m


def run(ctx: Ctx, rs: RuleSet, tier: str):
  p = ctx.p
  # ---- STRT(b)
  rule = 'STRT.printed-subset-parsed'
  rs.declare(rule, 'L(PathElement.code) is included in L(_PATH_PART) for the '
             'values the property allows', 3)
  dx = ctx.mod(DX)
  pat_expr = dx.assigns.get('_PATH_PART')
  if pat_expr is None or not (isinstance(pat_expr, ast.Call) and unparse(
      pat_expr.func) == 're.compile'):
    raise AnalysisError('_PATH_PART is not a re.compile(...) call')
  pattern = const_str(pat_expr.args[0])
  if pattern is None:
    raise AnalysisError('_PATH_PART pattern is not a constant expression')
  # a pattern outside the regular fragment (back-references, look-around)
  # cannot be decided by automaton inclusion: the other rules still run, and
  # the check then ends as analysis-broken unless one of them found a
  # violation
  undecidable = None
  try:
    parser_re = rl.from_pattern(pattern)
  except ValueError as e:
    parser_re = None
    undecidable = AnalysisError(
        f'_PATH_PART {pattern!r} is outside the regular fragment the '
        f'inclusion test handles ({e})')
  alphabet = sorted(set(rl.DEFAULT_REPRESENTATIVES) |
                    rl.literals_in_pattern(pattern))
  for cname in ('Index', 'Key', 'Attr') if parser_re is not None else ():
    tr, text, m = template_regex(ctx, cname)
    ok, witness = rl.included(tr, parser_re, alphabet)
    rs.check(ok, rule, f'{DAG}.{cname}.code',
             f'every string printed as `{text}` matches {pattern!r}' if ok
             else f'`{text}` can print {witness!r}, which the override '
             f'parser pattern {pattern!r} does not accept: the printed path '
             'cannot be written back', ctx.loc(m, m.node))
  # parser group -> element
  pp = ctx.func(f'{DX}.parse_path')
  mvars = roles.assigned_from(pp, lambda e: isinstance(e, ast.Call) and
                              unparse(e.func) == '_PATH_PART.match')
  gd = roles.assigned_from(pp, lambda e: isinstance(e, ast.Call) and
                           isinstance(e.func, ast.Attribute) and
                           e.func.attr == 'groupdict' and
                           unparse(e.func.value) in mvars)

  def _group(e, name):
    # <match>.groupdict()[name] or <match>.group(name), possibly in a local
    e = roles.deref(pp, e)
    if isinstance(e, ast.Subscript):
      base = roles.deref(pp, e.value)
      is_gd = unparse(e.value) in gd or (
          isinstance(base, ast.Call) and isinstance(
              base.func, ast.Attribute) and base.func.attr == 'groupdict' and
          unparse(base.func.value) in mvars)
      return is_gd and isinstance(
          e.slice, ast.Constant) and e.slice.value == name
    return (isinstance(e, ast.Call) and isinstance(e.func, ast.Attribute) and
            e.func.attr == 'group' and unparse(e.func.value) in mvars and
            len(e.args) == 1 and isinstance(e.args[0], ast.Constant) and
            e.args[0].value == name)

  ok_attr = ok_key = False
  for c in ctx.calls(pp):
    if unparse(c.func) == 'daglish.Attr' and len(c.args) == 1 and _group(
        c.args[0], 'attr_name'):
      ok_attr = True
    if unparse(c.func) == 'daglish.Key' and len(c.args) == 1 and isinstance(
        c.args[0], ast.Call) and unparse(
            c.args[0].func) == 'ast.literal_eval' and len(
                c.args[0].args) == 1 and _group(c.args[0].args[0], 'key'):
      ok_key = True
  ok = ok_attr and ok_key
  g = ctx.cfg(pp)
  from fdlstatic import dispatch

  def matched(v):
    def ev(t):
      if isinstance(t, ast.Name) and t.id in mvars:
        return v
      nt = roles.is_none_test(t, mvars)
      if nt is not None:
        return (not v) if nt else v
      return None
    return ev

  m_defs = [n for n in g.nodes() if g.kind[n] == 'stmt' and isinstance(
      g.stmt[n], ast.Assign) and any(
          isinstance(t, ast.Name) and t.id in mvars for t in g.stmt[n].targets)]
  r_nomatch = dispatch.reach_atoms(
      g, matched(False), start=[x for n in m_defs for x, lab in g.succ[n]
                                if lab != 'exc'])
  # without a match nothing is appended and the function does not return
  loud = bool(mvars) and g.exit not in r_nomatch and not any(
      isinstance(e, ast.Call) and isinstance(e.func, ast.Attribute) and
      e.func.attr == 'append' for n in r_nomatch
      for e in cfg_lib.walk_node(g, n)) and g.exit in dispatch.reach_atoms(
          g, matched(True))
  rs.check(ok and loud, rule, pp.qualname,
           'attr_name -> Attr, key -> Key(literal_eval); unparsable input '
           'raises', ctx.loc(pp, pp.node))
  # leading '.'
  ps = ctx.func(f'{PR}._path_str')
  rets = [r for r in walk_function(ps.node) if isinstance(r, ast.Return)]
  ok = len(rets) == 1 and isinstance(rets[0].value, ast.IfExp) and unparse(
      rets[0].value.body).endswith('[1:]') and 'daglish.Attr' in unparse(
          rets[0].value.test)
  up = ctx.func(f'{U}.parse_path')
  gu = ctx.cfg(up)
  pth = up.params[0]

  def leading(bracket, dot):
    def ev(t):
      if isinstance(t, ast.Call) and unparse(t.func) == f'{pth}.startswith' \
          and len(t.args) == 1 and isinstance(t.args[0], ast.Constant):
        if t.args[0].value == '[':
          return bracket
        if t.args[0].value == '.':
          return dot
        if t.args[0].value == ('[', '.') or t.args[0].value == ('.', '['):
          return None if bracket is None or dot is None else (bracket or dot)
      return None
    return dispatch.through_locals(up, ev)

  adds = [n for n in gu.nodes() if gu.kind[n] == 'stmt' and isinstance(
      gu.stmt[n], ast.Assign) and unparse(gu.stmt[n].targets[0]) == pth and
          unparse(gu.stmt[n].value) in (f"f'.{{{pth}}}'", f"'.' + {pth}")]
  ok2 = bool(adds) and all(
      n in dispatch.reach_atoms(gu, leading(False, False)) and
      n not in dispatch.reach_atoms(gu, leading(True, None)) and
      n not in dispatch.reach_atoms(gu, leading(None, True)) for n in adds)
  rs.check(ok and ok2, rule, f'{ps.qualname}+{up.qualname}',
           'the printer drops exactly the leading "." of an attribute-first '
           'path; the flag parser restores it', ctx.loc(ps, ps.node))

  # ---- set_value
  rule = 'SHAPE.set-value'
  rs.declare(rule, 'set_value follows parents in order and assigns through '
             'one sink per element kind, with a raising default', 3)
  sv = ctx.func(f'{U}.set_value')
  g = ctx.cfg(sv)
  ok = any(isinstance(c.func, ast.Attribute) and c.func.attr == 'split' and
           unparse(c.args[0]) == "'='" and kwarg(c, 'maxsplit') is not None and
           unparse(kwarg(c, 'maxsplit')) == '1' for c in ctx.calls(sv))
  rs.check(ok, rule, f'{sv.qualname}:split',
           'the assignment is split at the first "=" only',
           ctx.loc(sv, sv.node))
  # *<parents>, <last> = <parsed path>
  PARENTS = LAST = None
  for n in walk_function(sv.node):
    if isinstance(n, ast.Assign) and isinstance(
        n.targets[0], ast.Tuple) and len(n.targets[0].elts) == 2 and isinstance(
            n.targets[0].elts[0], ast.Starred) and isinstance(
                n.targets[0].elts[1], ast.Name):
      PARENTS = unparse(n.targets[0].elts[0].value)
      LAST = n.targets[0].elts[1].id
  star = PARENTS is not None
  ok = False
  WALK = None
  for n in walk_function(sv.node):
    if isinstance(n, ast.For) and unparse(n.iter) == PARENTS:
      for s_ in n.body:
        if isinstance(s_, ast.Assign) and unparse(s_.value) == (
            f'{unparse(n.target)}.follow({unparse(s_.targets[0])})'):
          ok = True
          WALK = unparse(s_.targets[0])
  rs.check(ok and star, rule, f'{sv.qualname}:walk',
           'all but the last element are followed in order from cfg',
           ctx.loc(sv, sv.node))
  # what is done with the last element, per element class (CFG under the
  # assumption "last is exactly an Attr / a Key / neither")
  from fdlstatic import dispatch
  vals = roles.assigned_from(sv, roles.call_of('parse_value'))

  def _stmt_texts(nodes):
    return ' '.join(unparse(g.stmt[n]) for n in sorted(nodes)
                    if g.kind[n] == 'stmt' and g.stmt[n] is not None)

  base = dispatch.reach_for(g, LAST, None)
  sinks = {}
  for k in ('Attr', 'Key'):
    r = dispatch.reach_for(g, LAST, k)
    sinks[k] = _stmt_texts(r - base)
  only_default = base - dispatch.reach_for(g, LAST, 'Attr') - dispatch.reach_for(
      g, LAST, 'Key')
  sinks['<default>'] = _stmt_texts(only_default)
  ok = ('raise' in sinks.get('<default>', '') and any(
      f'setattr({WALK}, {LAST}.name, {v})' in sinks.get('Attr', '') and
      f'{WALK}[{LAST}.key] = {v}' in sinks.get('Key', '') and
      f'{WALK}[{LAST}.key] = {v}' not in sinks.get('Attr', '') and
      f'setattr({WALK}, {LAST}.name, {v})' not in sinks.get('Key', '')
      for v in vals))
  rs.check(ok, rule, f'{sv.qualname}:sinks',
           f'sinks: {sinks}', ctx.loc(sv, sv.node))

  # ---- EXH: commands
  rule = 'EXH.flag-commands'
  rs.declare(rule, 'command regex alternatives = dispatched commands; base '
             'directive table agrees', 4)
  fl = ctx.mod(FL)
  cre = fl.assigns.get('_COMMAND_RE')
  cpat = const_str(cre.args[0]) if isinstance(cre, ast.Call) else None
  if cpat is None:
    raise AnalysisError('_COMMAND_RE pattern not constant')
  import re as _re
  m = _re.search(r'\(([a-z_|]+)\)', cpat)
  alts = set(m.group(1).split('|')) if m else set()
  val = None
  for f in fl.all_funcs:
    if f.qualname == f'{FL}.FiddleFlag.value' and any(
        unparse(d) == 'property' for d in f.decorators):
      val = f
  if val is None:
    raise AnalysisError('FiddleFlag.value property not found')

  def group_of(f):
    """f and the private methods of its class it calls on self (a dispatch
    may be split over such helpers)."""
    out = [f]
    if f.cls is not None:
      work = [f]
      while work:
        g_ = work.pop()
        for c in ctx.calls(g_):
          if isinstance(c.func, ast.Attribute) and isinstance(
              c.func.value, ast.Name) and g_.params and (
                  c.func.value.id == g_.params[0]):
            h = f.cls.methods.get(c.func.attr)
            if h is not None and h.name.startswith('_') and h not in out:
              out.append(h)
              work.append(h)
    return out

  def str_elements(e, scope):
    e = ctx.const(roles.deref(scope, e), scope) if isinstance(
        scope, type(val)) else e
    if isinstance(e, ast.Attribute) and isinstance(
        e.value, ast.Name) and getattr(scope, 'cls', None) is not None and (
            scope.params and e.value.id in (scope.params[0], scope.cls.name)):
      # a table kept as a class attribute: self.TABLE / Class.TABLE
      e = scope.cls.class_assigns.get(e.attr, e)
    if isinstance(e, ast.Call) and isinstance(e.func, ast.Name) and (
        e.func.id in ('frozenset', 'set', 'tuple', 'list')) and len(
            e.args) == 1:
      e = e.args[0]
    if isinstance(e, (ast.Set, ast.Tuple, ast.List)):
      els = e.elts
    elif isinstance(e, ast.Dict):
      els = e.keys
    else:
      return None
    if all(isinstance(x, ast.Constant) and isinstance(x.value, str)
           for x in els):
      return {x.value for x in els}
    return None

  def compared_constants(f, var=None):
    """String constants one variable is dispatched on: `x == 'set'`,
    `x in <constant collection>`, `<constant dict>.get(x)` / `[x]`; the
    variable is the one with most such constants unless given.
    """
    by_var = {}
    for fn in group_of(f):
      for n in walk_function(fn.node):
        if isinstance(n, ast.Compare) and isinstance(
            n.left, ast.Name) and len(n.ops) == 1:
          if isinstance(n.ops[0], ast.Eq) and isinstance(
              n.comparators[0], ast.Constant) and isinstance(
                  n.comparators[0].value, str):
            by_var.setdefault(n.left.id, set()).add(n.comparators[0].value)
          elif isinstance(n.ops[0], (ast.In, ast.NotIn)):
            els = str_elements(n.comparators[0], fn)
            if els:
              by_var.setdefault(n.left.id, set()).update(els)
        key = None
        if isinstance(n, ast.Call) and isinstance(
            n.func, ast.Attribute) and n.func.attr == 'get' and n.args and (
                isinstance(n.args[0], ast.Name)):
          key, tbl = n.args[0].id, n.func.value
        elif isinstance(n, ast.Subscript) and isinstance(
            n.slice, ast.Name) and isinstance(n.ctx, ast.Load):
          key, tbl = n.slice.id, n.value
        if key is not None:
          els = str_elements(tbl, fn)
          if els:
            by_var.setdefault(key, set()).update(els)
    if var is not None:
      return by_var.get(var, set())
    return max(by_var.values(), key=len) if by_var else set()

  dispatched = compared_constants(val)
  pc = ctx.func(f'{FL}.FiddleFlag._parse_config')
  handled_base = compared_constants(pc)
  base_tbl = fl.assigns.get('_BASE_CONFIG_DIRECTIVES')
  base = {c.value for c in ast.walk(base_tbl) if isinstance(c, ast.Constant)}
  rs.check(alts == dispatched and len(alts) >= 5, rule, f'{FL}:commands',
           f'regex accepts {sorted(alts)}; dispatched {sorted(dispatched)}',
           fl.relpath)
  rs.check(base == handled_base and base <= alts, rule, f'{FL}:base-directives',
           f'_BASE_CONFIG_DIRECTIVES {sorted(base)}; _parse_config handles '
           f'{sorted(handled_base)}', fl.relpath)
  ser = ctx.func(f'{FL}.FiddleFlagSerializer.serialize')
  rets = [r for r in walk_function(ser.node) if isinstance(r, ast.Return)]
  prefix = None
  if rets and isinstance(rets[0].value, ast.JoinedStr) and isinstance(
      rets[0].value.values[0], ast.Constant):
    prefix = rets[0].value.values[0].value
  rs.check(prefix is not None and prefix.endswith(':') and
           prefix[:-1] in base, rule, f'{ser.qualname}:prefix',
           f'serialized flag values start with {prefix!r}', ctx.loc(ser, ser.node))
  # dispatch default raises; a non-matching item raises
  raises = [n for fn in group_of(val) if fn.name != '_parse_config'
            for n in walk_function(fn.node) if isinstance(n, ast.Raise)]
  rs.check(len(raises) >= 3, rule, f'{val.qualname}:loud',
           f'{len(raises)} raising branches (bad item, non-base first '
           'command, unknown command)', ctx.loc(val, val.node),
           nontrivial=False)

  # ---- FIFO
  rule = 'FIFO.directive-queue'
  rs.declare(rule, 'the directive queue is extended at the tail, popped at '
             'the head, or reset', 3)
  ff = ctx.cls(f'{FL}.FiddleFlag')
  n_sites = 0
  for f in fl.all_funcs:
    if not f.qualname.startswith(ff.qualname + '.'):
      continue
    for n in walk_function(f.node):
      if isinstance(n, ast.Call) and isinstance(
          n.func, ast.Attribute) and unparse(n.func.value).endswith(
              '._remaining_directives'):
        n_sites += 1
        a = n.func.attr
        ok = (a == 'extend') or (a == 'pop' and len(n.args) == 1 and unparse(
            n.args[0]) == '0') or (a == 'append')
        rs.check(ok, rule, f'{f.qualname}:{unparse(n)[:50]}',
                 'tail extension' if a in ('extend', 'append') else
                 'head pop' if ok else
                 f'`{unparse(n)}` takes or inserts directives out of '
                 'command-line order', ctx.loc(f, n))
      if isinstance(n, ast.Assign) and any(
          unparse(t).endswith('._remaining_directives') for t in n.targets):
        n_sites += 1
        ok = isinstance(n.value, ast.List) and not n.value.elts
        rs.check(ok, rule, f'{f.qualname}:reset',
                 'reset to the empty queue' if ok else
                 f'`{unparse(n)}` replaces the queue', ctx.loc(f, n),
                 nontrivial=False)
  # each directive is applied where it is popped: the dispatch is inside the
  # draining loop and writes the value immediately
  g = ctx.cfg(val)
  loops = [n for n in g.nodes() if g.kind[n] == 'while' and
           '_remaining_directives' in unparse(g.stmt[n].test)]
  ok = bool(loops)
  if ok:
    body = g.reach([x for x, lab in g.succ[loops[0]] if lab == 'true'],
                   blocked={loops[0]}, labels=cfg_lib.NO_EXC)
    S = val.params[0]
    CMD = EXPR = None
    for x in body:
      st = g.stmt[x]
      if isinstance(st, ast.Assign) and isinstance(
          st.targets[0], ast.Tuple) and len(
              st.targets[0].elts) == 2 and isinstance(
                  st.value, ast.Call) and isinstance(
                      st.value.func, ast.Attribute) and (
                          st.value.func.attr == 'groups'):
        CMD, EXPR = [unparse(e) for e in st.targets[0].elts]
    calls = [e for x in body for e in cfg_lib.walk_node(g, x)
             if isinstance(e, ast.Call)]
    cur = f'{S}._value'
    sets = any(unparse(c.func).endswith('set_value') and
               [unparse(a) for a in c.args] == [cur, EXPR] for c in calls)
    fiddles = any(
        isinstance(g.stmt[x], ast.Assign) and unparse(
            g.stmt[x].targets[0]) == cur and isinstance(
                g.stmt[x].value, ast.Call) and unparse(
                    g.stmt[x].value.func) == f'{S}._apply_fiddler' and
        [unparse(a) for a in g.stmt[x].value.args] == [cur, EXPR]
        for x in body)
    parses = any(unparse(c.func) == f'{S}._parse_config' and
                 [unparse(a) for a in c.args] == [CMD, EXPR] for c in calls)
    pops = any(isinstance(c.func, ast.Attribute) and c.func.attr == 'pop' and
               unparse(c.func.value) == f'{S}._remaining_directives' and
               [unparse(a) for a in c.args] == ['0'] for c in calls)
    ok = sets and fiddles and parses and pops
  rs.check(ok, rule, f'{val.qualname}:apply-in-order',
           'config / set / fiddler are applied inside the draining loop, in '
           'the order they are popped', ctx.loc(val, val.node))

  # the queue receives exactly what was parsed, in that order
  pa = ctx.func(f'{FL}.FiddleFlag.parse')
  ok = False
  why = 'no extension of the directive queue found'
  for c in ctx.calls(pa):
    if isinstance(c.func, ast.Attribute) and c.func.attr == 'extend' and unparse(
        c.func.value).endswith('._remaining_directives') and len(c.args) == 1:
      a = c.args[0]
      defs = [a] if not isinstance(a, ast.Name) else roles.defs_of(pa, a.id)
      ok = len(defs) == 1 and isinstance(defs[0], ast.Call) and unparse(
          defs[0].func) == f'{pa.params[0]}._parse' and [
              unparse(x) for x in defs[0].args] == [pa.params[1]]
      why = ('the queue is extended with self._parse(arguments), unfiltered '
             'and in order' if ok else
             f'`{unparse(c)[:60]}`: what is queued is not simply '
             'self._parse(arguments) (it is filtered, reordered or rebuilt): '
             'a directive given twice on the command line is applied once, or '
             'in another position')
  rs.check(ok, rule, f'{pa.qualname}:queued-as-parsed', why,
           ctx.loc(pa, pa.node))

  # ---- FRESH: an override value is parsed anew for every override
  rule = 'FRESH.override-value'
  rs.declare(rule, 'parse_value returns a newly parsed object (no cache '
             'between overrides)', 1)
  pv = ctx.func(f'{U}.parse_value')
  closure = ctx.cg.reachable([pv.qualname], kinds=('exact', 'nested'))
  cached = []
  for q in sorted(closure):
    f2 = p.funcs.get(q)
    if f2 is None or not q.startswith('fiddle.'):
      continue
    if any('cache' in unparse(d) for d in f2.decorators):
      cached.append(q)
  rets = [r for r in walk_function(pv.node) if isinstance(r, ast.Return)]
  def _constant_table_lookup(v):
    # TABLE[key] / TABLE.get(key) on a module-level mapping of immutable
    # constants: nothing mutable is shared between two lookups
    if isinstance(v, ast.Call) and isinstance(
        v.func, ast.Attribute) and v.func.attr == 'get':
      tbl = v.func.value
    elif isinstance(v, ast.Subscript):
      tbl = v.value
    else:
      return False
    if not isinstance(tbl, ast.Name) or tbl.id in pv.local_names():
      return False
    d = pv.module.assigns.get(tbl.id)
    if isinstance(d, ast.Call) and len(d.args) == 1 and not d.keywords:
      d = d.args[0]   # types.MappingProxyType({...}) / dict({...})
    return isinstance(d, ast.Dict) and all(
        isinstance(x, ast.Constant) for x in d.values) and all(
            k is not None for k in d.keys)

  direct = all(isinstance(r.value, ast.Constant) or (
      isinstance(r.value, ast.Call) and unparse(r.value.func) ==
      'ast.literal_eval') or (isinstance(r.value, ast.Call) and p.resolve(
          r.value.func, pv) in p.funcs) or _constant_table_lookup(r.value)
               for r in rets)
  rs.check(not cached and direct and bool(rets), rule, pv.qualname,
           'every return is a constant or a fresh ast.literal_eval(value)'
           if not cached and direct else
           (f'parse_value goes through the cached function {cached[0]}: two '
            'overrides with the same text (`a=[0, 0]`, `b=[0, 0]`) receive '
            'the same list object, so the written configuration has sharing '
            'the original did not have and a later edit of one leaf changes '
            'the other' if cached else
            'a return of parse_value is not a fresh literal'),
           ctx.loc(pv, pv.node))

  # ---- KEY: the printers' argument normalisation keeps every key
  rule = 'KEY.rearranged-arguments'
  rs.declare(rule, 'normalising the argument order for printing moves each '
             'value under the key it had', 1)
  ra = ctx.func(f'{PR}._rearrange_buildable_args')
  olds = roles.assigned_from(ra, lambda e: isinstance(e, ast.Call) and unparse(
      e.func) == 'dict' and e.args and unparse(e.args[0]).endswith(
          '.__arguments__'))
  n_moves = 0
  bad = None
  for st in walk_function(ra.node):
    if isinstance(st, ast.Assign) and isinstance(st.targets[0], ast.Subscript):
      v = st.value
      src_key = None
      if isinstance(v, ast.Call) and isinstance(
          v.func, ast.Attribute) and v.func.attr == 'pop' and unparse(
              v.func.value) in olds and v.args:
        src_key = v.args[0]
      elif isinstance(v, ast.Subscript) and unparse(v.value) in olds:
        src_key = v.slice
      if src_key is not None:
        n_moves += 1
        if unparse(src_key) != unparse(st.targets[0].slice):
          bad = st
  rs.check(n_moves >= 1 and bad is None, rule, ra.qualname,
           f'{n_moves} move(s), each under its own key' if bad is None else
           f'`{unparse(bad)[:70]}` stores a value under a different key than '
           'the one it had: the printed path (e.g. `[0]`) then names another '
           'argument than the one holding the value, and writing it back '
           'overwrites that other argument', ctx.loc(ra, bad or ra.node))

  # ---- INV: ZlibJSONSerializer
  rule = 'INV.flag-serializer'
  rs.declare(rule, 'deserialize is the mirror image of serialize', 2)
  inverse = {'dump_json': 'load_json', 'encode': 'decode',
             'compress': 'decompress',
             'urlsafe_b64encode': 'urlsafe_b64decode',
             'b64encode': 'b64decode'}

  def pipeline(f) -> List[str]:
    rets = [r for r in walk_function(f.node) if isinstance(r, ast.Return)]
    if len(rets) != 1:
      return []
    out = []
    e = rets[0].value
    while isinstance(e, ast.Call):
      name = unparse(e.func).split('.')[-1]
      out.append(name)
      if isinstance(e.func, ast.Attribute) and isinstance(
          e.func.value, ast.Call):
        e = e.func.value  # method call on a call result: x(...).decode()
      elif e.args:
        e = e.args[0]
      else:
        break
    return list(reversed(out))  # innermost first

  zs = ctx.func(f'{U}.ZlibJSONSerializer.serialize')
  zd = ctx.func(f'{U}.ZlibJSONSerializer.deserialize')
  ps_, pd_ = pipeline(zs), pipeline(zd)
  # the final .decode('ascii') of serialize only turns base64 bytes into str
  enc = ps_[:-1] if ps_ and ps_[-1] == 'decode' else ps_
  want = [inverse.get(x, '?' + x) for x in reversed(enc)]
  rs.check(bool(enc) and want == pd_, rule, f'{U}.ZlibJSONSerializer',
           f'serialize: {ps_}; deserialize: {pd_}; expected inverse: {want}',
           ctx.loc(zs, zs.node))
  ok = 'pyref_policy' in unparse(zs.node).split('dump_json(')[1].split(')')[
      0] and 'pyref_policy=pyref_policy' in unparse(zd.node)
  rs.check(ok, rule, f'{U}.ZlibJSONSerializer:policy',
           'the reference policy is forwarded in both directions',
           ctx.loc(zs, zs.node), nontrivial=False)

  # ---- printers list each leaf under its traversal path
  rule = 'SHAPE.flattened-printers'
  rs.declare(rule, 'each listed leaf is keyed by the path of its own '
             'traversal state', 2)
  for q, inner in ((f'{PR}.as_dict_flattened', 'dict_generate'),
                   (f'{PR}.as_str_flattened', 'generate')):
    f = ctx.func(q)
    gfn = ctx.p.nested_of(f, inner)
    if gfn is None:
      raise AnalysisError(f'{q}.{inner} not found')
    gname = gfn.name
    gfn = ctx.p.through_delegation(gfn)
    ys = [y for y in walk_function(gfn.node) if isinstance(y, ast.Yield) and
          isinstance(y.value, ast.Call) and
          unparse(y.value.func) == '_LeafSetting']
    st_p = gfn.params[1] if len(gfn.params) > 1 else 'state'
    val_p = gfn.params[0] if gfn.params else 'value'
    ok = bool(ys) and all(
        unparse(roles.deref(gfn, y.value.args[0])) == f'{st_p}.current_path'
        for y in ys)
    rec = any(isinstance(n, ast.For) and
              f'yield_map_child_values({val_p})' in unparse(n.iter)
              for n in walk_function(gfn.node))
    # an un-memoized traversal, started by the generator itself or by its
    # caller on its behalf
    basic = any('BasicTraversal.begin' in unparse(c.func)
                for c in ctx.calls(gfn)) or any(
                    'BasicTraversal.begin' in unparse(c.func) and c.args and
                    unparse(c.args[0]) == gname for c in ctx.calls(f))
    texts = [unparse(f.node)]
    # functions of the module that f calls or hands on (map / partial)
    for x in ast.walk(f.node):
      if isinstance(x, ast.Name) and isinstance(x.ctx, ast.Load):
        h = f.module.funcs.get(x.id)
        if h is not None and not h.is_lambda and x.id not in f.local_names():
          texts.append(unparse(h.node))
    uses_path = any('_path_str(' in t for t in texts)
    rs.check(ok and rec and basic and uses_path, rule, q,
             'leaves are yielded with state.current_path; non-leaves recurse '
             'over every child (un-memoized: one line per path); keys are '
             '_path_str(path)', ctx.loc(f, f.node))
  if undecidable is not None:
    raise undecidable


MANIFEST = dict(
    text=('Decides structural clauses of C18: regular-language inclusion of '
          'the printed path syntax (f-string templates with hole languages '
          'taken from the property\'s quantifier) in the override parser\'s '
          'regular expression, the leading-dot convention, the set_value '
          'sinks, agreement of the directive tables with the dispatch, the '
          'FIFO discipline of the directive queue with in-loop application, '
          'and the inverse-pipeline shape of the compressed flag value. That '
          'repr(value) parses back is assumed for literal leaves.'),
    note=('Trusted: ast; Python re parser for the pattern; the hole languages '
          'stated in the checker (repr of quote-free strings, identifiers).'),
    technique='static analysis: string-template abstraction + NFA/subset-construction language inclusion, table agreement, who-may-mutate the queue, inverse-pipeline table',
)
