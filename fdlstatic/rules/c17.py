"""C17 - read-only and copy-returning APIs never modify their input."""
from __future__ import annotations

import ast

from fdlstatic.ctx import Ctx
from fdlstatic.model import unparse
from fdlstatic.report import RuleSet
from fdlstatic.rules import ownrule

S = 'fiddle._src'
# entry point -> input parameter names (None = all parameters)
ENTRIES = {
    f'{S}.building.build': ['buildable'],
    f'{S}.printing.as_str_flattened': ['cfg'],
    f'{S}.printing.as_dict_flattened': ['cfg'],
    f'{S}.printing.history_per_leaf_parameter': ['cfg'],
    f'{S}.graphviz.render': ['config'],
    f'{S}.graphviz.render_diff': ['diff', 'old', 'new'],
    f'{S}.experimental.serialization.dump_json': ['value'],
    f'{S}.experimental.serialization.Serialization.__init__': ['value'],
    f'{S}.experimental.serialization.clear_argument_history': ['buildable'],
    f'{S}.diffing.build_diff': ['old', 'new'],
    f'{S}.diffing.align_by_id': ['old', 'new'],
    f'{S}.diffing.align_heuristically': ['old', 'new'],
    f'{S}.diffing.build_diff_from_alignment': ['alignment'],
    f'{S}.diffing.resolve_diff_references': ['diff', 'old_root'],
    f'{S}.diffing.skeleton_from_diff': ['diff'],
    f'{S}.diffing.Diff.ignoring_changes': ['self'],
    f'{S}.diffing.Diff.ignoring_paths': ['self'],
    f'{S}.validation.check_types.get_type_errors': ['config'],
    f'{S}.validation.check_types.check_types': ['config'],
    f'{S}.validation.no_custom_objects.get_config_errors': ['config'],
    f'{S}.validation.no_custom_objects.check_no_custom_objects': ['config'],
    f'{S}.validation.baseline_style.check_baseline_style': ['config'],
    f'{S}.codegen.new_codegen.new_codegen': ['config'],
    f'{S}.codegen.auto_config.experimental_top_level_api.auto_config_codegen':
        ['config'],
    f'{S}.codegen.legacy_codegen.codegen_dot_syntax': ['buildable'],
    f'{S}.codegen.codegen_diff.fiddler_from_diff': ['diff', 'old'],
    f'{S}.selectors.select': ['cfg'],
    f'{S}.selectors.NodeSelection.__iter__': ['self'],
    f'{S}.selectors.NodeSelection.get': ['self'],
    f'{S}.selectors.TagSelection.__iter__': ['self'],
    f'{S}.debug.grep.grep': ['config'],
    f'{S}.casting.cast': ['buildable'],
    f'{S}.copying.copy_with': ['buildable'],
    f'{S}.copying.deepcopy_with': ['buildable'],
    f'{S}.tagging.materialize_tags': ['buildable'],
    f'{S}.tagging.list_tags': ['root'],
    f'{S}.tagging.get_tags': ['buildable'],
    f'{S}.experimental.visualize.trimmed': ['config', 'trim'],
    f'{S}.experimental.visualize.with_defaults_trimmed': ['config'],
    f'{S}.experimental.visualize.depth_over': ['config'],
    f'{S}.experimental.visualize.structure': ['config'],
    f'{S}.experimental.visualize.trim_fields_to': ['config'],
    f'{S}.experimental.visualize.trim_long_fields': ['config'],
    f'{S}.experimental.transform.unintern_tuples_of_literals': ['buildable'],
    f'{S}.experimental.transform.replace_unconfigured_partials_with_callables':
        ['buildable'],
    f'{S}.config.Buildable.__eq__': ['self', 'other'],
    f'{S}.config.Buildable.__repr__': ['self'],
    f'{S}.config.Buildable.__copy__': ['self'],
    f'{S}.config.Buildable.__deepcopy__': ['self'],
    f'{S}.config.Buildable.__getitem__': ['self'],
    f'{S}.config.Buildable.__dir__': ['self'],
    f'{S}.config.Buildable.__getstate__': ['self'],
    f'{S}.config.Buildable.__flatten__': ['self'],
    f'{S}.config.ordered_arguments': ['buildable'],
    f'{S}.daglish.iterate': ['value'],
    f'{S}.daglish.collect_paths_by_id': ['structure'],
    f'{S}.experimental.auto_config.inline': [],
}

# sinks that act on an alias of the input but are accepted, with the reason
EXCEPTIONS = {
    (f'{S}.graphviz.render_diff', '_trim_dict'):
        'the structure that _trim_diff trims is the copy rebuilt by '
        '_record_changed_values_from_diff (memoized_traverse rebuilds every '
        'container; new values are replaced by their transformed copies via '
        'original_to_transformed before trimming) and only dicts whose id is '
        'in old_value_ids - ids collected from that rebuilt copy - are '
        'trimmed; confirmed by a runtime probe (old, new and diff unchanged)',
    (f'{S}.config.Buildable.__deepcopy__', '`memo['):
        'deepcopy protocol: the memo dict is an out-parameter owned by the '
        'copy machinery, not part of the configuration',
}

EXPLANATION = (
    'Static decision of C17 by an interprocedural ownership analysis: for '
    'each of the listed entry points (building, printing, rendering, '
    'serializing, diffing, validating, code generation, selection iteration, '
    'and every copy-returning API) every mutation sink in its call-graph '
    'closure - attribute and item stores and deletes, setattr / delattr / '
    'object.__setattr__, writes through __arguments__ / __argument_tags__ / '
    '__argument_history__ / __dict__, container mutator methods, in-place '
    'operators, and calls of functions summarised as mutating a parameter - '
    'is evaluated with an alias abstraction (direct aliases of a parameter or '
    'of something reachable from it vs. fresh objects that merely hold such '
    'values: copy.copy, unflatten, map_children results, constructor results, '
    'literals, comprehensions; deepcopy results hold nothing). Traversal '
    'callbacks are bound to the traversed root and its parts; the '
    'copy-on-first-write idiom under a boolean flag is handled by '
    'partitioning the dataflow state on constant flags. An entry point is '
    'discharged when no sink acts on a direct alias of its input. Not '
    'decided: the behavioural before/after equality follows from the absence '
    'of such sinks modulo the stated approximations (calls resolved only by '
    'method name are not applied; non-traversable user objects returned '
    'unchanged by map_children are treated as fresh).')
ASSUMPTIONS = [
    'call graph: exact resolution + nested / reference edges; calls resolved '
    'only by method name are treated as returning a new object holding their '
    'arguments and as not mutating them',
    'State.map_children / flattened_map_children(...).unflatten() return a '
    'new container for traversable values',
    'third-party and standard-library functions do not mutate their '
    'arguments (copy, json, inspect, textwrap, graphviz, libcst)',
    'insert-on-read of defaultdict / History (empty containers) is not '
    'counted as a modification (flatten filters empty tag sets)',
]


def codegen_callbacks(ctx: Ctx):
  """Traversal callbacks of the code generators: nested functions handed to

  a daglish traversal.  The passes are chained through dataclass fields (not
  resolvable calls), and the task they rewrite starts out holding the caller's
  configuration itself, so each callback is checked as an entry point of its
  own: it must not modify the node it is given.
  """
  out = {}
  for mn in sorted(ctx.p.modules):
    if not mn.startswith(f'{S}.codegen'):
      continue
    for f in ctx.mod(mn).all_funcs:
      for c in ctx.calls(f):
        fn = unparse(c.func)
        if fn.endswith(('Traversal.run', 'traverse_parents_first',
                        'traverse_with_path', 'memoized_traverse')) and (
                            c.args and isinstance(c.args[0], ast.Name)):
          q = ctx.p.resolve(c.args[0], f)
          if q in ctx.p.funcs:
            out[q] = f.qualname
  return out


def _ir_guarded_stores(ctx: Ctx, cb) -> dict:
  """Attribute stores on the callback's node parameter that sit under

  `if isinstance(<param>, code_ir.<Class>)`: the node is an IR object created
  by an earlier pass, never part of the caller's configuration.
  """
  f = ctx.func(cb)
  param = f.params[0]
  out = {}

  def visit(stmts, guarded):
    for st in stmts:
      if isinstance(st, ast.If):
        t = st.test
        g = guarded
        if isinstance(t, ast.Call) and unparse(t.func) == 'isinstance' and len(
            t.args) == 2 and unparse(t.args[0]) == param:
          tys = t.args[1].elts if isinstance(
              t.args[1], ast.Tuple) else [t.args[1]]
          if all(unparse(x).startswith('code_ir.') for x in tys):
            g = True
        visit(st.body, g)
        visit(st.orelse, guarded)
      elif isinstance(st, (ast.For, ast.While, ast.With, ast.Try)):
        for fld in ('body', 'orelse', 'finalbody'):
          visit(getattr(st, fld, []) or [], guarded)
        for h in getattr(st, 'handlers', []) or []:
          visit(h.body, guarded)
      elif isinstance(st, ast.Assign):
        for t in st.targets:
          if isinstance(t, ast.Attribute) and unparse(t.value) == param:
            out[f'{param}.{t.attr}'] = out.get(f'{param}.{t.attr}', True) and guarded

  visit(f.node.body, False)
  return {k for k, v in out.items() if v}


def run(ctx: Ctx, rs: RuleSet, tier: str):
  cbs = codegen_callbacks(ctx)
  cb_exc = {}
  for cb in cbs:
    for tgt in _ir_guarded_stores(ctx, cb):
      cb_exc[(cb, f'store `{tgt} = ')] = (
          'the store is under isinstance(value, code_ir.<IR class>): an IR '
          'node created by an earlier pass, not part of the caller\'s '
          'configuration (guard re-verified)')
  ownrule.run_entry_points(
      ctx, rs, 'OWN.codegen-callbacks', sorted(cbs),
      inputs={cb: [ctx.func(cb).params[0]] for cb in cbs}, exceptions=cb_exc,
      statement='no traversal callback of a code generation pass modifies '
      'the node it is visiting (the first pass visits the caller\'s own '
      'configuration objects); rewriting happens on copies')
  rs.declare('OWN.codegen-callbacks', 'traversal callbacks of the code '
             'generators', 15)
  # premise of the ownership abstraction, re-verified on every run
  from fdlstatic.rules import c08
  rs.declare('SHAPE.map-children', 'State.map_children returns a new '
             'container for every traversable value (the copies that the '
             'copy-returning APIs hand back are never the caller\'s own '
             'nodes, even childless ones)', 1)
  c08.map_children_rule(ctx, rs, 'SHAPE.map-children')
  from fdlstatic.rules import c01
  c01.children_before_call(ctx, rs, rule='DOM.build-rebuilds-containers')
  entries = sorted(ENTRIES)
  own = ownrule.run_entry_points(
      ctx, rs, 'OWN.input-unmodified', entries,
      inputs={k: v for k, v in ENTRIES.items()}, exceptions=EXCEPTIONS)
  n_sites = sum(len(v) for v in own.sink_sites.values())
  n_hit = sum(1 for v in own.sink_sites.values() for h in v.values() if h)
  rs.observe(f'{len(own.closure)} functions analysed in {own.iterations} '
             f'fixpoint iterations; {n_sites} sink sites classified, '
             f'{n_hit} of them act on an alias of a parameter of their own '
             'function (legitimate for helpers that are handed fresh copies)')
  if own.unapplied_calls:
    rs.observe(f'{len(own.unapplied_calls)} call sites resolved only by '
               'method name were not applied: ' +
               '; '.join(sorted(own.unapplied_calls)[:12]))
  rs.declare('OWN.sink-sites', 'mutation sink sites classified in the '
             'closure', 40)
  for q in sorted(own.sink_sites):
    for site, hit in sorted(own.sink_sites[q].items()):
      rs.ok('OWN.sink-sites', f'{q}:{site}',
            'acts on an alias of a parameter of its function' if hit else
            'receiver is fresh / local', '', nontrivial=hit)


MANIFEST = dict(
    text=('Decides C17 structurally for all configurations: an '
          'interprocedural may-mutate-input analysis over the call-graph '
          'closure of ~55 entry points proves that no mutation sink acts on '
          'an alias of the input (or reports the sink with its call chain). '
          'Sound up to the stated approximations of the call graph and of '
          'library behaviour; precise enough to accept the '
          'copy-then-edit, map_children-rebuild and copy-on-first-write '
          'idioms used in the code base.'),
    note=('Trusted: ast, CFG, call graph; summaries of library functions '
          '(copy.copy shallow, copy.deepcopy deep, constructors and literals '
          'fresh); calls resolved only by method name are not applied.'),
    technique='static analysis: interprocedural ownership/alias dataflow with function summaries (fixpoint), flag-partitioned flow sensitivity',
)
