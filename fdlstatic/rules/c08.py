"""C08 - traversal paths are sound and complete; identity traversal faithful."""
from __future__ import annotations

import ast
from typing import Dict, List, Optional, Tuple

from fdlstatic import cfg as cfg_lib
from fdlstatic import idmemo
from fdlstatic.ctx import Ctx, kwarg, kwarg_deep
from fdlstatic.model import (AnalysisError, FuncInfo, Module, unparse,
                             walk_function, walk_stmts)
from fdlstatic import roles
from fdlstatic.report import RuleSet

REG = 'fiddle._src.daglish.NodeTraverserRegistry.register_node_traverser'
DAG = 'fiddle._src.daglish'

EXPLANATION = (
    'Static clauses of C08 decided on the current source: (AGREE) for every '
    'register_node_traverser call in the repository, flatten_fn and '
    'path_elements_fn enumerate the same underlying sequence in the same '
    'order (symbolic descriptors: values/keys of the same mapping, '
    'elements/range(len) of the same sequence, namedtuple elements/fields, '
    'attribute tuples/name lists, dataclass fields), the PathElement kind '
    'matches the container kind, unflatten consumes the metadata flatten '
    'produced, and flatten_with_paths pairs element i with Index(i); '
    'Buildable and CodegenNode delegate to method pairs that are checked the '
    'same way (both Buildable functions derive from ordered_arguments with '
    'the same flags); (FOLLOW) each PathElement.follow performs the access '
    'its kind denotes and follow_path folds them from the root; (SHAPE) '
    'iterate yields (node, current_path) before descending and picks '
    'MemoizedTraversal iff memoized; every child visit goes through '
    'State.call with its own path element; map_children unflattens with the '
    'traverser that flattened and returns leaves unchanged; all-paths '
    'collection walks un-memoized; (IDMEMO) identity-keyed path tables pin '
    'their objects or carry a recorded reason; (CYCLE) as in C02. Not '
    'decided: exactly-once / completeness as observed behaviour.')
ASSUMPTIONS = [
    'dict.keys() and dict.values() iterate in the same order',
    'namedtuple._asdict() preserves field order; dataclasses.fields() is '
    'deterministic',
    'user-registered traversers outside the repository are not analysed',
]


# ----------------------------------------------------------- descriptors
def _subst(expr, env: Dict[str, ast.expr], depth=0):
  """Inlines single-assignment locals."""
  if depth > 6:
    return expr

  class T(ast.NodeTransformer):

    def visit_Name(self, n):
      if isinstance(n.ctx, ast.Load) and n.id in env:
        return _subst(env[n.id], env, depth + 1)
      return n

  import copy
  return T().visit(copy.deepcopy(expr))


def fn_return(f: FuncInfo) -> Tuple[Optional[ast.expr], List[str]]:
  """Return expression of a simple function with locals inlined."""
  if f.is_lambda:
    return f.node.body, f.params
  env = {}
  ret = None
  body = f.node.body
  if any(isinstance(st, (ast.For, ast.AnnAssign)) for st in body):
    # accumulator loops read as comprehensions (fdlstatic/normalise.py); an
    # object created by a call and filled key by key reads as
    # __accumulate__(<call>, {k: v for ...})
    import copy as _copy
    from fdlstatic import normalise
    cp = _copy.deepcopy(f.node)
    normalise.loops_to_comprehensions(cp, accumulate=True)
    body = [ast.Assign(targets=[st.target], value=st.value) if isinstance(
        st, ast.AnnAssign) and st.value is not None and isinstance(
            st.target, ast.Name) else st for st in cp.body]
  for st in body:
    if isinstance(st, ast.Expr) and isinstance(st.value, ast.Constant):
      continue
    if isinstance(st, ast.Assign) and len(st.targets) == 1 and isinstance(
        st.targets[0], ast.Name):
      env[st.targets[0].id] = _subst(st.value, env)
    elif isinstance(st, ast.Assign) and len(st.targets) == 1 and isinstance(
        st.targets[0], ast.Tuple) and isinstance(st.value, ast.Tuple) and len(
            st.targets[0].elts) == len(st.value.elts) and all(
                isinstance(t_, ast.Name) for t_ in st.targets[0].elts):
      # a, b = x, y
      vals_ = [_subst(v_, env) for v_ in st.value.elts]
      for t_, v_ in zip(st.targets[0].elts, vals_):
        env[t_.id] = v_
    elif isinstance(st, ast.Return):
      ret = _subst(st.value, env) if st.value is not None else None
    else:
      return None, f.params
  return ret, f.params


def seq(e, param: str):
  """Symbolic descriptor of the sequence an expression enumerates."""
  if isinstance(e, ast.Name):
    return ('ELEMS', e.id)
  if isinstance(e, ast.Attribute) and e.attr == '__dict__':
    return ('KEYS', unparse(e))
  if isinstance(e, ast.Attribute) and e.attr == '_fields':
    return ('FIELDS', unparse(e.value))
  if isinstance(e, ast.Call):
    fn = e.func
    name = unparse(fn)
    if isinstance(fn, ast.Name) and fn.id in ('tuple', 'list') and len(
        e.args) == 1:
      return seq(e.args[0], param)
    if isinstance(fn, ast.Attribute) and fn.attr in ('values', 'keys',
                                                     'items') and not e.args:
      base = fn.value
      if isinstance(base, ast.Call) and isinstance(
          base.func, ast.Attribute) and base.func.attr == '_asdict':
        return ('FIELDS' if fn.attr == 'keys' else 'FIELDVALUES',
                unparse(base.func.value))
      return (fn.attr.upper(), unparse(base))
    if isinstance(fn, ast.Name) and fn.id == 'range' and len(
        e.args) == 1 and isinstance(e.args[0], ast.Call) and isinstance(
            e.args[0].func, ast.Name) and e.args[0].func.id == 'len':
      return ('RANGE', unparse(e.args[0].args[0]))
    if isinstance(fn, ast.Name) and fn.id == 'enumerate' and e.args:
      return ('ENUM', unparse(e.args[0]))
    if name.endswith('dataclasses.fields') and e.args:
      return ('DCFIELDS', unparse(e.args[0]))
    if name.split('.')[-1] == 'ordered_arguments':
      # ordered_arguments returns a dict: iterating it enumerates its keys
      return ('KEYS', unparse(e))
    return ('CALL', unparse(e))
  if isinstance(e, (ast.Tuple, ast.List)):
    items = []
    for el in e.elts:
      if isinstance(el, ast.Attribute) and isinstance(el.value, ast.Name):
        items.append(('attr', el.attr))
      elif isinstance(el, ast.Constant) and isinstance(el.value, str):
        items.append(('const', el.value))
      elif isinstance(el, ast.Call):
        items.append(('call', unparse(el.func)))
      else:
        items.append(('expr', unparse(el)))
    return ('LIT', tuple(items))
  if isinstance(e, (ast.GeneratorExp, ast.ListComp)) and len(
      e.generators) == 1 and not e.generators[0].ifs:
    gen = e.generators[0]
    src = seq(gen.iter, param)
    elt = e.elt
    tgt = unparse(gen.target)
    if isinstance(elt, ast.Call):
      w = unparse(elt.func).split('.')[-1]
      args = [unparse(a) for a in elt.args]
      if w == 'getattr' and len(args) == 2:
        return ('MAP', 'getattr', src, args[1] == tgt)
      return ('MAP', w, src, args == [tgt] or (not args))
    if isinstance(elt, ast.Attribute) and unparse(elt.value) == tgt:
      return ('MAPATTR', elt.attr, src)
    if isinstance(elt, ast.IfExp):
      # Attr(name) if isinstance(name, str) else Index(name)
      a, b = elt.body, elt.orelse
      if isinstance(a, ast.Call) and isinstance(b, ast.Call):
        return ('MAP', 'attr_or_index', src,
                [unparse(x) for x in a.args] == [tgt] and
                [unparse(x) for x in b.args] == [tgt])
    if isinstance(elt, ast.Tuple):
      return ('MAPTUPLE', tuple(unparse(x) for x in elt.elts), src, tgt)
    return ('MAP?', unparse(elt), src)
  return ('?', unparse(e))


def agree(vals, pes) -> Tuple[bool, str]:
  """Do the flatten values descriptor and path elements descriptor agree?"""
  if vals[0] == 'LIT' and pes[0] == 'LIT':
    if len(vals[1]) == len(pes[1]) == 0:
      return True, 'both empty'
    if len(vals[1]) == len(pes[1]) == 1 and pes[1][0][0] == 'call' and pes[
        1][0][1].endswith('IdentityElement'):
      return True, 'single child under the identity element'
    return False, f'literal sequences of different shape: {vals} vs {pes}'
  if pes[0] != 'MAP':
    return False, f'path elements are not a per-child mapping: {pes}'
  _, wrapper, src, arg_ok = pes
  if not arg_ok:
    return False, f'{wrapper}(...) is not applied to the iteration variable'
  if vals[0] == 'VALUES' and src == ('KEYS', vals[1]):
    if wrapper == 'Key':
      return True, f'values()/keys() of {vals[1]} with Key'
    if wrapper == 'Attr' and vals[1].endswith('__dict__'):
      return True, f'__dict__ values/keys of {vals[1]} with Attr'
    if wrapper == 'attr_or_index' and 'ordered_arguments' in vals[1]:
      return True, ('argument values/keys of the same ordered_arguments call '
                    'with Attr for str keys and Index for int keys')
    return False, f'mapping children must be addressed by Key, not {wrapper}'
  if vals[0] == 'VALUES' and src == ('ELEMS', vals[1]):
    if wrapper == 'Key':
      return True, f'values() / iteration over {vals[1]} with Key'
  if vals[0] == 'VALUES' and vals[1].endswith('__dict__') and src == (
      'KEYS', vals[1]) and wrapper == 'Attr':
    return True, '__dict__ values / keys with Attr'
  if vals[0] == 'ELEMS' and src == ('RANGE', vals[1]):
    if wrapper == 'Index':
      return True, f'elements / range(len) of {vals[1]} with Index'
    return False, f'sequence children must be addressed by Index, not {wrapper}'
  if vals[0] == 'ELEMS' and src == ('FIELDS', vals[1]) and wrapper == 'Attr':
    return True, f'namedtuple elements / field names of {vals[1]} with Attr'
  if vals[0] == 'ELEMS' and src == ('ELEMS', vals[1]) and wrapper == 'SetElement':
    return True, f'one SetElement per element of {vals[1]}'
  if vals[0] == 'LIT' and src[0] == 'LIT' and wrapper == 'Attr':
    a = [x[1] for x in vals[1] if x[0] == 'attr']
    b = [x[1] for x in src[1] if x[0] == 'const']
    if a == b and len(a) == len(vals[1]) == len(src[1]):
      return True, f'attributes {a} in the same order'
    return False, f'attribute tuple {vals[1]} vs names {src[1]}'
  if vals[0] == 'MAP' and vals[1] == 'getattr' and wrapper == 'Attr' and vals[
      2] == src and vals[3]:
    return True, f'getattr / Attr over the same names {src}'
  return False, f'flatten enumerates {vals} but path elements enumerate {pes}'


class Registration:

  def __init__(self, scope, call):
    self.scope = scope
    self.call = call

    def get(i, name):
      v = kwarg(call, name)
      if v is None and len(call.args) > i:
        v = call.args[i]
      return v

    self.node_type = get(0, 'node_type')
    self.flatten = get(1, 'flatten_fn')
    self.unflatten = get(2, 'unflatten_fn')
    self.path_elements = get(3, 'path_elements_fn')
    self.with_paths = get(4, 'flatten_with_paths_fn')


def find_registrations(ctx: Ctx) -> List[Registration]:
  out = []
  for q, sites in ctx.cg.call_sites.items():
    for call, callees, exact in sites:
      if REG in callees and exact:
        scope = ctx.p.funcs.get(q)
        if scope is None:
          scope = ctx.p.modules[q[:-len('.<module>')]]
        out.append(Registration(scope, call))
  return out


def resolve_fn(ctx: Ctx, expr, scope):
  """-> ('lambda'|'func', FuncInfo, partial_kwargs) | ('method', name) | None"""
  p = ctx.p
  if isinstance(expr, ast.Lambda):
    mod = scope.module
    for f in mod.all_funcs:
      if f.node is expr:
        return ('func', f, {})
  if isinstance(expr, ast.Call) and unparse(expr.func).endswith('partial'):
    inner = resolve_fn(ctx, expr.args[0], scope) if expr.args else None
    if inner and inner[0] == 'func':
      kws = {k.arg: unparse(k.value) for k in expr.keywords}
      return ('func', inner[1], kws)
    return None
  if isinstance(expr, ast.Name) and isinstance(scope, FuncInfo):
    d = roles.deref(scope, expr)
    if d is not expr and not isinstance(d, ast.Name):
      return resolve_fn(ctx, d, scope)  # a local holding the function value
  if isinstance(expr, (ast.Name, ast.Attribute)):
    q = p.resolve(expr, scope)
    if q in p.funcs:
      return ('func', p.funcs[q], {})
    if isinstance(expr, ast.Attribute):
      return ('method', expr.attr)
  return None


def _delegates_to(f: FuncInfo) -> Optional[str]:
  """lambda x: x.__flatten__() -> '__flatten__'."""
  ret, params = fn_return(f)
  if isinstance(ret, ast.Call) and isinstance(
      ret.func, ast.Attribute) and isinstance(
          ret.func.value, ast.Name) and params and (
              ret.func.value.id == params[0]) and not ret.args:
    return ret.func.attr
  return None


def check_pair(ctx: Ctx, fl: FuncInfo, pe: FuncInfo) -> Tuple[bool, str]:
  fr, fp = fn_return(fl)
  pr, pp = fn_return(pe)
  if fr is None or pr is None:
    return False, 'function body not understood (not a simple return)'
  if not (isinstance(fr, ast.Tuple) and len(fr.elts) == 2):
    return False, f'flatten does not return a (values, metadata) pair: {unparse(fr)}'
  vals = seq(fr.elts[0], fp[0])
  pes = seq(pr, pp[0])

  # normalise parameter names
  def norm(d, pname):
    if isinstance(d, tuple):
      return tuple(norm(x, pname) for x in d)
    if isinstance(d, str) and pname:
      import re
      return re.sub(rf'\b{re.escape(pname)}\b', '$x', d)
    return d

  vals_n = norm(vals, fp[0] if fp else '')
  pes_n = norm(pes, pp[0] if pp else '')
  ok, why = agree(vals_n, pes_n)
  return ok, why


def run(ctx: Ctx, rs: RuleSet, tier: str):
  p = ctx.p
  rule = 'AGREE.flatten-path-elements'
  regs = find_registrations(ctx)
  rs.declare(rule, 'flatten_fn and path_elements_fn of every registration '
             'enumerate the same children in the same order with the right '
             'PathElement kind', 13)
  delegated_pairs = set()
  for r in regs:
    sc = r.scope
    tname = unparse(r.node_type) if r.node_type is not None else '?'
    key = f'{sc.qualname}:register({tname})'
    fl = resolve_fn(ctx, r.flatten, sc) if r.flatten is not None else None
    pe = resolve_fn(ctx, r.path_elements, sc) if r.path_elements is not None else None
    loc = ctx.loc(sc, r.call)
    if not fl or not pe or fl[0] != 'func' or pe[0] != 'func':
      rs.fail(rule, key, 'flatten_fn / path_elements_fn not resolvable to a '
              f'function: {unparse(r.flatten) if r.flatten else None} / '
              f'{unparse(r.path_elements) if r.path_elements else None}', loc)
      continue
    if fl[2] != pe[2]:
      rs.fail(rule, key, f'flatten and path_elements are bound with different '
              f'flags: {fl[2]} vs {pe[2]}', loc)
      continue
    d1, d2 = _delegates_to(fl[1]), _delegates_to(pe[1])
    if d1 or d2:
      ok = d1 == '__flatten__' and d2 == '__path_elements__'
      rs.check(ok, rule, key, f'delegates to x.{d1}() / x.{d2}() of the node '
               'class (pair checked below)', loc)
      # unflatten must be the class's own __unflatten__
      un = r.unflatten
      rs.check(isinstance(un, ast.Attribute) and un.attr == '__unflatten__',
               rule, key + ':unflatten', f'unflatten_fn = {unparse(un)}', loc)
      encl = sc.cls if isinstance(sc, FuncInfo) else None
      if encl is not None:
        delegated_pairs.add(encl.qualname)
      continue
    ok, why = check_pair(ctx, fl[1], pe[1])
    rs.check(ok, rule, key, why, loc)
    # flatten_with_paths
    if r.with_paths is not None and not (isinstance(
        r.with_paths, ast.Constant) and r.with_paths.value is None):
      wp = resolve_fn(ctx, r.with_paths, sc)
      good = False
      d = 'not understood'
      if wp and wp[0] == 'func':
        ret, params = fn_return(wp[1])
        s = seq(ret, params[0]) if ret is not None else None
        # ((x, Index(i)) for i, x in enumerate(xs))
        if s and s[0] == 'MAPTUPLE' and s[2] == ('ENUM', params[0]):
          tgt = s[3].strip('()').replace(' ', '').split(',')
          elts = s[1]
          good = (len(tgt) == 2 and len(elts) == 2 and elts[0] == tgt[1] and
                  elts[1].split('.')[-1] == f'Index({tgt[0]})')
          d = f'pairs ({elts[0]}, {elts[1]}) over enumerate'
      rs.check(good, rule, key + ':with_paths', d, loc)
    # unflatten uses the metadata produced by flatten
    un = resolve_fn(ctx, r.unflatten, sc) if r.unflatten is not None else None
    if un and un[0] == 'func':
      fr, _ = fn_return(fl[1])
      ur, up = fn_return(un[1])
      meta = fr.elts[1] if isinstance(fr, ast.Tuple) and len(fr.elts) == 2 else None
      meta_none = isinstance(meta, ast.Constant) and meta.value is None
      body_names = {n.id for n in ast.walk(un[1].node) if isinstance(n, ast.Name)}
      uses_values = up and up[0] in body_names
      uses_meta = len(up) > 1 and up[1] in body_names
      good = bool(uses_values or not (isinstance(fr, ast.Tuple) and fr.elts and
                  not (isinstance(fr.elts[0], ast.Tuple) and not fr.elts[0].elts)))
      if not meta_none and meta is not None and not uses_meta:
        good = False
      d = (f'unflatten uses values={bool(uses_values)} '
           f'metadata={bool(uses_meta)} (metadata is '
           f'{"None" if meta_none else unparse(meta) if meta is not None else "?"})')
      # dict(zip(keys, values)): keys first
      if True:
        for c in ast.walk(un[1].node):
          if isinstance(c, ast.Call) and isinstance(
              c.func, ast.Name) and c.func.id == 'zip' and len(c.args) == 2:
            a0, a1 = unparse(c.args[0]), unparse(c.args[1])
            if len(up) >= 2 and a1 == up[0] and a0 != up[0]:
              d += f'; zip({a0}, {a1}) pairs metadata keys with values'
            elif len(up) >= 2 and a0 == up[0]:
              good = False
              d += f'; zip({a0}, {a1}) has the values in the key position'
      rs.check(good, rule, key + ':unflatten', d, loc)

  # ---- delegated method pairs
  rule2 = 'AGREE.method-pairs'
  rs.declare(rule2, '__flatten__/__path_elements__ pairs of node classes '
             'agree', 2)
  # CodegenNode
  cn = ctx.cls('fiddle._src.codegen.auto_config.code_ir.CodegenNode')
  ok, why = check_pair(ctx, cn.methods['__flatten__'],
                       cn.methods['__path_elements__'])
  rs.check(ok, rule2, f'{cn.qualname}', why, ctx.loc(cn, cn.node))
  # Buildable: both delegate to module functions with the same flag
  bc = ctx.cls('fiddle._src.config.Buildable')
  bf = bc.methods['__flatten__']
  bp = bc.methods['__path_elements__']
  rf, _ = fn_return(bf)
  rp, _ = fn_return(bp)
  ok = (isinstance(rf, ast.Call) and isinstance(rp, ast.Call) and
        p.resolve(rf.func, bf) == ctx.func(
            'fiddle._src.config._buildable_flatten').qualname and
        p.resolve(rp.func, bp) == ctx.func(
            'fiddle._src.config._buildable_path_elements').qualname
        and [unparse(k.value) for k in rf.keywords] ==
        [unparse(k.value) for k in rp.keywords] and
        [k.arg for k in rf.keywords] == [k.arg for k in rp.keywords])
  rs.check(ok, rule2, f'{bc.qualname}:delegation',
           f'__flatten__ -> {unparse(rf)}; __path_elements__ -> {unparse(rp)}',
           ctx.loc(bc, bf.node))
  ff = ctx.func('fiddle._src.config._buildable_flatten')
  pf = ctx.func('fiddle._src.config._buildable_path_elements')

  def oa_call(f):
    for c in ctx.calls(f):
      if p.resolve(c.func, f) == 'fiddle._src.config.ordered_arguments':
        return c
    return None

  c1, c2 = oa_call(ff), oa_call(pf)
  same = (c1 is not None and c2 is not None and
          [unparse(a) for a in c1.args] == [unparse(a) for a in c2.args] and
          sorted((k.arg, unparse(k.value)) for k in c1.keywords) ==
          sorted((k.arg, unparse(k.value)) for k in c2.keywords))
  rs.check(same, rule2, 'fiddle._src.config:_buildable_flatten/_path_elements',
           'both enumerate ordered_arguments(buildable, '
           'include_defaults=include_defaults) with identical arguments',
           ctx.loc(ff, ff.node))
  # flatten: values = tuple(arguments.values()), names = tuple(arguments.keys())
  fr, fparams = fn_return(ff)
  vals_ok = names_ok = False
  if isinstance(fr, ast.Tuple) and len(fr.elts) == 2:
    v = seq(fr.elts[0], fparams[0])
    vals_ok = v[0] == 'VALUES' and 'ordered_arguments' in v[1]
    md = fr.elts[1]
    if isinstance(md, ast.Call):
      an = kwarg(md, 'argument_names') or (ctx.bound_args(md, ff) or {}).get(
          'argument_names')
      if an is not None:
        s = seq(an, fparams[0])
        names_ok = s[0] == 'KEYS' and 'ordered_arguments' in s[1]
        # tuple(<dict>) enumerates its keys
        if not names_ok and isinstance(an, ast.Call) and isinstance(
            an.func, ast.Name) and an.func.id in ('tuple', 'list') and len(
                an.args) == 1 and isinstance(an.args[0], ast.Call) and unparse(
                    an.args[0].func).split('.')[-1] == 'ordered_arguments':
          names_ok = True
  pr, pparams = fn_return(pf)
  s = seq(pr, pparams[0]) if pr is not None else ('?',)
  pe_ok = (s[0] == 'MAP' and s[1] == 'attr_or_index' and s[2][0] == 'KEYS' and
           'ordered_arguments' in s[2][1] and s[3])
  # Attr for str, Index for int
  kinds_ok = False
  for n in ast.walk(pf.node):
    if isinstance(n, ast.IfExp) and isinstance(n.test, ast.Call) and unparse(
        n.test.func) == 'isinstance':
      ty = unparse(n.test.args[1])
      a, b = unparse(n.body.func).split('.')[-1], unparse(
          n.orelse.func).split('.')[-1]
      kinds_ok = (ty == 'str' and (a, b) == ('Attr', 'Index')) or (
          ty == 'int' and (a, b) == ('Index', 'Attr'))
  rs.check(vals_ok and names_ok and pe_ok and kinds_ok, rule2,
           'fiddle._src.config:_buildable_flatten/_path_elements:order',
           f'values=.values() {vals_ok}, argument_names=.keys() {names_ok}, '
           f'elements over .keys() {pe_ok}, Attr for str / Index for int '
           f'{kinds_ok}', ctx.loc(pf, pf.node))
  # __unflatten__ zips metadata.argument_names with values
  ma = ctx.func('fiddle._src.config.BuildableTraverserMetadata.arguments')
  ok = False
  for c in ctx.calls(ma):
    if isinstance(c.func, ast.Name) and c.func.id == 'zip' and len(
        c.args) == 2:
      ok = (unparse(c.args[0]).endswith('argument_names') and
            unparse(c.args[1]) == ma.params[1])
  rs.check(ok, rule2, f'{ma.qualname}',
           'arguments(values) = dict(zip(self.argument_names, values))',
           ctx.loc(ma, ma.node))

  _follow_rules(ctx, rs)
  _shape_rules(ctx, rs)
  _idmemo_rules(ctx, rs)


def _follow_rules(ctx: Ctx, rs: RuleSet):
  rule = 'FOLLOW.path-elements'
  rs.declare(rule, 'PathElement.follow performs the access its kind denotes; '
             'follow_path folds them from the root', 4)
  want = {'Index': ('subscript', 'index'), 'Key': ('subscript', 'key'),
          'Attr': ('getattr', 'name')}
  for cname, (how, fld) in want.items():
    ci = ctx.cls(f'{DAG}.{cname}')
    f = ci.methods.get('follow')
    if f is None:
      raise AnalysisError(f'{cname}.follow not found')
    ret, params = fn_return(f)
    ok = False
    if how == 'subscript':
      ok = (isinstance(ret, ast.Subscript) and isinstance(ret.value, ast.Name)
            and ret.value.id == params[1] and
            unparse(ret.slice) == f'{params[0]}.{fld}')
    else:
      ok = (isinstance(ret, ast.Call) and isinstance(ret.func, ast.Name) and
            ret.func.id == 'getattr' and len(ret.args) == 2 and
            unparse(ret.args[0]) == params[1] and
            unparse(ret.args[1]) == f'{params[0]}.{fld}')
    rs.check(ok, rule, f'{ci.qualname}.follow',
             f'returns {unparse(ret) if ret is not None else None}',
             ctx.loc(ci, f.node))
    # the dataclass field exists
    rs.check(fld in ci.annotations, rule, f'{ci.qualname}:{fld}',
             f'field `{fld}` declared', ctx.loc(ci, ci.node), nontrivial=False)
  fp = ctx.func(f'{DAG}.follow_path')
  g = ctx.cfg(fp)
  root, path = fp.params[0], fp.params[1]
  # value = root; for elt in path: value = elt.follow(value); return value
  init = [n for n in g.nodes() if isinstance(g.stmt[n], ast.Assign) and
          isinstance(g.stmt[n].value, ast.Name) and g.stmt[n].value.id == root]
  var = g.stmt[init[0]].targets[0].id if init else None
  loop_ok = False
  for n in walk_function(fp.node):
    if isinstance(n, ast.For):
      it = n.iter
      src = it.args[0] if isinstance(it, ast.Call) and isinstance(
          it.func, ast.Name) and it.func.id == 'enumerate' else it
      if unparse(src) != path:
        continue
      for s in walk_stmts(n.body):
        if isinstance(s, ast.Assign) and isinstance(
            s.value, ast.Call) and isinstance(
                s.value.func, ast.Attribute) and (
                    s.value.func.attr == 'follow') and len(
                        s.value.args) == 1 and unparse(
                            s.value.args[0]) == var and any(
                                isinstance(t, ast.Name) and t.id == var
                                for t in s.targets):
          loop_ok = True
  rets = [n for n in walk_function(fp.node) if isinstance(n, ast.Return)]
  ret_ok = bool(rets) and all(unparse(r.value) == var for r in rets)
  rs.check(bool(init) and loop_ok and ret_ok, rule, f'{fp.qualname}',
           f'value starts at root, value = elt.follow(value) for each element '
           f'in order, returns value (init={bool(init)} loop={loop_ok} '
           f'ret={ret_ok})', ctx.loc(fp, fp.node))


def map_children_rule(ctx: Ctx, rs: RuleSet, rule: str):
  """map_children rebuilds every traversable value (no shortcut returns)."""
  mc = ctx.func(f'{DAG}.State.map_children')
  g = ctx.cfg(mc)
  val = mc.params[1]
  # the traverser looked up for type(value); None means "not traversable"
  trav = [unparse(s.targets[0]) for s in walk_function(mc.node)
          if isinstance(s, ast.Assign) and len(s.targets) == 1 and isinstance(
              s.value, ast.Call) and unparse(s.value.func).endswith(
                  'find_node_traverser') and unparse(
                      s.value.args[0]) == f'type({val})']
  none_tests = [n for n in g.nodes() if g.kind[n] == 'if' and trav and unparse(
      g.stmt[n].test) == f'{trav[0]} is None']
  ret_nodes = [n for n in g.nodes() if isinstance(g.stmt[n], ast.Return)]
  n_unfl = 0
  ok = bool(trav) and bool(ret_nodes)
  for n in ret_nodes:
    v = roles.deref(mc, g.stmt[n].value) if g.stmt[
        n].value is not None else None
    if isinstance(v, ast.Call) and isinstance(
        v.func, ast.Attribute) and v.func.attr == 'unflatten' and unparse(
            v.func.value) == trav[0] if trav else False:
      n_unfl += 1
      a0 = roles.deref(mc, v.args[0]) if len(v.args) == 2 else None
      a1 = roles.deref(mc, v.args[1]) if len(v.args) == 2 else None
      ok = ok and (a0 is not None and unparse(a0).endswith('.values')
                   and unparse(a1).endswith('.metadata') and
                   unparse(a0).split('.')[0] == unparse(a1).split('.')[0])
    elif isinstance(v, ast.Call) and isinstance(
        v.func, ast.Attribute) and v.func.attr == 'unflatten' and not v.args \
        and not v.keywords:
      # <sub-traversal result>.unflatten(): the result object rebuilds itself
      # with its own traverser, values and metadata
      sub = roles.deref(mc, v.func.value)
      su = ctx.p.funcs.get(f'{DAG}.SubTraversalResult.unflatten')
      su_ret, _ = fn_return(su) if su is not None else (None, None)
      sp = su.params[0] if su is not None else 'self'
      good = (isinstance(sub, ast.Call) and unparse(sub.func).endswith(
          '_flattened_map_children') and len(sub.args) == 2 and unparse(
              sub.args[0]) == val and trav and unparse(
                  sub.args[1]) == trav[0] and su_ret is not None and unparse(
                      su_ret) == (f'{sp}.node_traverser.unflatten({sp}.values, '
                                  f'{sp}.metadata)'))
      n_unfl += 1
      ok = ok and good
    elif v is not None and unparse(v) == val:
      # the value itself comes back only when it has no traverser
      ok = ok and any(
          g.dominated_by(n, {m}, labels=cfg_lib.NO_EXC) and
          n in g.reach([x for x, lab in g.succ[m] if lab == 'true'],
                       labels=cfg_lib.NO_EXC) and
          n not in g.reach([x for x, lab in g.succ[m] if lab == 'false'],
                           labels=cfg_lib.NO_EXC) for m in none_tests)
    else:
      ok = False
  ok = ok and n_unfl >= 1
  rs.check(ok, rule, f'{mc.qualname}',
           'non-traversable values are returned unchanged; traversable ones '
           'are rebuilt by unflatten(result.values, result.metadata) of the '
           'same traverser', ctx.loc(mc, mc.node))



def _shape_rules(ctx: Ctx, rs: RuleSet):
  p = ctx.p
  rule = 'SHAPE.traversal-api'
  rs.declare(rule, 'iterate / yield_map_child_values / map_children / '
             'collect_paths_by_id / legacy traversals have the shape the '
             'path guarantees rest on', 8)
  it = ctx.func(f'{DAG}.iterate')
  tr = ctx.p.nested_of(it, '_traverse')
  if tr is None:
    raise AnalysisError('iterate._traverse not found')
  g = ctx.cfg(tr)
  node, state = tr.params[0], tr.params[1]
  ys = [n for n in g.nodes() if isinstance(g.stmt[n], ast.Expr) and
        isinstance(g.stmt[n].value, ast.Yield)]
  first = None
  for n in ys:
    v = g.stmt[n].value.value
    if isinstance(v, ast.Tuple) and len(v.elts) == 2 and unparse(
        v.elts[0]) == node and unparse(v.elts[1]) == f'{state}.current_path':
      first = n
  ok = first is not None and g.exit not in g.reach(
      [g.entry], blocked={first}, labels=cfg_lib.NO_EXC)
  rs.check(ok, rule, f'{tr.qualname}:yield-self',
           'every visit yields (node, state.current_path) for the visited '
           'node', ctx.loc(tr, tr.node))
  ok = False
  for c in ctx.calls(tr):
    if isinstance(c.func, ast.Attribute) and c.func.attr == 'yield_map_child_values':
      il = kwarg(c, 'ignore_leaves')
      ok = (c.args and unparse(c.args[0]) == node and il is not None and
            isinstance(il, ast.Constant) and il.value is True)
  yf = any(isinstance(n, ast.YieldFrom) for n in walk_function(tr.node))
  rs.check(ok and yf, rule, f'{tr.qualname}:children',
           'children are visited with yield_map_child_values(node, '
           'ignore_leaves=True) and their results re-yielded',
           ctx.loc(tr, tr.node))
  # memoized flag picks the traversal class
  g = ctx.cfg(it)
  ok = False
  flag = 'memoized'
  for n in g.nodes():
    if g.kind[n] != 'if':
      continue
    lab_m = roles.branch_when(g.stmt[n].test, lambda t: isinstance(
        t, ast.Name) and t.id == flag)
    if lab_m is None:
      continue
    st = g.stmt[n]
    on, off = (st.body, st.orelse) if lab_m == 'true' else (st.orelse, st.body)
    t_calls = [unparse(c.func) for s in on for c in ast.walk(s)
               if isinstance(c, ast.Call)]
    f_calls = [unparse(c.func) for s in off for c in ast.walk(s)
               if isinstance(c, ast.Call)]
    ok = ('MemoizedTraversal' in t_calls and 'BasicTraversal' in f_calls and
          'MemoizedTraversal' not in f_calls)
  rs.check(ok, rule, f'{it.qualname}:memoized-flag',
           'memoized -> MemoizedTraversal, otherwise BasicTraversal',
           ctx.loc(it, it.node))
  # flags forwarded
  ok = False
  for c in ctx.calls(it):
    if unparse(c.func) == 'MemoizedTraversal':
      mi = kwarg_deep(c, 'memoize_internables', it)
      rg = kwarg_deep(c, 'registry', it)
      ok = (mi is not None and unparse(mi) == 'memoize_internables' and
            rg is not None and unparse(rg) == 'registry')
  rs.check(ok, rule, f'{it.qualname}:flags',
           'memoize_internables and registry are forwarded', ctx.loc(it, it.node))
  # yield_map_child_values: every yield is self.call(child, element)
  ym = ctx.func(f'{DAG}.State.yield_map_child_values')
  ys = [n for n in walk_function(ym.node) if isinstance(n, ast.Yield)]
  ok = bool(ys) and all(
      isinstance(y.value, ast.Call) and isinstance(y.value.func, ast.Attribute)
      and y.value.func.attr == 'call' and len(y.value.args) == 2 for y in ys)
  # and the non-optimised branch zips flatten values with path_elements
  z = [c for c in ctx.calls(ym) if isinstance(c.func, ast.Name) and
       c.func.id == 'zip' and len(c.args) == 2]
  # each yield sits in a loop over (child, element) pairs and passes exactly
  # that pair on
  for L_ in walk_function(ym.node):
    if isinstance(L_, ast.For):
      for y in ast.walk(L_):
        if isinstance(y, ast.Yield) and isinstance(y.value, ast.Call) and any(
            y is z_ for b_ in L_.body for z_ in ast.walk(b_)):
          tg = [unparse(t_) for t_ in L_.target.elts] if isinstance(
              L_.target, ast.Tuple) else []
          ok = ok and [unparse(a_) for a_ in y.value.args] == tg
  rs.check(ok and len(ys) >= 1 and len(z) == 1, rule, f'{ym.qualname}',
           f'{len(ys)} yields, each self.call(child, element); generic branch '
           'zips flatten values with path elements', ctx.loc(ym, ym.node))
  map_children_rule(ctx, rs, rule)
  # get_all_paths hands out a list of its own: what all_paths_to_object
  # returns may be the traversal's cached list, which later queries read
  gp = ctx.func(f'{DAG}.State.get_all_paths')
  cached = roles.assigned_from(gp, lambda e: isinstance(e, ast.Call) and
                               isinstance(e.func, ast.Attribute) and
                               e.func.attr == 'all_paths_to_object')

  def _fresh_list(e, depth=0):
    if isinstance(e, (ast.ListComp, ast.List)):
      return True
    if isinstance(e, ast.Call) and isinstance(e.func, ast.Name) and (
        e.func.id in ('list', 'sorted')):
      return True
    if isinstance(e, ast.BinOp) and isinstance(e.op, ast.Add):
      return _fresh_list(e.left, depth) or _fresh_list(e.right, depth)
    if isinstance(e, ast.IfExp):
      return _fresh_list(e.body, depth) and _fresh_list(e.orelse, depth)
    if isinstance(e, ast.Name) and depth < 3 and e.id not in cached:
      ds = roles.defs_of(gp, e.id)
      return bool(ds) and all(_fresh_list(d, depth + 1) for d in ds)
    return False

  grets = [r for r in walk_function(gp.node) if isinstance(r, ast.Return)
           and r.value is not None]
  bad = [r for r in grets if not _fresh_list(r.value)]
  rs.check(bool(grets) and not bad, rule, f'{gp.qualname}:fresh-result',
           'every result is a newly built list' if not bad else
           f'`{unparse(bad[0])[:60]}` hands out a list that is not built for '
           'this call (the cached result of all_paths_to_object): a caller '
           'that edits its answer changes what every later query about the '
           'same object reports', ctx.loc(gp, bad[0] if bad else gp.node))
  # which values count as (traversable) named tuples: every class deriving
  # from tuple with the namedtuple protocol, also one derived from a
  # NamedTuple class (a direct-base test makes such values opaque leaves)
  nt = ctx.func(f'{DAG}.is_namedtuple_subclass')
  tp = nt.params[0]
  sub_ok = any(isinstance(c, ast.Call) and unparse(c.func) == 'issubclass' and
               [unparse(a) for a in c.args] == [tp, 'tuple']
               for c in ast.walk(nt.node))
  narrow = [n for n in ast.walk(nt.node) if isinstance(n, ast.Attribute) and
            n.attr in ('__bases__', '__base__')]
  rs.check(sub_ok and not narrow, rule, f'{nt.qualname}:subclass-test',
           'issubclass(type, tuple) plus the namedtuple protocol' if (
               sub_ok and not narrow) else
           'the tuple test looks at the direct bases only: an instance of a '
           'class derived from a NamedTuple is treated as a leaf, so paths '
           'below it are not enumerated and a rebuild returns the original '
           'object', ctx.loc(nt, nt.node))
  # collect_paths_by_id uses an un-memoized traversal and appends current_path
  cp = ctx.func(f'{DAG}.collect_paths_by_id')
  uses_basic = any(unparse(c.func) == 'BasicTraversal' for c in ctx.calls(cp))
  uses_memo = any('MemoizedTraversal' in unparse(c.func) for c in ctx.calls(cp))
  tv = ctx.p.nested_of(cp, 'traverse')
  ok = False
  if tv is not None:
    for c in ctx.calls(tv):
      if isinstance(c.func, ast.Attribute) and c.func.attr == 'append' and (
          c.args and unparse(roles.deref(tv, c.args[0])).endswith(
              '.current_path')):
        ok = True
  walk_ok = False
  if tv is not None:
    gt = ctx.cfg(tv)
    walks = {n for n in gt.nodes() if any(
        isinstance(e, ast.Call) and isinstance(e.func, ast.Attribute) and
        e.func.attr == 'yield_map_child_values'
        for e in cfg_lib.walk_node(gt, n))}
    # every path through the callback reaches the child walk: a node reached
    # again through another parent is walked again (that is what makes the
    # result *all* paths)
    walk_ok = bool(walks) and gt.exit not in gt.reach(
        [gt.entry], blocked=walks, labels=cfg_lib.NO_EXC)
  rs.check(walk_ok, rule, f'{cp.qualname}:walk-unconditional',
           'the children are walked on every visit (also when a shared node '
           'is reached again)' if walk_ok else
           'a path through the callback returns without walking the '
           'children: paths below a shared node are recorded only under its '
           'first parent', ctx.loc(cp, cp.node))
  rs.check(uses_basic and not uses_memo and ok, rule, f'{cp.qualname}',
           'all-paths collection walks every path (BasicTraversal) and '
           'appends state.current_path per visit', ctx.loc(cp, cp.node))
  ap = ctx.func(f'{DAG}.BasicTraversal.all_paths_to_object')
  ok = any(p.resolve(c.func, ap) == cp.qualname and c.args and
           unparse(c.args[0]) == f'{ap.params[0]}.root_obj' for c in ctx.calls(ap))
  rs.check(ok, rule, f'{ap.qualname}',
           'all paths are computed from the traversal root', ctx.loc(ap, ap.node))
  # legacy traverse_with_path
  lt = ctx.func('fiddle._src.experimental.daglish_legacy.traverse_with_path')
  tv = ctx.p.nested_of(lt, 'traverse')
  if tv is None:
    # the recursive closure written as a module-level function that takes
    # the callback as a leading parameter
    lifted = [h for h in ctx.lifted_helpers(lt).values() if any(
        isinstance(x, ast.Call) and unparse(x.func) == h.name
        for x in walk_function(h.node))]
    tv = lifted[0] if len(lifted) == 1 else None
  ok = False
  if tv is not None:
    for n in walk_function(tv.node):
      if isinstance(n, ast.GeneratorExp) and isinstance(n.elt, ast.Call):
        gen = n.generators[0]
        if isinstance(gen.iter, ast.Call) and isinstance(
            gen.iter.func, ast.Name) and gen.iter.func.id == 'zip':
          za = [unparse(a) for a in gen.iter.args]
          tg = [unparse(e) for e in gen.target.elts] if isinstance(
              gen.target, ast.Tuple) else []
          ea = n.elt.args[-len(tv.params):]  # without re-passed bound ones
          # the zipped sequences are the path elements and the flattened
          # values of the same traverser for the same structure
          pe_src = vals_src = None
          for st in walk_function(tv.node):
            if isinstance(st, ast.Assign) and isinstance(st.value, ast.Call) \
                and isinstance(st.value.func, ast.Attribute):
              t0 = st.targets[0]
              if st.value.func.attr == 'path_elements' and isinstance(
                  t0, ast.Name) and len(za) == 2 and t0.id == za[0]:
                pe_src = (unparse(st.value.func.value),
                          [unparse(a) for a in st.value.args])
              if st.value.func.attr == 'flatten' and isinstance(
                  t0, ast.Tuple) and len(za) == 2 and unparse(
                      t0.elts[0]) == za[1]:
                vals_src = (unparse(st.value.func.value),
                            [unparse(a) for a in st.value.args])
          same_trav = (pe_src is not None and pe_src == vals_src and
                       pe_src[1] == [tv.params[1]])
          ok = (same_trav and len(tg) == 2 and
                len(ea) == 2 and unparse(ea[1]) == tg[1] and
                tg[0] in unparse(ea[0]) and tv.params[0] in unparse(ea[0]))
  rs.check(ok, rule, f'{lt.qualname}',
           'child i is visited with path + (path_element_i,) over '
           'zip(path_elements, values) of the same traverser',
           ctx.loc(lt, lt.node))


IDMEMO_REASONS = {
    ('fiddle._src.daglish.collect_paths_by_id', 'paths_by_id'):
        'ids of nodes of the caller-held `structure`; children yielded by the '
        'registered flatten functions are elements held by their parent '
        '(re-verified: no default-registry flatten allocates memoizable '
        'children), so every recorded object outlives the table',
    ('fiddle._src.experimental.daglish_legacy.collect_paths_by_id',
     'paths_by_id'): 'same as daglish.collect_paths_by_id',
    ('fiddle._src.experimental.daglish_legacy.memoized_traverse',
     'memo'): 'legacy traversal over the caller-held structure with the '
              'default registry; recorded objects are nodes of that structure',
}


def _idmemo_rules(ctx: Ctx, rs: RuleSet):
  rule = 'IDMEMO.path-tables'
  rs.declare(rule, 'identity-keyed tables in the traversal modules pin their '
             'objects or carry a recorded reason whose side condition is '
             're-verified', 4)
  sites = []
  for m in ('fiddle._src.daglish', 'fiddle._src.experimental.daglish_legacy'):
    sites += idmemo.scan_module(ctx, m)
  # side condition: default-registry flatten functions yield held children
  regs = [r for r in find_registrations(ctx)
          if r.scope.module.name == 'fiddle._src.daglish']
  held = True
  for r in regs:
    fl = resolve_fn(ctx, r.flatten, r.scope)
    if not fl or fl[0] != 'func':
      held = False
      continue
    fr, fp = fn_return(fl[1])
    if isinstance(fr, ast.Tuple) and fr.elts:
      v = seq(fr.elts[0], fp[0])
      if v[0] not in ('ELEMS', 'VALUES'):
        held = False
  for s in sites:
    loc = ctx.loc(s.scope, s.node)
    if s.pinned:
      rs.ok(rule, s.key, s.how, loc)
      continue
    # exceptions name the public function; what its local callback is called
    # is not part of any interface
    top = s.scope
    while isinstance(getattr(top, 'parent', None), FuncInfo):
      top = top.parent
    reason = IDMEMO_REASONS.get((top.qualname, s.table))
    if reason is None and isinstance(top, FuncInfo):
      # a closure lifted to module level: it belongs to the public function
      # that hands it to the traversal
      for owner_q, _ in IDMEMO_REASONS:
        owner = ctx.p.funcs.get(owner_q)
        cb = ctx.p.callback_of(owner) if owner is not None else None
        base = getattr(cb, '_base', None) or cb
        same_fn = cb is not None and top.qualname in (
            cb.qualname, getattr(base, 'qualname', None))
        # ... or a class whose instance is the callback: the table is an
        # attribute of that instance, written by its methods
        same_cls = cb is not None and getattr(base, 'cls', None) is not None and (
            getattr(top, 'cls', None) is base.cls)
        if same_fn or same_cls:
          reason = IDMEMO_REASONS.get((owner_q, s.table.rsplit('.', 1)[-1]))
    if reason is not None and held:
      rs.ok(rule, s.key, 'accepted: ' + reason, loc)
      rs.exception(rule, s.key, reason)
    else:
      rs.fail(rule, s.key,
              f'table `{s.table}` is keyed by id({unparse(s.x)}) but nothing '
              f'keeps `{unparse(s.x)}` alive while the table is used'
              + ('' if held else ' (and a default flatten function now '
                 'allocates its children)'), loc)
  # key must be id of the visited value
  for s in sites:
    f = s.scope
    if isinstance(f, FuncInfo) and f.params:
      vis = [x for x in f.params if x in ('value', 'node', 'structure')]
      if vis:
        rs.check(unparse(s.x) in vis, rule, s.key + ':key',
                 f'keyed by id({unparse(s.x)}) of the visited value',
                 ctx.loc(f, s.node), nontrivial=False)
  # cycle detection (shared with C02)
  from fdlstatic.rules import c02
  sub = RuleSet(rs.prop)
  c02.run(ctx, sub, 'quick')
  rs.declare('CYCLE.table', 'cycle entry set before / removed after the '
             'recursive call; a hit raises', 3)
  for o in sub.obs:
    if o.rule == 'CYCLE.table':
      rs.add(o)


MANIFEST = dict(
    text=('Decides, for every traverser registration in the repository and '
          'for the traversal API itself, the structural conditions that make '
          'reported paths sound and complete: flatten/path-element agreement '
          'by symbolic sequence descriptors, PathElement kind vs container '
          'kind, follow() semantics per kind, metadata round trip through '
          'unflatten, visit-before-descend and per-child path extension, '
          'un-memoized all-paths collection, identity-table pinning and cycle '
          'detection. Holds for all structures built from the registered node '
          'types; exactly-once enumeration as an observed behaviour is not '
          'decided.'),
    note=('Trusted: ast; dict key/value iteration order agreement; '
          'namedtuple/dataclass field order; user-registered traversers '
          'outside the repository are out of reach.'),
    technique='static analysis: symbolic sequence descriptors with table agreement, def-use shape rules, identity-table pinning, CFG dominance',
)
