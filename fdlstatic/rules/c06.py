"""C06 - == on Buildables is an equivalence relation congruent with build."""
from __future__ import annotations

import ast

from fdlstatic import cfg as cfg_lib
from fdlstatic.ctx import Ctx, kwarg
from fdlstatic.model import AnalysisError, unparse, walk_function, walk_stmts
from fdlstatic import roles
from fdlstatic.report import RuleSet
from fdlstatic.rules import c03

CFG = 'fiddle._src.config'
DAG = 'fiddle._src.daglish'
TOTALLY_ORDERED = {'int', 'str', 'float', 'bool', 'bytes'}

EXPLANATION = (
    'Static clauses of C06 decided on the current source: (TOT) every '
    'PathElement.__lt__ that can be reached from the path sort of == either '
    'compares a payload whose declared type is totally ordered (int, str) or '
    'handles the mixed / unorderable case explicitly (type test plus a '
    'fallback order), so sorting paths never raises; elements of different '
    'classes are ordered by class; (SYM) _compare_buildable treats both '
    'operands identically: the same type and callable tests, the union of '
    'both key sets, the same value-or-default lookup applied to each side, '
    'and two traversals with identical keyword arguments over the '
    'defaults-aware registry; missing-on-one-side and != both return False '
    'and __eq__ requests the sharing comparison; (NONE) an absent *args '
    '(var_positional_start is None) is treated as "every index belongs to '
    'the fixed prefix" wherever an index is compared with it, so the default '
    'of a positional-only parameter is found with and without *args '
    '(unset == explicitly default); (TAINT) no history is read (see C16). '
    'Not decided: reflexivity / symmetry / transitivity and congruence with '
    'build as relations over all pairs of configurations.')
ASSUMPTIONS = ['== on leaf values is itself an equivalence (NaN-free leaves)']


def _canonical_walk(ctx: Ctx, rs: RuleSet, w):
  """The walk that records one path per shared node visits children in an

  order that does not depend on insertion order, memoizes by identity (not
  internables) and pins what it memoizes.
  """
  from fdlstatic import idmemo
  rule = 'ORD.sharing-order-independent'
  rs.declare(rule, 'the path recorded for a shared node is independent of '
             'dict insertion order / keyword order', 3)
  # the walk may delegate to a general walk in another module, passing the
  # registry along: follow the delegation, remembering what each parameter of
  # the delegate is bound to
  bound = {}
  for _ in range(3):
    if w.nested:
      break
    rets_ = [r for r in walk_function(w.node) if isinstance(r, ast.Return)]
    tgt = None
    if len(rets_) == 1 and isinstance(rets_[0].value, ast.Call):
      c_ = rets_[0].value
      tgt = ctx.p.funcs.get(ctx.p.resolve(c_.func, w) or '')
      if tgt is not None and not any(
          isinstance(a_, ast.Starred) for a_ in c_.args):
        nb = {}
        for prm, a_ in zip(tgt.params, c_.args):
          nb[prm] = bound.get(unparse(a_), unparse(a_))
        for k_ in c_.keywords:
          if k_.arg:
            nb[k_.arg] = bound.get(unparse(k_.value), unparse(k_.value))
        bound = nb
    if tgt is None:
      break
    w = tgt
  visit = next(iter(w.nested.values()), None)
  if visit is None:
    # the recursive walk written as a module-level function that takes its
    # accumulators as parameters
    for c_ in ctx.calls(w):
      h_ = ctx.p.funcs.get(ctx.p.resolve(c_.func, w) or '')
      if h_ is not None and not h_.is_lambda and h_ is not w and any(
          isinstance(x_, ast.Call) and ctx.p.resolve(
              x_.func, h_) == h_.qualname for x_ in walk_function(h_.node)):
        visit = h_
  if visit is None:
    # ... or as a recursive method of a small collector class made here
    for c_ in ctx.calls(w):
      cq_ = ctx.p.resolve(c_.func, w)
      ci_ = ctx.p.classes.get(cq_) if cq_ else None
      if ci_ is None:
        continue
      for m_ in ci_.methods.values():
        if m_.params and any(
            isinstance(x_, ast.Call) and isinstance(
                x_.func, ast.Attribute) and x_.func.attr == m_.name and
            isinstance(x_.func.value, ast.Name) and
            x_.func.value.id == m_.params[0]
            for x_ in walk_function(m_.node)):
          visit = m_
  if visit is None:
    raise AnalysisError(f'{w.qualname}: nested visit function not found')
  # children come from flatten + path_elements of one traverser and are
  # iterated in sorted(path element) order
  loops = [n for n in walk_function(visit.node) if isinstance(n, ast.For)]
  ok = False
  for L in loops:
    for e in roles.expand(visit, L.iter, 2):
      if isinstance(e, ast.Call) and unparse(e.func) == 'sorted' and e.args:
        z = e.args[0]
        keyf = kwarg(e, 'key')
        if isinstance(z, ast.Call) and unparse(z.func) == 'zip' and len(
            z.args) == 2 and isinstance(keyf, ast.Lambda) and isinstance(
                keyf.body, ast.Subscript) and unparse(keyf.body.slice) == '0':
          ok = True
  rs.check(ok, rule, f'{visit.qualname}:sorted-children',
           'children are visited in sorted(path element) order' if ok else
           'children are visited in flatten order (insertion order for dicts '
           'and **kwargs): the path recorded for a shared node depends on it',
           ctx.loc(visit, visit.node))
  sites = idmemo.scan_function(ctx, visit)
  ok = bool(sites) and all(s_.pinned for s_ in sites)
  rs.check(ok, rule, f'{visit.qualname}:memo-pinned',
           'the identity memo keeps the visited objects alive'
           if ok else 'the identity memo does not hold the objects whose ids '
           'it stores', ctx.loc(visit, visit.node))
  # a further occurrence of a shared node is recorded with *which* node it
  # is (the path that node was first reached by): two DAGs in which the same
  # positions are shared, but with different partners, must not compare equal
  gv_ = ctx.cfg(visit)
  table_names = {s_.table.rsplit('.', 1)[-1] for s_ in sites}
  hits = [n for n in gv_.nodes() if gv_.kind[n] == 'if' and any(
      isinstance(c_, ast.Compare) and isinstance(c_.ops[0], (ast.In, ast.NotIn))
      and unparse(c_.comparators[0]).rsplit('.', 1)[-1] in table_names
      for c_ in ast.walk(gv_.stmt[n].test))]
  alias_ok = False
  for n in hits:
    t_ = gv_.stmt[n].test
    neg = any(isinstance(c_, ast.Compare) and isinstance(c_.ops[0], ast.NotIn)
              for c_ in ast.walk(t_)) != (isinstance(
                  t_, ast.UnaryOp) and isinstance(t_.op, ast.Not))
    hit_body = gv_.stmt[n].orelse if neg else gv_.stmt[n].body
    for st_ in walk_stmts(hit_body):
      if isinstance(st_, ast.Call) and isinstance(
          st_.func, ast.Attribute) and st_.func.attr in (
              'append', 'add') and st_.args and any(
                  isinstance(x_, ast.Subscript) and unparse(
                      x_.value).rsplit('.', 1)[-1] in table_names
                  for x_ in ast.walk(st_.args[0])):
        alias_ok = True
  rs.check(alias_ok, rule, f'{visit.qualname}:alias-recorded',
           'a repeated occurrence of a shared node is recorded together with '
           'the node it repeats' if alias_ok else
           'a repeated occurrence of a shared node is skipped without a trace: '
           'only the set of first-reached paths is compared, so Config(S, a, '
           'b, a) == Config(S, a, b, b) for equal-valued a, b although the '
           'built graphs share different objects', ctx.loc(visit, visit.node))
  tests = [unparse(n.test) for n in walk_function(visit.node)
           if isinstance(n, ast.If)]
  ok = any('is_memoizable' in t and 'is_internable' in t and 'not' in t
           for t in tests)
  rs.check(ok, rule, f'{visit.qualname}:internables',
           'only memoizable, non-internable values are memoized (equal '
           'constants may or may not be one object)', ctx.loc(visit, visit.node))
  regs = [c for c in ctx.calls(visit) if 'find_node_traverser' in unparse(
      c.func)]
  def receiver(c):
    r_ = unparse(c.func.value) if isinstance(c.func, ast.Attribute) else ''
    return bound.get(r_, r_)

  rs.check(bool(regs) and all('_defaults_aware_traverser_registry' in receiver(
      c) for c in regs), rule, f'{visit.qualname}:registry',
           'children are enumerated with the defaults-aware registry (unset '
           '== default)', ctx.loc(visit, visit.node), nontrivial=False)


def run(ctx: Ctx, rs: RuleSet, tier: str):
  p = ctx.p
  # ---- TOT
  rule = 'TOT.path-element-order'
  rs.declare(rule, 'path elements can always be sorted', 4)
  pe = f'{DAG}.PathElement'
  for cq in p.subclasses(pe, strict=True):
    ci = p.classes[cq]
    m = ci.methods.get('__lt__')
    if m is None or not cq.startswith(DAG + '.'):
      continue
    other = m.params[1]
    cmps = [c for c in walk_function(m.node) if isinstance(c, ast.Compare) and
            isinstance(c.ops[0], ast.Lt) and isinstance(
                c.left, ast.Attribute) and isinstance(
                    c.comparators[0], ast.Attribute) and
            c.left.attr == c.comparators[0].attr and
            unparse(c.left.value) == m.params[0] and
            unparse(c.comparators[0].value) == other]
    if not cmps:
      continue
    for c in cmps:
      fld = c.left.attr
      ann, owner = p.class_attr_annotation(cq, fld)
      ty = unparse(ann) if ann is not None else 'Any'
      total = ty in TOTALLY_ORDERED
      guarded = False
      if not total:
        # the raw comparison must sit in a try that catches TypeError and be
        # preceded by a same-type test; a fallback order must exist
        for t in walk_function(m.node):
          if isinstance(t, ast.Try) and any(sub is c for sub in ast.walk(
              ast.Module(body=t.body, type_ignores=[]))):
            catches = any(h.type is None or 'TypeError' in unparse(h.type) or
                          unparse(h.type) in ('Exception',)
                          for h in t.handlers)
            guarded = catches
        # the fallback must order the *values* (e.g. by repr), not only
        # their types: otherwise two unorderable keys of one type tie and the
        # sorted path list depends on dict insertion order
        def _expanded(expr, depth=0):
          # the expression's nodes, following locals to what they hold
          for n in ast.walk(expr):
            yield n
            if isinstance(n, ast.Name) and depth < 3:
              for s in walk_function(m.node):
                if isinstance(s, ast.Assign) and any(
                    isinstance(t, ast.Name) and t.id == n.id
                    for t in s.targets):
                  yield from _expanded(s.value, depth + 1)

        def value_dependent(cmp):
          for c in _expanded(cmp):
            if isinstance(c, ast.Call) and isinstance(
                c.func, ast.Name) and c.func.id in ('repr', 'str') and c.args:
              a0 = c.args[0]
              if isinstance(a0, ast.Attribute) and a0.attr == fld:
                return True
            # a helper that turns the key into its sortable stand-in
            if isinstance(c, ast.Call) and len(c.args) == 1 and isinstance(
                c.args[0], ast.Attribute) and c.args[0].attr == fld:
              h_ = p.funcs.get(p.resolve(c.func, m) or '')
              if h_ is not None and not h_.is_lambda and h_.params:
                from fdlstatic.rules import c08 as _c08
                r_, _ = _c08.fn_return(h_)
                if r_ is not None and any(
                    isinstance(x_, ast.Call) and isinstance(
                        x_.func, ast.Name) and x_.func.id in ('repr', 'str')
                    and x_.args and unparse(x_.args[0]) == h_.params[0]
                    for x_ in ast.walk(r_)):
                  return True
          return False
        fallback = any(isinstance(r, ast.Return) and isinstance(
            r.value, ast.Compare) and value_dependent(r.value)
                       for r in walk_function(m.node))
        # same-type test before the raw comparison (ints vs floats etc. are
        # ordered by the fallback consistently)
        same_type = any(isinstance(t, ast.If) and 'type(' in unparse(t.test)
                        and fld in unparse(t.test)
                        for t in walk_function(m.node))
        # `<` is a total order only on some types: the raw comparison must be
        # restricted to them (a TypeError guard alone lets partial orders
        # through: frozenset < frozenset is the subset test)
        TOTAL = {'int', 'float', 'str', 'bytes', 'bool'}
        restricted = False
        for t in walk_function(m.node):
          if isinstance(t, ast.If) and any(sub is c for b in t.body
                                           for sub in ast.walk(b)):
            for call in ast.walk(t.test):
              if isinstance(call, ast.Call) and unparse(
                  call.func) == 'isinstance' and len(call.args) == 2 and (
                      fld in unparse(call.args[0])):
                tyarg = ctx.const(call.args[1], m)
                tys = tyarg.elts if isinstance(
                    tyarg, ast.Tuple) else [tyarg]
                restricted = all(unparse(x) in TOTAL for x in tys)
        guarded = restricted and same_type and fallback
      rs.check(total or guarded, rule, f'{m.qualname}:{fld}',
               f'compares `{fld}: {ty}`' + (
                   ' (totally ordered)' if total else
                   ' only for same-typed int / float / str / bytes keys, with '
                   'a value-dependent fallback order for the rest'
                   if guarded else
                   ' with `<` although the declared type admits values for '
                   'which `<` raises (dict keys 1 and "a") or is only a '
                   'partial order (frozenset keys: neither is smaller): '
                   'sorting the paths in == raises TypeError or gives an '
                   'insertion-order dependent result'),
               ctx.loc(m, c))
    # cross-class comparisons go to the base implementation
    ok = any(isinstance(r, ast.Return) and 'super().__lt__' in unparse(r.value)
             for r in walk_function(m.node))
    rs.check(ok, rule, f'{m.qualname}:other-class',
             'elements of another class are ordered by the base class',
             ctx.loc(m, m.node), nontrivial=False)
  base = ctx.func(f'{pe}.__lt__')
  ok = any(isinstance(r, ast.Return) and 'str(type(' in unparse(r.value)
           for r in walk_function(base.node))
  rs.check(ok, rule, f'{base.qualname}',
           'different element classes are ordered by class name',
           ctx.loc(base, base.node))

  # ---- internable closure: nested constant tuples
  rule_i = 'REC.internable-closure'
  rs.declare(rule_i, 'is_internable treats a tuple as internable only if all '
             'its elements are, recursively', 1)
  ii = ctx.func(f'{DAG}.is_internable')
  self_calls = [c for c in walk_function(ii.node) if isinstance(c, ast.Call)
                and isinstance(c.func, ast.Name) and c.func.id == ii.name]
  loops = [n for n in walk_function(ii.node) if isinstance(n, ast.While)]
  rs.check(bool(self_calls) or bool(loops), rule_i, ii.qualname,
           'the tuple case descends into nested tuples (self-recursive)'
           if self_calls or loops else
           'is_internable no longer descends into nested tuples: a nested '
           'constant tuple such as ((1, 1), (2, 2)) is then treated as an '
           'identity-bearing node, and == depends on whether equal constants '
           'happen to be the same object', ctx.loc(ii, ii.node))
  vp = ii.params[0]
  # a memoizable value whose exact type is not tuple is never internable:
  # every value returned under (memoizable, type(value) is not tuple) is False
  from fdlstatic import dispatch

  def ii_atoms(memoizable, exact_tuple):
    def ev(t):
      if isinstance(t, ast.Constant) and isinstance(t.value, bool):
        return t.value
      if isinstance(t, ast.Call) and unparse(t.func).endswith(
          'is_memoizable') and [unparse(a_) for a_ in t.args] == [vp]:
        return memoizable
      if isinstance(t, ast.Compare) and len(t.ops) == 1 and {
          unparse(t.left), unparse(t.comparators[0])} == {
              f'type({vp})', 'tuple'}:
        if isinstance(t.ops[0], (ast.Is, ast.Eq)):
          return exact_tuple
        if isinstance(t.ops[0], (ast.IsNot, ast.NotEq)):
          return None if exact_tuple is None else not exact_tuple
      return None
    return ev

  gi = ctx.cfg(ii)
  ev_ = ii_atoms(True, False)
  vals_ = dispatch.returned_under(gi, ev_, ii)
  exact = bool(vals_) and all(
      dispatch.eval_atoms(v_, ev_) is False for v_ in vals_) and any(
          dispatch.eval_atoms(v_, ii_atoms(True, True)) is not False
          for v_ in dispatch.returned_under(gi, ii_atoms(True, True), ii))
  loose = [c for c in walk_function(ii.node) if isinstance(c, ast.Call) and
           unparse(c.func) in ('isinstance', 'issubclass') and len(
               c.args) == 2 and 'tuple' in unparse(c.args[1])]
  rs.check(exact and not loose, rule_i, f'{ii.qualname}:exact-tuple',
           'only exact tuples are internable (type(value) is tuple)'
           if exact and not loose else
           'the tuple case is tested with isinstance: NamedTuple instances '
           '(not interned by Python, identity-bearing like any other object) '
           'are then compared without regard to sharing, so == holds between '
           'a configuration that shares one NamedTuple and one that holds two '
           'equal ones although they build different object graphs',
           ctx.loc(ii, loose[0] if loose else ii.node))
  used = any(isinstance(c, ast.Call) and unparse(c.func).endswith(
      'is_internable') for c in walk_function(ctx.func(
          f'{DAG}.MemoizedTraversal.apply').node))
  rs.check(used, rule_i, f'{DAG}.MemoizedTraversal.apply:uses',
           'the un-memoized path of the sharing comparison is selected by '
           'is_internable', '', nontrivial=False)

  # ---- the defaults consulted by == belong to the current callable
  rule_s = 'DEFUSE.signature-info'
  rs.declare(rule_s, 'a Buildable\'s __signature_info__ is always a new '
             'SignatureInfo of the signature of the callable it holds', 3)
  n_sites = 0
  for q, f in sorted(p.funcs.items()):
    if f.is_lambda or not q.startswith('fiddle._src.'):
      continue
    for c in ctx.calls(f):
      if not (isinstance(c.func, ast.Attribute) and
              c.func.attr == '__setattr__'):
        continue
      consts = [i for i, a in enumerate(c.args) if isinstance(
          a, ast.Constant) and a.value == '__signature_info__']
      if not consts:
        continue
      n_sites += 1
      val = c.args[consts[0] + 1] if len(c.args) > consts[0] + 1 else None
      ok = False
      why = 'stored value not understood'
      exprs = [val] if not isinstance(val, ast.Name) else roles.defs_of(
          f, val.id)
      if val is not None and exprs:
        ok = True
        for e in exprs:
          fresh = (isinstance(e, ast.Call) and unparse(e.func).endswith(
              'SignatureInfo') and kwarg(e, 'signature') is not None)
          sig_ok = False
          if fresh:
            sig = kwarg(e, 'signature')
            sdefs = [sig] if not isinstance(sig, ast.Name) else roles.defs_of(
                f, sig.id)
            sig_ok = bool(sdefs) and all(
                isinstance(d, ast.Call) and unparse(d.func).endswith(
                    'get_signature') for d in sdefs)
          if not (fresh and sig_ok):
            ok = False
            why = (f'`{unparse(e)[:60]}` is stored as the signature '
                   'information: it is not a SignatureInfo built from '
                   'get_signature(<the callable>) - an object carried over '
                   'from another callable keeps that callable\'s default '
                   'values, and == (unset vs. explicitly set to the default) '
                   'and default materialisation read them')
      rs.check(ok, rule_s, f'{q}:__signature_info__',
               'SignatureInfo(signature=get_signature(<callable>))' if ok
               else why, ctx.loc(f, c))
  if n_sites < 3:
    raise AnalysisError(f'only {n_sites} stores of __signature_info__ found')

  # ---- SYM
  rule = 'SYM.compare-buildable'
  rs.declare(rule, 'both operands are treated identically', 7)
  cb = ctx.func(f'{CFG}._compare_buildable')
  x, y = cb.params[0], cb.params[1]
  g = ctx.cfg(cb)
  src_tests = [unparse(g.stmt[n].test) for n in g.nodes() if g.kind[n] == 'if']
  # tests made by a private helper that receives both operands count too,
  # read with the operands' names (the helper's False answer must make the
  # comparison False: it is called as `if not helper(x, y): return False`)
  import re as _re0
  for n in g.nodes():
    if g.kind[n] != 'if':
      continue
    t_ = g.stmt[n].test
    neg = isinstance(t_, ast.UnaryOp) and isinstance(t_.op, ast.Not)
    c_ = t_.operand if neg else t_
    if isinstance(c_, ast.BoolOp):
      c_ = next((v_.operand for v_ in c_.values if isinstance(
          v_, ast.UnaryOp) and isinstance(v_.op, ast.Not) and isinstance(
              v_.operand, ast.Call)), None)
      neg = c_ is not None
    if not (neg and isinstance(c_, ast.Call) and len(c_.args) == 2 and
            [unparse(a_) for a_ in c_.args] == [x, y]):
      continue
    h_ = p.funcs.get(p.resolve(c_.func, cb) or '')
    falls = [x_ for x_, lab in g.succ[n] if lab == 'true']
    if h_ is None or h_.is_lambda or h_.module is not cb.module or not any(
        isinstance(g.stmt[m_], ast.Return) and unparse(
            g.stmt[m_].value) == 'False' for m_ in falls):
      continue
    gh = ctx.cfg(h_)
    for m_ in gh.nodes():
      if gh.kind[m_] == 'if' and any(
          isinstance(gh.stmt[k_], ast.Return) and unparse(
              gh.stmt[k_].value) == 'False'
          for k_, lab in gh.succ[m_] if lab == 'true'):
        txt = unparse(gh.stmt[m_].test)
        txt = _re0.sub(rf'\b{h_.params[0]}\b', '\0', txt)
        txt = _re0.sub(rf'\b{h_.params[1]}\b', y, txt).replace('\0', x)
        src_tests.append(txt)
  rs.check(f'type({x}) is not type({y})' in src_tests, rule,
           f'{cb.qualname}:type', 'different Buildable types are unequal',
           ctx.loc(cb, cb.node))
  rs.check(f'{x}.__fn_or_cls__ != {y}.__fn_or_cls__' in src_tests, rule,
           f'{cb.qualname}:callable', 'different callables are unequal',
           ctx.loc(cb, cb.node))
  # key union
  ok = False
  loop = None
  for n in walk_function(cb.node):
    if isinstance(n, ast.For) and isinstance(n.iter, ast.BinOp) and isinstance(
        n.iter.op, ast.BitOr):
      sides = sorted([unparse(n.iter.left), unparse(n.iter.right)])
      ok = sides == sorted([f'set({x}.__arguments__)',
                            f'set({y}.__arguments__)'])
      loop = n
  rs.check(ok, rule, f'{cb.qualname}:key-union',
           'iterates the union of both argument key sets',
           ctx.loc(cb, cb.node))
  # same lookup on both sides: the two values compared with != in the loop
  # are obtained the same way from x and from y - by the same lookup function
  # (nested or module-level) or by the same in-line lookup
  ok = False
  ok_defaults = False
  lookup_fn = None
  operands = []
  if loop is not None:
    k = unparse(loop.target)
    for n in g.nodes():
      if g.kind[n] != 'if':
        continue
      for c in ast.walk(g.stmt[n].test):
        if isinstance(c, ast.Compare) and len(c.ops) == 1 and isinstance(
            c.ops[0], ast.NotEq) and isinstance(c.left, ast.Name) and (
                isinstance(c.comparators[0], ast.Name)) and any(
                    z is c for b_ in loop.body for z in ast.walk(b_)):
          operands = [(n, c.left.id), (n, c.comparators[0].id)]

    import copy as _copy

    def through_copies(v, m):
      # names that merely hold another name at that point read as that name
      class T(ast.NodeTransformer):

        def visit_Name(self, nd_):
          if isinstance(nd_.ctx, ast.Load):
            e_, _ = roles.value_at(g, m, nd_, 3)
            if isinstance(e_, ast.Name) and e_ is not nd_:
              return ast.copy_location(ast.Name(id=e_.id, ctx=ast.Load()), nd_)
          return nd_

      return T().visit(_copy.deepcopy(v))

    def leaves(n, name, depth=0):
      out = []
      for m, kind, v in roles.reaching(g, n, name):
        if kind == 'value' and isinstance(v, ast.Name) and depth < 3:
          out += leaves(m, v.id, depth + 1)
        elif kind == 'value':
          out.append(through_copies(v, m))
        else:
          out.append(None)
      return out

    if len(operands) == 2:
      lx, ly = leaves(*operands[0]), leaves(*operands[1])
      if None not in lx + ly and lx and ly:
        def shape(es, operand):
          import re as _re
          return sorted(_re.sub(rf'\b{operand}\b', '@', unparse(e))
                        for e in es)
        tx, ty = unparse(ast.Tuple(elts=lx, ctx=ast.Load())), unparse(
            ast.Tuple(elts=ly, ctx=ast.Load()))
        # which operand each side reads
        import re as _re2

        def has(nm, t):
          return _re2.search(rf'\b{nm}\b', t) is not None

        if has(x, tx) and not has(y, tx) and has(y, ty) and not has(x, ty):
          ok = shape(lx, x) == shape(ly, y) and has(k, tx)
        elif has(y, tx) and not has(x, tx) and has(x, ty) and not has(y, ty):
          ok = shape(lx, y) == shape(ly, x) and has(k, tx)
        if len(lx) == 1 and isinstance(lx[0], ast.Call):
          fe = lx[0].func
          if isinstance(fe, ast.Name) and fe.id in cb.nested:
            lookup_fn = cb.nested[fe.id]
          else:
            lookup_fn = p.funcs.get(p.resolve(fe, cb) or '')
        src_l = unparse(lookup_fn.node) if lookup_fn is not None else tx
        ok_defaults = ('.__arguments__.get(' in src_l and
                       '.get_default(' in src_l)
  rs.check(ok, rule, f'{cb.qualname}:same-lookup',
           'the same value-or-default lookup is applied to both operands',
           ctx.loc(cb, cb.node))
  rs.check(ok_defaults, rule, f'{cb.qualname}:defaults',
           'an unset argument is compared through the parameter default',
           ctx.loc(cb, cb.node))
  # one-sided missing -> False; v1 != v2 -> False
  opn = [nm for _, nm in operands] or ['v1', 'v2']
  one_sided = {f'{a_} is missing or {b_} is missing'
               for a_, b_ in (opn, opn[::-1])} if len(opn) == 2 else set()
  import re as _re
  # whatever the "no value" sentinel is called
  for t in src_tests:
    m_ = _re.fullmatch(r'(\w+) is (\w+) or (\w+) is (\w+)', t)
    if m_ and m_.group(2) == m_.group(4) and {m_.group(1), m_.group(3)} == set(
        opn) and len(opn) == 2:
      one_sided.add(t)
  rs.check(any(t in one_sided for t in src_tests) and any(
      ' != ' in t and all(nm in t for nm in opn)
      for t in src_tests), rule, f'{cb.qualname}:value-compare',
           'a value missing on one side or unequal values make the result '
           'False', ctx.loc(cb, cb.node), nontrivial=False)
  # reflexivity for leaves that are not equal to themselves (NaN): the same
  # object on both sides is never reported as different
  looked_up = {nm for _, nm in operands}
  ne_tests = [t for n in walk_function(cb.node) if isinstance(n, ast.If)
              for t in [n.test] if any(
                  isinstance(c, ast.Compare) and isinstance(
                      c.ops[0], ast.NotEq) and {unparse(c.left), unparse(
                          c.comparators[0])} <= looked_up
                  for c in ast.walk(t))]
  ok = bool(ne_tests) and all(
      isinstance(t, ast.BoolOp) and isinstance(t.op, ast.And) and any(
          isinstance(v, ast.Compare) and isinstance(v.ops[0], ast.IsNot)
          for v in t.values[:1]) for t in ne_tests)
  if not ok and ne_tests and len(looked_up) == 2:
    # the same guard written as control flow: `if a is b: continue` before
    # `if a != b: return False` - the comparison is not reached for one object
    from fdlstatic import dispatch as _dp
    g_cb = ctx.cfg(cb)

    def _same_object(t):
      if isinstance(t, ast.Compare) and len(t.ops) == 1 and {
          unparse(t.left), unparse(t.comparators[0])} == looked_up:
        if isinstance(t.ops[0], ast.Is):
          return True
        if isinstance(t.ops[0], ast.IsNot):
          return False
      return None

    reach_same = _dp.reach_atoms(g_cb, _same_object)
    ne_nodes = [n for n in g_cb.nodes() if g_cb.kind[n] == 'if' and any(
        g_cb.stmt[n].test is t for t in ne_tests)]
    has_is = any(_same_object(c) is not None
                 for n in g_cb.nodes() if g_cb.kind[n] == 'if'
                 for c in ast.walk(g_cb.stmt[n].test))
    ok = has_is and bool(ne_nodes) and not any(n in reach_same
                                               for n in ne_nodes)
  rs.check(ok, rule, f'{cb.qualname}:identity-first',
           '`v1 is not v2 and v1 != v2`: an object is equal to itself '
           'whatever its __eq__ says' if ok else
           'leaf values are compared with != alone: a configuration holding '
           'float(\'nan\') is not equal to itself (== is not reflexive)',
           ctx.loc(cb, cb.node))
  # two iterate calls with identical keywords
  its = [c for c in ctx.calls(cb) if p.resolve(c.func, cb) == f'{DAG}.iterate']
  walker_q = f'{CFG}._first_paths_in_canonical_order'
  ws = [c for c in ctx.calls(cb) if p.resolve(c.func, cb) == walker_q]
  # the sharing comparison may live in a private helper called with both
  # operands: it is then judged there, with the helper's parameter names
  dag_fn, dx, dy = cb, x, y
  if not ws and not its:
    for c in ctx.calls(cb):
      h = p.funcs.get(p.resolve(c.func, cb) or '')
      if h is None or h.is_lambda or h.cls is not None or (
          h.module is not cb.module) or len(c.args) != 2 or c.keywords:
        continue
      if sorted(unparse(a_) for a_ in c.args) != sorted([x, y]):
        continue
      hw = [c2 for c2 in ctx.calls(h) if p.resolve(c2.func, h) == walker_q]
      if hw:
        dag_fn, ws = h, hw
        dx = h.params[[unparse(a_) for a_ in c.args].index(x)]
        dy = h.params[[unparse(a_) for a_ in c.args].index(y)]
  if ws:
    ok = len(ws) == 2 and sorted(unparse(c.args[0]) for c in ws) == sorted(
        [dx, dy]) and all(len(c.args) == 1 and not c.keywords for c in ws)
    rs.check(ok, rule, f'{cb.qualname}:traversals',
             'both operands go through the same canonical-order walk',
             ctx.loc(cb, cb.node))
    _canonical_walk(ctx, rs, ctx.func(walker_q))
  else:
    ok = len(its) == 2
    if ok:
      k0 = sorted((k.arg, unparse(k.value)) for k in its[0].keywords)
      k1 = sorted((k.arg, unparse(k.value)) for k in its[1].keywords)
      roots = sorted([unparse(its[0].args[0]), unparse(its[1].args[0])])
      ok = k0 == k1 and roots == sorted([x, y]) and (
          'registry', '_defaults_aware_traverser_registry') in k0 and (
              'memoized', 'True') in k0
    rs.check(ok, rule, f'{cb.qualname}:traversals',
             'both sharing traversals use identical settings (memoized, '
             'defaults-aware registry, internables not memoized)',
             ctx.loc(cb, cb.node))
    # one path per shared node, chosen by visiting order = flatten order =
    # dict insertion order: not an invariant of the configuration
    rs.fail('ORD.sharing-order-independent', f'{cb.qualname}:first-path',
            'the sharing structure is compared through the path under which '
            'a memoized traversal first reaches each shared node; children '
            'are visited in flatten order, which for dict values and '
            '**kwargs is insertion order: Config(f, a={\'p\': s, \'q\': s}) != '
            'Config(f, a={\'q\': s2, \'p\': s2}) although both have the same '
            'values and the same sharing', ctx.loc(cb, cb.node))
  eq = ctx.func(f'{CFG}.Buildable.__eq__')
  rets = [r for r in walk_function(eq.node) if isinstance(r, ast.Return)]
  ok = len(rets) == 1 and unparse(rets[0].value) == (
      f'_compare_buildable({eq.params[0]}, {eq.params[1]}, check_dag=True)')
  rs.check(ok, rule, eq.qualname,
           '__eq__ compares values and sharing structure',
           ctx.loc(eq, eq.node))
  # path lists compared pairwise after sorting both the same way
  sorts = [unparse(c) for c in ctx.calls(dag_fn)
           if unparse(c.func) == 'sorted']
  rs.check(len(sorts) == 2 and sorts[0].replace(dx, '_').replace(
      'x_', '_') == sorts[1].replace(dy, '_').replace('y_', '_'), rule,
           f'{cb.qualname}:path-sort',
           f'paths of both sides are sorted the same way: {sorts}',
           ctx.loc(cb, cb.node), nontrivial=False)

  # ---- NONE: absent *args means every index is in the fixed prefix
  rule = 'NONE.as-unbounded'
  rs.declare(rule, 'an index compared with the optional *args position '
             'treats None as "no bound"', 2)
  props = c03.optional_props(ctx)
  n_sites = 0
  for q, f in sorted(p.funcs.items()):
    if f.is_lambda:
      continue
    aliases = {n.targets[0].id for n in walk_function(f.node)
               if isinstance(n, ast.Assign) and len(n.targets) == 1 and
               isinstance(n.targets[0], ast.Name) and
               isinstance(n.value, ast.Attribute) and n.value.attr in props}
    for b in walk_function(f.node):
      if not (isinstance(b, ast.BoolOp) and len(b.values) >= 2):
        continue
      for i, v in enumerate(b.values[:-1]):
        nxt = b.values[i + 1]
        # S is (not) None  <op>  idx < S
        if not (isinstance(v, ast.Compare) and isinstance(
            v.comparators[0], ast.Constant) and
                v.comparators[0].value is None and (
                    (isinstance(v.left, ast.Attribute) and
                     v.left.attr in props) or
                    (isinstance(v.left, ast.Name) and v.left.id in aliases))):
          continue
        s_txt = unparse(v.left)
        if not (isinstance(nxt, ast.Compare) and isinstance(
            nxt.ops[0], (ast.Lt, ast.LtE)) and unparse(
                nxt.comparators[0]) == s_txt):
          continue
        n_sites += 1
        as_unbounded = isinstance(b.op, ast.Or) and isinstance(
            v.ops[0], ast.Is)
        rs.check(as_unbounded, rule, f'{q}:`{unparse(b)[:70]}`',
                 'None short-circuits to the "below *args" branch'
                 if as_unbounded else
                 f'`{unparse(b)}` takes the "not a fixed-prefix index" '
                 'branch when the callable has no *args, although then every '
                 'index addresses the fixed prefix (siblings use `S is None '
                 'or idx < S`): e.g. defaults of positional-only parameters '
                 'are not found', ctx.loc(f, b))
  # the explicit if-form: `if S is None or idx < S` counted above; also the
  # statement form used by _set_item_by_index (S replaced when None)
  gd = ctx.func('fiddle._src.signatures.SignatureInfo.get_default')
  g = ctx.cfg(gd)
  arg_names = {gd.params[1]}
  for _ in range(3):
    arg_names |= roles.assigned_from(gd, lambda e: isinstance(
        e, ast.Name) and e.id in arg_names)
  lookups = [n for n in g.nodes() if isinstance(
      g.stmt[n], (ast.Assign, ast.Return)) and g.kind[n] == 'stmt' and
             isinstance(g.stmt[n].value, ast.Subscript) and
             unparse(g.stmt[n].value.slice) in arg_names]
  rs.check(bool(lookups), rule, f'{gd.qualname}:index-lookup',
           'an int argument is resolved to the parameter at that index',
           ctx.loc(gd, gd.node))


MANIFEST = dict(
    text=('Decides structural necessary conditions of C06: sortability of '
          'path elements (payload type vs. comparison, with guarded '
          'fallback), operand symmetry of _compare_buildable (same tests, key '
          'union, same lookup, identical traversal settings), and the '
          'None-as-unbounded convention for index comparisons that makes '
          'unset == explicit-default hold for positional-only parameters. '
          'The relation-level properties (reflexive, symmetric, transitive, '
          'congruent with build) quantify over runtime values and are not '
          'decided.'),
    note='Trusted: ast, CFG; equality of leaf values is an equivalence.',
    technique='static analysis: declared-type vs. comparison rule (total order), operand-symmetry shape rules, contradiction rule on None handling',
)
