"""C01 - build(Config(f, ...)) calls f with exactly the configured arguments."""
from __future__ import annotations

import ast
from typing import List, Set

from fdlstatic import cfg as cfg_lib
from fdlstatic import roles
from fdlstatic.ctx import Ctx, assigned_names, kwarg
from fdlstatic.model import AnalysisError, FuncInfo, unparse, walk_function, walk_stmts
from fdlstatic.report import RuleSet
from fdlstatic.rules import sigrules
from fdlstatic.rules.sigrules import B, SI, kind_atom, kinds_mentioned, kinds_on_branch

BUILD = 'fiddle._src.building.build'
T2AK = f'{SI}.transform_to_args_kwargs'

EXPLANATION = (
    'Static clauses of C01 decided on the current source: (GAP) in the '
    'function that turns canonical storage into (*args, **kwargs) every '
    'per-parameter path for a positional kind either emits a value, raises, '
    'or records the parameter as skipped, and every emission consults the '
    'skipped record first - so a later positional value can never slide into '
    'an earlier parameter\'s position; (KD) signature binding stores '
    'positional-only and variadic values under int keys taken from the '
    'enumeration index and everything else under names, and the call-form '
    'translation reads positional-only values by index and '
    'positional-or-keyword values by name, deleting each consumed key so the '
    'residual dict is exactly the keyword arguments; (PK) every translation '
    'function distinguishes the parameter kinds the storage format requires; '
    '(DEFUSE) call_buildable passes the translated (args, kwargs) unmodified '
    'to __build__, Config.__build__ forwards them unmodified to the callable, '
    'and the Buildable constructor stores exactly the bound arguments; (DOM) '
    'children are built (flattened_map_children) before the call and the '
    'arguments handed to the call are the built children zipped with the '
    'argument names of the same flatten. Not decided: equality of the result '
    'with a direct call for every signature and value (index arithmetic, '
    'default values).')
ASSUMPTIONS = [
    'inspect.Signature.bind_partial is correct',
    'the loop body of the translation function is acyclic (checked)',
]

KIND_TABLE = {
    f'{SI}.__post_init__': {'VAR_POSITIONAL', 'VAR_KEYWORD'},
    f'{SI}.signature_binding': {'POSITIONAL_ONLY', 'VAR_POSITIONAL',
                                'VAR_KEYWORD'},
    T2AK: {'POSITIONAL_ONLY', 'POSITIONAL_OR_KEYWORD'},
    f'{SI}.validate_param_name': {'POSITIONAL_ONLY', 'VAR_POSITIONAL',
                                  'VAR_KEYWORD'},
    f'{SI}.index_to_key': {'POSITIONAL_OR_KEYWORD'},
    f'{SI}.valid_param_names': {'POSITIONAL_OR_KEYWORD', 'KEYWORD_ONLY'},
    f'{SI}.var_keyword_name': {'VAR_KEYWORD'},
    'fiddle._src.config.ordered_arguments': {'VAR_POSITIONAL', 'VAR_KEYWORD',
                                             'POSITIONAL_ONLY'},
    f'{B}.__getattr__': {'POSITIONAL_ONLY', 'VAR_POSITIONAL'},
}


def _appends_to(call, listname: str) -> bool:
  return (isinstance(call, ast.Call) and isinstance(call.func, ast.Attribute)
          and call.func.attr in ('append', 'extend', 'insert') and
          isinstance(call.func.value, ast.Name) and
          call.func.value.id == listname)


def gap_rule(ctx: Ctx, rs: RuleSet):
  rule = 'GAP.prefix-closed'
  rs.declare(rule, 'no silent skip of a positional parameter while later '
             'positional values can still be emitted; emissions consult the '
             'skip record', 4)
  f = ctx.func(T2AK)
  g = ctx.cfg(f)
  # the returned positional list
  rets = [n for n in walk_function(f.node) if isinstance(n, ast.Return)]
  lists = set()
  for r in rets:
    if isinstance(r.value, ast.Tuple) and r.value.elts and isinstance(
        r.value.elts[0], ast.Name):
      lists.add(r.value.elts[0].id)
  if len(lists) != 1:
    raise AnalysisError(f'{T2AK}: cannot identify the returned positional list')
  L = next(iter(lists))
  # helpers (nested defs) that append to L
  helpers = {}
  for name, h in list(f.nested.items()) + list(ctx.lifted_helpers(f).items()):
    if any(_appends_to(n, L) for n in walk_function(h.node)):
      helpers[name] = h

  def emits(node_id) -> bool:
    for e in cfg_lib.walk_node(g, node_id):
      if _appends_to(e, L):
        return True
      if isinstance(e, ast.Call) and isinstance(
          e.func, ast.Name) and e.func.id in helpers:
        return True
    return False

  def effect(node_id) -> List[str]:
    """Names written (other than L / deletes on the input dict) at node."""
    out = []
    st = g.stmt[node_id]
    if g.kind[node_id] != 'stmt' or st is None:
      return out
    for e in cfg_lib.walk_node(g, node_id):
      if isinstance(e, ast.Call) and isinstance(
          e.func, ast.Attribute) and e.func.attr in (
              'append', 'add', 'extend', 'update') and isinstance(
                  e.func.value, ast.Name) and e.func.value.id != L:
        out.append(e.func.value.id)
    out += [n for n in assigned_names(st)]
    return out

  loops = [n for n in g.nodes() if g.kind[n] == 'for']
  param_loops = []
  for n in loops:
    body_nodes = g.reach([m for m, lab in g.succ[n] if lab == 'iter'],
                         blocked={n}, labels=cfg_lib.NO_EXC)
    if any(emits(x) for x in body_nodes):
      param_loops.append((n, body_nodes))
  # the loop over the signature's parameters: the outermost emitting loop
  # (loops inside it - e.g. an inlined flush of the skipped parameters - are
  # summarised: such a loop emits iff its body does)
  all_bodies = {n: b for n, b in param_loops}
  for wn in [n for n in g.nodes() if g.kind[n] == 'while']:
    all_bodies[wn] = g.reach([m for m, lab in g.succ[wn] if lab == 'true'],
                             blocked={wn}, labels=cfg_lib.NO_EXC)
  param_loops = [(n, b) for n, b in param_loops
                 if not any(n in ob for on, ob in all_bodies.items() if on != n)]
  param_loops = [(n, b) for n, b in param_loops if 'parameters' in unparse(
      roles.deref_deep(f, g.stmt[n].iter))] or param_loops
  if len(param_loops) != 1:
    raise AnalysisError(f'{T2AK}: expected one per-parameter loop that emits '
                        f'positional values, found {len(param_loops)}')
  head, body_nodes = param_loops[0]
  inner_loops = {x: g.reach([m for m, lab in g.succ[x] if lab in (
      'iter', 'true')], blocked={x}, labels=cfg_lib.NO_EXC)
                 for x in body_nodes if x != head and g.kind[x] in (
                     'for', 'while')}
  inner_nodes = set().union(*inner_loops.values()) if inner_loops else set()
  _emits0 = emits

  def emits(node_id):  # pylint: disable=function-redefined
    if node_id in inner_loops:
      return any(_emits0(y) for y in inner_loops[node_id])
    return _emits0(node_id)
  # enumerate iteration paths head -iter-> ... -> head, per parameter kind:
  # a test that the kind decides has one feasible branch; for the others the
  # part of the test that the kind leaves open (its residual) is recorded
  loop_vars = {x.id for x in ast.walk(g.stmt[head].target)
               if isinstance(x, ast.Name)}

  def iteration_paths(kind):
    out = []

    def dfs(n, path, decisions):
      if len(out) > 5000:
        raise AnalysisError('too many paths in the per-parameter loop')
      for m, lab in g.succ[n]:
        if lab == 'exc':
          continue
        if n == head and lab != 'iter':
          continue
        if n in inner_loops and lab in ('iter', 'true'):
          continue  # summarised: only the way out is followed
        ds = decisions
        if g.kind[n] == 'if' and lab in ('true', 'false'):
          r = sigrules.residual(g.stmt[n].test, kind)
          if isinstance(r, bool):
            if r != (lab == 'true'):
              continue  # infeasible for this kind
          else:
            ds = decisions + [(n, lab, r)]
        if m == head:
          out.append((path, 'next', ds))
        elif m in (g.exit, g.raise_exit) or m not in body_nodes:
          out.append((path + [m], 'leave', ds))
        else:
          dfs(m, path + [m], ds)

    dfs(head, [], [])
    return out

  def mode_switched(decisions) -> bool:
    """The first test the kind leaves open does not depend on the current
    parameter (a loop-wide mode switch such as 'pass by keyword') and the path
    takes its false branch.
    """
    if not decisions:
      return False
    _, lab, r = decisions[0]
    names = {y.id for y in ast.walk(r) if isinstance(y, ast.Name)}
    return lab == 'false' and not (names & loop_vars)

  skip_vars: Set[str] = set()
  mode_paths = []
  n_checked = 0
  ctx.t2ak_paths = {}
  for kind in ('POSITIONAL_ONLY', 'POSITIONAL_OR_KEYWORD'):
    kpaths = iteration_paths(kind)
    ctx.t2ak_paths[kind] = kpaths
    silent, recorded, emitting = [], [], []
    for pth, how, decisions in kpaths:
      if how == 'leave':
        continue
      if any(emits(x) for x in pth):
        emitting.append(pth)
        continue
      effs = [e for x in pth for e in effect(x)]
      if effs:
        recorded.append((pth, effs))
        skip_vars.update(effs)
      elif mode_switched(decisions):
        mode_paths.append((kind, decisions[0][2]))
      else:
        silent.append(pth)
    n_checked += len(kpaths)
    key = f'{T2AK}:{kind}'
    if not emitting:
      rs.fail(rule, key, f'no path of the per-parameter loop emits a {kind} '
              'value', ctx.loc(f, g.stmt[head]))
      continue
    if silent:
      w = [g.describe(x) for x in silent[0]]
      rs.fail(rule, key,
              f'a {kind} parameter can be passed over without emitting a '
              'value, raising, or recording the skip, while later iterations '
              'still emit positional values: a later value would be bound to '
              'this parameter\'s position', ctx.loc(f, g.stmt[head]),
              witness=w)
    else:
      rs.ok(rule, key,
            f'{len(kpaths)} iteration path(s): {len(emitting)} emit, '
            f'{len(recorded)} record the skip, 0 silent',
            ctx.loc(f, g.stmt[head]))
  # keyword mode: positional-or-keyword parameters stay in the residual dict
  # only when no *args value is configured
  for kind, mode_test in mode_paths:
    tests = [mode_test]
    ok = any(
        isinstance(c, ast.Compare) and isinstance(c.ops[0], ast.In) and
        isinstance(c.left, ast.Attribute) and
        c.left.attr == 'var_positional_start'
        for t in tests
        for c in (t.values if isinstance(t, ast.BoolOp) and
                  isinstance(t.op, ast.Or) else [t]))
    key = f'{T2AK}:{kind}:keyword-mode'
    if not any(o.construct == key for o in rs.obs):
      rs.check(ok and kind == 'POSITIONAL_OR_KEYWORD', rule, key,
               'parameters are left to be passed by keyword only on the false '
               'branch of a parameter-independent test that has '
               '`var_positional_start in arguments` as a disjunct (so they go '
               'positional whenever *args values exist)' if ok else
               f'{kind} parameters can be left out of the positional list '
               'under a condition that does not account for configured *args '
               f'values: {[unparse(t) for t in tests]}',
               ctx.loc(f, g.stmt[head]))
  # every emission consults the skip record
  if skip_vars:
    emit_sites = []
    for fn in [f] + list(helpers.values()):
      gg = ctx.cfg(fn)
      for n in gg.nodes():
        for e in cfg_lib.walk_node(gg, n):
          if _appends_to(e, L):
            emit_sites.append((fn, gg, n, e))
    for fn, gg, n, e in emit_sites:
      # value emitted from the skip record itself needs no check
      consults = {x for x in gg.nodes() if any(
          isinstance(y, ast.Name) and y.id in skip_vars and
          isinstance(y.ctx, ast.Load) for y in cfg_lib.walk_node(gg, x))}
      ok = gg.dominated_by(n, consults, labels=cfg_lib.NO_EXC)
      rs.check(ok, rule, f'{fn.qualname}:emit `{unparse(e)}`',
               f'the emission is dominated by a read of the skip record '
               f'{sorted(skip_vars)}' if ok else
               f'`{unparse(e)}` emits a positional value without consulting '
               f'the skip record {sorted(skip_vars)}', ctx.loc(fn, e))
    # helper flush: an unset parameter without default raises
    for h in helpers.values():
      gg = ctx.cfg(h)
      has_raise = any(isinstance(gg.stmt[n], ast.Raise) for n in gg.nodes())
      rs.check(has_raise, rule, f'{h.qualname}:missing-required',
               'a skipped parameter without default makes the emission raise',
               ctx.loc(h, h.node))
    # all call sites in F that emit go through a helper or L.append
  return L, helpers


def kd_rules(ctx: Ctx, rs: RuleSet, L: str, helpers):
  p = ctx.p
  rule = 'KD.binding-keys'
  rs.declare(rule, 'signature binding stores positional-only / variadic '
             'values under enumeration-index keys; the residual is name-keyed',
             3)
  f = ctx.func(f'{SI}.signature_binding')
  # the loop: for index, name in enumerate(...)
  idx_vars = set()
  for n in walk_function(f.node):
    if isinstance(n, ast.For) and isinstance(n.iter, ast.Call) and isinstance(
        n.iter.func, ast.Name) and n.iter.func.id == 'enumerate' and isinstance(
            n.target, ast.Tuple) and isinstance(n.target.elts[0], ast.Name):
      idx_vars.add(n.target.elts[0].id)
  found = {}
  for n in walk_function(f.node):
    if isinstance(n, ast.If):
      ks = kinds_on_branch(n.test, True)
      if ks is None or len(ks) != 1:
        continue
      k = next(iter(ks))
      for s in walk_stmts(n.body):
        if isinstance(s, ast.Assign):
          for t in s.targets:
            if isinstance(t, ast.Subscript):
              names = {x.id for x in ast.walk(t.slice)
                       if isinstance(x, ast.Name)}
              found.setdefault(k, []).append((t, names, s))
        if isinstance(s, ast.Call) and isinstance(
            s.func, ast.Attribute) and s.func.attr == 'update':
          found.setdefault(k, []).append((s, None, s))
  for k in ('POSITIONAL_ONLY', 'VAR_POSITIONAL'):
    sts = [x for x in found.get(k, []) if x[1] is not None]
    ok = bool(sts) and all(
        names and (names & idx_vars) and not any(
            isinstance(x, ast.Attribute) and x.attr == 'name'
            for x in ast.walk(t.slice)) for t, names, _ in sts)
    rs.check(ok, rule, f'{f.qualname}:{k}',
             f'{k} values are stored under ' + ', '.join(
                 f'`{unparse(t.slice)}`' for t, _, _ in sts) +
             f' (index variables: {sorted(idx_vars)})' if sts else
             f'no store found under the {k} branch', ctx.loc(f, f.node))
  rs.check(any(x[1] is None for x in found.get('VAR_KEYWORD', [])), rule,
           f'{f.qualname}:VAR_KEYWORD',
           '**kwargs values are merged into the name-keyed dict',
           ctx.loc(f, f.node))
  # bind_partial receives the function's own *args/**kwargs
  a = f.node.args
  ok = False
  for c in ctx.calls(f):
    if isinstance(c.func, ast.Attribute) and c.func.attr in ('bind_partial',
                                                              'bind'):
      star = [x.value.id for x in c.args if isinstance(x, ast.Starred) and
              isinstance(x.value, ast.Name)]
      dstar = [k.value.id for k in c.keywords if k.arg is None and
               isinstance(k.value, ast.Name)]
      ok = (a.vararg is not None and star == [a.vararg.arg] and
            a.kwarg is not None and dstar == [a.kwarg.arg] and
            len(c.args) == 1 and len(c.keywords) == 1)
  rs.check(ok, rule, f'{f.qualname}:bind',
           'the signature is bound with exactly (*args, **kwargs)',
           ctx.loc(f, f.node))

  rule = 'KD.call-form-reads'
  rs.declare(rule, 'call-form translation reads positional-only values by '
             'index and positional-or-keyword values by name and deletes each '
             'consumed key; it works on a copy', 4)
  f = ctx.func(T2AK)
  g = ctx.cfg(f)
  arg_param = f.params[1]
  # Per kind, along every iteration path that emits a value read from the
  # storage dict: the key of the read is the enumeration index for
  # positional-only parameters and the parameter's name for
  # positional-or-keyword ones (locals are followed along the path), and the
  # same key is deleted on that path.
  heads = [n for n in g.nodes() if g.kind[n] == 'for']
  idx_names = set()
  for n in heads:
    it, tgt = g.stmt[n].iter, g.stmt[n].target
    if isinstance(it, ast.Call) and unparse(it.func) == 'enumerate' and (
        isinstance(tgt, ast.Tuple)) and isinstance(tgt.elts[0], ast.Name):
      idx_names.add(tgt.elts[0].id)

  def key_class(e, pth, upto, depth=0):
    if any(isinstance(x, ast.Attribute) and x.attr == 'name'
           for x in ast.walk(e)):
      return 'name'
    if isinstance(e, ast.Name):
      if e.id in idx_names:
        return 'index'
      if depth < 4:
        for j in range(upto - 1, -1, -1):
          st = g.stmt[pth[j]]
          if g.kind[pth[j]] == 'stmt' and isinstance(
              st, ast.Assign) and any(isinstance(t, ast.Name) and t.id == e.id
                                      for t in st.targets):
            return key_class(st.value, pth, j, depth + 1)
    return 'other'

  for k in ('POSITIONAL_ONLY', 'POSITIONAL_OR_KEYWORD'):
    reads, bad = [], []
    first = None
    for pth, how, _ in getattr(ctx, 't2ak_paths', {}).get(k, []):
      dels = {unparse(t) for x in pth if g.kind[x] == 'stmt' and isinstance(
          g.stmt[x], ast.Delete) for t in g.stmt[x].targets}
      for i, x in enumerate(pth):
        if g.kind[x] != 'stmt':
          continue
        for c in cfg_lib.walk_node(g, x):
          if isinstance(c, ast.Call) and (
              _appends_to(c, L) or (isinstance(c.func, ast.Name) and
                                    c.func.id in helpers)):
            for a0 in c.args:
              if isinstance(a0, ast.Name):
                # a local holding the value read from the store on this path
                for j in range(i - 1, -1, -1):
                  sj = g.stmt[pth[j]]
                  if g.kind[pth[j]] == 'stmt' and isinstance(
                      sj, ast.Assign) and any(
                          isinstance(t, ast.Name) and t.id == a0.id
                          for t in sj.targets):
                    a0 = sj.value
                    break
              if isinstance(a0, ast.Subscript) and isinstance(
                  a0.value, ast.Name) and a0.value.id == arg_param:
                first = first or g.stmt[x]
                kc = key_class(a0.slice, pth, i)
                reads.append((unparse(a0), kc))
                want = 'name' if k == 'POSITIONAL_OR_KEYWORD' else 'index'
                if kc != want:
                  bad.append(f'`{unparse(a0)}` is keyed by {kc}')
                if unparse(a0) not in dels:
                  bad.append(f'`{unparse(a0)}` is not deleted on its path')
    rs.check(bool(reads) and not bad, rule, f'{f.qualname}:{k}',
             f'{k}: reads {sorted(set(reads))}' + (
                 '; ' + '; '.join(sorted(set(bad))) if bad else
                 ', each deleted on its path'),
             ctx.loc(f, first if first is not None else f.node))
  # variadic tail: reads by running index from var_positional_start
  ok = False
  for n in walk_function(f.node):
    if isinstance(n, ast.While) and isinstance(n.test, ast.Compare) and (
        isinstance(n.test.ops[0], ast.In)):
      body = list(walk_stmts(n.body))
      reads = [s for s in body if isinstance(s, ast.Call) and (
          _appends_to(s, L) or (isinstance(s.func, ast.Name) and
                                s.func.id in helpers))]
      incr = any(isinstance(s, ast.AugAssign) and isinstance(s.op, ast.Add)
                 for s in body)
      dl = any(isinstance(s, ast.Delete) for s in body)
      ok = bool(reads) and incr and dl
  rs.check(ok, rule, f'{f.qualname}:VAR_POSITIONAL',
           '*args values are read by consecutive index, deleted, and emitted '
           'in order', ctx.loc(f, f.node))
  # copy first
  copies = [n for n in g.nodes() if isinstance(g.stmt[n], ast.Assign) and any(
      isinstance(t, ast.Name) and t.id == arg_param
      for t in g.stmt[n].targets) and isinstance(
          g.stmt[n].value, ast.Call) and (
              (isinstance(g.stmt[n].value.func, ast.Attribute) and
               g.stmt[n].value.func.attr == 'copy') or
              (isinstance(g.stmt[n].value.func, ast.Name) and
               g.stmt[n].value.func.id == 'dict'))]
  dels = [n for n in g.nodes() if isinstance(g.stmt[n], ast.Delete)]
  ok = bool(copies) and all(
      g.dominated_by(d, set(copies), labels=cfg_lib.NO_EXC) for d in dels)
  rs.check(ok, rule, f'{f.qualname}:copy',
           'the storage dict is copied before any key is deleted (the '
           'configuration is not modified)', ctx.loc(f, f.node))
  # the residual dict is what is returned as kwargs
  rets = [n for n in walk_function(f.node) if isinstance(n, ast.Return)]
  ok = all(isinstance(r.value, ast.Tuple) and len(r.value.elts) == 2 and
           isinstance(r.value.elts[1], ast.Name) and
           r.value.elts[1].id == arg_param for r in rets)
  rs.check(ok, rule, f'{f.qualname}:residual',
           'the keyword arguments are the residual of the copied storage',
           ctx.loc(f, f.node))

  # ordered_arguments keys
  rule = 'KD.ordered-arguments'
  rs.declare(rule, 'ordered_arguments keys positional-only values by index '
             'and others by name', 1)
  f = ctx.func('fiddle._src.config.ordered_arguments')
  ok_idx = ok_name = False
  # the loop variables: for <index>, (<name>, <param>) in enumerate(....items())
  idx_var = name_var = None
  for n in walk_function(f.node):
    if isinstance(n, ast.For) and isinstance(n.iter, ast.Call) and unparse(
        n.iter.func) == 'enumerate' and isinstance(
            n.target, ast.Tuple) and len(n.target.elts) == 2 and isinstance(
                n.target.elts[0], ast.Name) and isinstance(
                    n.target.elts[1], ast.Tuple) and isinstance(
                        n.target.elts[1].elts[0], ast.Name):
      idx_var = n.target.elts[0].id
      name_var = n.target.elts[1].elts[0].id
  from fdlstatic.rules.sigrules import reachable_for_kind
  g_oa = ctx.cfg(f)
  head = [n for n in g_oa.nodes() if g_oa.kind[n] == 'for' and isinstance(
      g_oa.stmt[n].iter, ast.Call) and unparse(
          g_oa.stmt[n].iter.func) == 'enumerate']
  if head:
    h = head[0]
    starts = [m for m, lab in g_oa.succ[h] if lab == 'iter']

    # the dict that is returned, and every store into it inside the loop
    rets_ = [r for r in walk_function(f.node) if isinstance(r, ast.Return)
             and r.value is not None]
    res_names = {unparse(roles.deref(f, r.value)) for r in rets_} | {
        unparse(r.value) for r in rets_}
    stores_ = [n for n in g_oa.nodes() if g_oa.kind[n] == 'stmt' and isinstance(
        g_oa.stmt[n], ast.Assign) and isinstance(
            g_oa.stmt[n].targets[0], ast.Subscript) and isinstance(
                g_oa.stmt[n].targets[0].value, ast.Name) and
               g_oa.dominated_by(n, {h}, labels=cfg_lib.NO_EXC) and
               n in g_oa.reach(starts, blocked={h}, labels=cfg_lib.NO_EXC)]
    param_vars = {x.id for x in ast.walk(g_oa.stmt[h].target)
                  if isinstance(x, ast.Name)} - {idx_var, name_var}

    def key_class(e, n, kind, depth=0):
      """'index' / 'name' / None for the key expression e at node n when the
      parameter has the given kind."""
      if isinstance(e, ast.Name) and e.id == idx_var:
        return 'index'
      if isinstance(e, ast.Name) and e.id == name_var:
        return 'name'
      if isinstance(e, ast.Attribute) and e.attr == 'name' and isinstance(
          e.value, ast.Name) and e.value.id in param_vars:
        return 'name'
      if isinstance(e, ast.IfExp):
        v = sigrules.eval3(e.test, kind, None, f)
        if v is True:
          return key_class(e.body, n, kind, depth + 1)
        if v is False:
          return key_class(e.orelse, n, kind, depth + 1)
        a_, b_ = (key_class(e.body, n, kind, depth + 1),
                  key_class(e.orelse, n, kind, depth + 1))
        return a_ if a_ == b_ else None
      if isinstance(e, ast.Name) and depth < 3:
        rd = [r for r in roles.reaching(g_oa, n, e.id)
              if sigrules.reachable_for_kind(g_oa, starts, r[0], kind, None,
                                             {h}, f) or r[0] == h]
        cls = {key_class(v, m, kind, depth + 1) if k_ == 'value' else None
               for m, k_, v in rd}
        return next(iter(cls)) if len(cls) == 1 else None
      return None

    want = {'POSITIONAL_ONLY': 'index', 'POSITIONAL_OR_KEYWORD': 'name',
            'KEYWORD_ONLY': 'name'}
    ok_idx = ok_name = True
    for kind, cls in want.items():
      reached = [n for n in stores_ if sigrules.reachable_for_kind(
          g_oa, starts, n, kind, None, {h}, f)]
      got = {key_class(g_oa.stmt[n].targets[0].slice, n, kind)
             for n in reached}
      good = bool(reached) and got == {cls}
      if cls == 'index':
        ok_idx = ok_idx and good
      else:
        ok_name = ok_name and good
  rs.check(ok_idx and ok_name, rule, f'{f.qualname}:keys',
           'POSITIONAL_ONLY -> result[index], otherwise result[name]',
           ctx.loc(f, f.node))


def same_named_keyword(ctx: Ctx, rs: RuleSet):
  """`f(1, a=2)` is legal for `def f(a, /, **kwargs)`: a keyword stored under a

  name that also names a positional-only or *args parameter is an extra
  keyword argument, and a positional-only value stored by index wins over it.
  """
  from fdlstatic.rules.sigrules import reachable_for_kind
  rule = 'PK.same-named-keyword'
  rs.declare(rule, 'ordered_arguments passes str keys that name a '
             'positional-only / *args parameter on as **kwargs entries, and '
             'reads positional-only values by index first', 2)
  f = ctx.func('fiddle._src.config.ordered_arguments')
  g = ctx.cfg(f)
  # the loop over the raw argument store that collects **kwargs entries
  for n in g.nodes():
    if g.kind[n] != 'for':
      continue
    L = g.stmt[n]
    if not (unparse(roles.deref_deep(f, L.iter)).endswith(
        '.__arguments__.items()') and isinstance(
        L.target, ast.Tuple) and len(L.target.elts) == 2):
      continue
    key_v, val_v = unparse(L.target.elts[0]), unparse(L.target.elts[1])
    pvars = roles.assigned_from(f, lambda e: isinstance(e, ast.Call) and
                                isinstance(e.func, ast.Attribute) and
                                e.func.attr == 'get' and unparse(
                                    roles.deref(f, e.func.value)).endswith(
                                        '.parameters'))
    pv = next(iter(pvars)) if pvars else None
    body = g.reach([m for m, lab in g.succ[n] if lab == 'iter'], blocked={n},
                   labels=cfg_lib.NO_EXC)
    stores = [m for m in body if isinstance(g.stmt[m], ast.Assign) and
              g.kind[m] == 'stmt' and isinstance(
                  g.stmt[m].targets[0], ast.Subscript) and unparse(
                      g.stmt[m].targets[0].slice) == key_v and unparse(
                          g.stmt[m].value) == val_v]
    starts = [m for m, lab in g.succ[n] if lab == 'iter']
    reach = {}
    for kind in (None, 'VAR_KEYWORD', 'VAR_POSITIONAL', 'POSITIONAL_ONLY',
                 'POSITIONAL_OR_KEYWORD', 'KEYWORD_ONLY'):
      reach[kind] = any(reachable_for_kind(g, starts, s_, kind, pv, {n})
                        for s_ in stores)
    need = [k for k in (None, 'VAR_KEYWORD', 'VAR_POSITIONAL',
                        'POSITIONAL_ONLY') if not reach[k]]
    wrong = [k for k in ('POSITIONAL_OR_KEYWORD', 'KEYWORD_ONLY') if reach[k]]
    ok = bool(stores) and not need and not wrong
    rs.check(ok, rule, f'{f.qualname}:kwargs-loop',
             'str keys naming no parameter, **kwargs, *args or a '
             'positional-only parameter are passed on as keywords' if ok else
             f'a str key whose name belongs to a parameter of kind {need} is '
             'never passed on as a keyword argument: fdl.Config(f, 1, a=2) for '
             'def f(a, /, **kwargs) builds f(1) and loses a=2'
             if need else f'keys of kind {wrong} are emitted twice',
             ctx.loc(f, L))
  # positional-only values: the index lookup is consulted before the name.
  # Under "kind is POSITIONAL_ONLY and the index is in the store" no read of
  # the store by the parameter's name is reachable within the iteration.
  from fdlstatic import dispatch

  def is_store(e):
    e = roles.deref(f, e)
    return isinstance(e, ast.Attribute) and e.attr == '__arguments__'

  loop_heads = [n for n in g.nodes() if g.kind[n] == 'for' and
                '.parameters' in unparse(
                    roles.deref_deep(f, g.stmt[n].iter)) and unparse(
                    g.stmt[n].iter.func if isinstance(
                        g.stmt[n].iter, ast.Call) else g.stmt[n].iter
                ) == 'enumerate']
  # for <index>, (<name>, <param>) in enumerate(<...>.parameters.items())
  idx_vars, name_only, param_vars_ = set(), set(), set()
  for n in loop_heads:
    tg = g.stmt[n].target
    if isinstance(tg, ast.Tuple) and len(tg.elts) == 2 and isinstance(
        tg.elts[0], ast.Name):
      idx_vars.add(tg.elts[0].id)
      inner = tg.elts[1]
      if isinstance(inner, ast.Tuple) and len(inner.elts) == 2:
        if isinstance(inner.elts[0], ast.Name):
          name_only.add(inner.elts[0].id)
        if isinstance(inner.elts[1], ast.Name):
          param_vars_.add(inner.elts[1].id)
      elif isinstance(inner, ast.Name):
        param_vars_.add(inner.id)

  def is_name_key(e):
    return (isinstance(e, ast.Name) and e.id in name_only) or (
        isinstance(e, ast.Attribute) and e.attr == 'name' and isinstance(
            e.value, ast.Name) and e.value.id in param_vars_)

  def po_index_set(v):
    def ev(t):
      ka = kind_atom(t)
      if ka is not None:
        return ('POSITIONAL_ONLY' in ka[0]) == ka[1] if ka[0] == {
            'POSITIONAL_ONLY'} else None
      if isinstance(t, ast.Compare) and len(t.ops) == 1 and isinstance(
          t.ops[0], (ast.In, ast.NotIn)) and isinstance(
              t.left, ast.Name) and t.left.id in idx_vars and is_store(
                  t.comparators[0]):
        return v if isinstance(t.ops[0], ast.In) else not v
      return None
    return dispatch.through_locals(f, ev)

  by_name = [m for m in g.nodes() if g.kind[m] == 'stmt' and any(
      isinstance(e, ast.Subscript) and isinstance(e.ctx, ast.Load) and
      is_store(e.value) and is_name_key(e.slice)
      for e in cfg_lib.walk_node(g, m))]
  ok = bool(by_name) and bool(loop_heads)
  for h_ in loop_heads:
    body_start = [x for x, lab in g.succ[h_] if lab == 'iter']
    r_set = dispatch.reach_atoms(g, po_index_set(True), start=body_start,
                                 stop={h_})
    r_unset = dispatch.reach_atoms(g, po_index_set(False), start=body_start,
                                   stop={h_})
    in_loop = [m for m in by_name if m in g.reach(
        body_start, blocked={h_}, labels=cfg_lib.NO_EXC)]
    if not in_loop:
      continue
    ok = ok and not any(m in r_set for m in in_loop) and any(
        m in r_unset for m in in_loop)
  rs.check(ok, rule, f'{f.qualname}:index-first',
           'a positional-only value stored by index is read by index; the '
           'by-name lookup is only the fallback' if ok else
           'for a positional-only parameter the by-name lookup is taken even '
           'when the index is set: a same-named keyword replaces the '
           'positional value', ctx.loc(f, f.node))


def _param_name_vars(f) -> Set[str]:
  out = set()
  for L in walk_function(f.node):
    if isinstance(L, ast.For) and '.parameters.items()' in unparse(L.iter):
      for x in ast.walk(L.target):
        if isinstance(x, ast.Name):
          out.add(x.id)
  return out


def pk_rule(ctx: Ctx, rs: RuleSet):
  rule = 'PK.kind-coverage'
  rs.declare(rule, 'each storage/call-form translation function '
             'distinguishes the parameter kinds the storage format requires',
             len(KIND_TABLE))
  for q, want in sorted(KIND_TABLE.items()):
    f = ctx.func(q)
    got = kinds_mentioned(f)
    missing = want - got
    rs.check(not missing, rule, f'{q}:kinds',
             f'distinguishes {sorted(got)}' if not missing else
             f'no longer distinguishes {sorted(missing)} (has {sorted(got)})',
             ctx.loc(f, f.node))


def delegation(ctx: Ctx, rs: RuleSet):
  p = ctx.p
  rule = 'DEFUSE.delegation'
  rs.declare(rule, 'translated (args, kwargs) reach the callable unmodified', 4)
  # Config.__build__
  f = ctx.func('fiddle._src.config.Config.__build__')
  a = f.node.args
  rets = [n for n in walk_function(f.node) if isinstance(n, ast.Return)]
  ok = bool(rets) and a.vararg is not None and a.kwarg is not None
  for r in rets:
    c = r.value
    good = (isinstance(c, ast.Call) and isinstance(c.func, ast.Attribute) and
            c.func.attr == '__fn_or_cls__' and isinstance(
                c.func.value, ast.Name) and c.func.value.id == f.params[0] and
            len(c.args) == 1 and isinstance(c.args[0], ast.Starred) and
            isinstance(c.args[0].value, ast.Name) and
            c.args[0].value.id == a.vararg.arg and len(c.keywords) == 1 and
            c.keywords[0].arg is None and isinstance(
                c.keywords[0].value, ast.Name) and
            c.keywords[0].value.id == a.kwarg.arg)
    ok = ok and good
  writes = [n for n in walk_function(f.node)
            if set(assigned_names(n)) & set(f.params)]
  rs.check(ok and not writes, rule, f'{f.qualname}:forward',
           'returns self.__fn_or_cls__(*args, **kwargs) with its own '
           'variadic parameters, never reassigned', ctx.loc(f, f.node))
  # call_buildable
  f = ctx.func('fiddle._src.building.call_buildable')
  g = ctx.cfg(f)
  t_nodes, b_nodes = [], []
  tnames = None
  for n in g.nodes():
    st = g.stmt[n]
    if isinstance(st, ast.Assign) and isinstance(st.value, ast.Call) and (
        isinstance(st.value.func, ast.Attribute) and
        st.value.func.attr == 'transform_to_args_kwargs'):
      c = st.value
      if isinstance(st.targets[0], ast.Tuple) and len(
          st.targets[0].elts) == 2 and all(
              isinstance(e, ast.Name) for e in st.targets[0].elts):
        tnames = [e.id for e in st.targets[0].elts]
      plain = (len(c.args) == 1 and not c.keywords and isinstance(
          c.args[0], ast.Name) and c.args[0].id == f.params[1])
      t_nodes.append((n, plain, c))
    for e in cfg_lib.walk_node(g, n):
      if isinstance(e, ast.Call) and isinstance(
          e.func, ast.Attribute) and e.func.attr == '__build__':
        b_nodes.append((n, e))
  if not t_nodes or not b_nodes or tnames is None:
    raise AnalysisError('call_buildable: translation or __build__ call not '
                        'found')
  for n, plain, c in t_nodes:
    rs.check(plain, rule, f'{f.qualname}:translate',
             'arguments are translated with the default flags '
             '(positional-or-keyword by keyword, unset values omitted)' if plain
             else f'`{unparse(c)}`: non-default flags change what is passed',
             ctx.loc(f, c))
  for n, e in b_nodes:
    good = (len(e.args) == 1 and isinstance(e.args[0], ast.Starred) and
            isinstance(e.args[0].value, ast.Name) and
            e.args[0].value.id == tnames[0] and len(e.keywords) == 1 and
            e.keywords[0].arg is None and isinstance(
                e.keywords[0].value, ast.Name) and
            e.keywords[0].value.id == tnames[1] and isinstance(
                e.func.value, ast.Name) and e.func.value.id == f.params[0])
    # no write / mutator call on args, kwargs between
    tn = {x for x, _, _ in t_nodes}
    between = g.reach([m for x in tn for m, lab in g.succ[x] if lab != 'exc'],
                      blocked={n}, labels=cfg_lib.NO_EXC)
    dirty = None
    for x in between:
      if x == n:
        continue
      st = g.stmt[x]
      if st is None:
        continue
      if set(assigned_names(st)) & set(tnames):
        dirty = x
      for y in cfg_lib.walk_node(g, x):
        if isinstance(y, ast.Call) and isinstance(
            y.func, ast.Attribute) and isinstance(
                y.func.value, ast.Name) and y.func.value.id in tnames:
          dirty = x
        if isinstance(y, ast.Subscript) and isinstance(
            y.ctx, (ast.Store, ast.Del)) and isinstance(
                y.value, ast.Name) and y.value.id in tnames:
          dirty = x
    rs.check(good and dirty is None, rule, f'{f.qualname}:__build__',
             f'buildable.__build__(*{tnames[0]}, **{tnames[1]}) receives the '
             'translation result, untouched in between' if good and dirty is None
             else (f'`{unparse(e)}` / modified at {g.describe(dirty)}'
                   if dirty is not None else f'`{unparse(e)}` does not pass '
                   'the translated arguments'), ctx.loc(f, e))
  # Buildable.__init__
  f = ctx.func(f'{B}.__init__')
  a = f.node.args
  ok_bind = ok_store = False

  def is_binding(c):
    return isinstance(c, ast.Call) and isinstance(
        c.func, ast.Attribute) and c.func.attr == 'signature_binding'

  for c in walk_function(f.node):
    if is_binding(c):
      star = [x.value.id for x in c.args if isinstance(x, ast.Starred) and
              isinstance(x.value, ast.Name)]
      dstar = [k.value.id for k in c.keywords if k.arg is None and
               isinstance(k.value, ast.Name)]
      ok_bind = bool(a.vararg and star == [a.vararg.arg] and a.kwarg and
                     dstar == [a.kwarg.arg] and len(c.args) == 2 and
                     isinstance(c.args[0], ast.Name) and
                     c.args[0].id == f.params[1])
  # the loop over the bound pairs: `for k, v in <binding>.items()` where the
  # binding is the call itself or a local holding it
  for n in walk_function(f.node):
    if isinstance(n, ast.For) and isinstance(n.iter, ast.Call) and isinstance(
        n.iter.func, ast.Attribute) and n.iter.func.attr == 'items' and (
            is_binding(roles.deref(f, n.iter.func.value))) and isinstance(
                n.target, ast.Tuple):
      kv = [e.id for e in n.target.elts if isinstance(e, ast.Name)]
      for s in walk_stmts(n.body):
        if isinstance(s, ast.Call) and isinstance(
            s.func, ast.Attribute) and s.func.attr == '_arguments_set_value':
          if [x.id for x in s.args if isinstance(x, ast.Name)] == kv:
            ok_store = True
  rs.check(ok_bind and ok_store, rule, f'{f.qualname}:store-bound',
           'the constructor binds (fn_or_cls, *args, **kwargs) and stores '
           'every bound (key, value) pair', ctx.loc(f, f.node))


def children_before_call(ctx: Ctx, rs: RuleSet, rule='DOM.children-before-call'):
  rs.declare(rule, 'nested values are built before the call and the call '
             'receives them', 2)
  bf = ctx.func(BUILD)
  for f in ctx.p.callbacks(bf):
    g = ctx.cfg(f)
    call_nodes = [(n, e) for n in g.nodes() for e in cfg_lib.walk_node(g, n)
                  if isinstance(e, ast.Call) and ctx.p.resolve(e.func, f) ==
                  'fiddle._src.building.call_buildable']
    if not call_nodes:
      continue
    value = f.params[0]
    # def-use chain: sub = state.flattened_map_children(value);
    # metadata = sub.metadata; arguments = metadata.arguments(sub.values)
    defs = {}
    for n in g.nodes():
      st = g.stmt[n]
      if isinstance(st, (ast.Assign, ast.AnnAssign)):
        tg = st.targets[0] if isinstance(st, ast.Assign) else st.target
        if isinstance(tg, ast.Name) and st.value is not None:
          defs.setdefault(tg.id, []).append((n, st.value))
    for n, e in call_nodes:
      key = f'{f.qualname}:call_buildable'
      a1 = e.args[1] if len(e.args) > 1 else kwarg(e, 'arguments')
      ok = False
      detail = 'argument expression not understood'
      dv = roles.deref(f, a1) if a1 is not None else None
      # metadata.arguments(sub.values), each part possibly held in a local
      if (isinstance(dv, ast.Call) and isinstance(dv.func, ast.Attribute) and
          dv.func.attr == 'arguments' and len(dv.args) == 1):
        vals = roles.deref(f, dv.args[0])
        md = roles.deref(f, dv.func.value)
        sub = None
        if isinstance(vals, ast.Attribute) and vals.attr == 'values' and (
            isinstance(vals.value, ast.Name)):
          sub = vals.value.id
        md_ok = (sub is not None and isinstance(md, ast.Attribute) and
                 md.attr == 'metadata' and isinstance(md.value, ast.Name) and
                 md.value.id == sub)
        sub_ok = False
        if sub is not None and len(defs.get(sub, [])) == 1:
          sn, sv = defs[sub][0]
          sub_ok = (isinstance(sv, ast.Call) and isinstance(
              sv.func, ast.Attribute) and
                    sv.func.attr == 'flattened_map_children' and
                    len(sv.args) == 1 and isinstance(sv.args[0], ast.Name) and
                    sv.args[0].id == value and
                    g.dominated_by(n, {sn}, labels=cfg_lib.NO_EXC))
        first_ok = e.args and isinstance(
            e.args[0], ast.Name) and e.args[0].id == value
        ok = bool(md_ok and sub_ok and first_ok)
        detail = (f'arguments = <metadata of the flatten>.arguments(<built '
                  f'children>) : metadata_ok={md_ok} children_ok={sub_ok} '
                  f'same_value={bool(first_ok)}')
      rs.check(ok, rule, key, detail, ctx.loc(f, e))
    # every other value goes through map_children of the same traversal:
    # no return of the callback may bypass it
    state_p = f.params[1] if len(f.params) > 1 else 'state'
    rets = [g.stmt[n] for n in g.nodes() if isinstance(g.stmt[n], ast.Return)]
    bad = []
    n_mc = 0
    def _kind(v, depth=0):
      if isinstance(v, ast.Call) and ctx.p.resolve(
          v.func, f) == 'fiddle._src.building.call_buildable':
        return 'call'
      if isinstance(v, ast.Call) and unparse(v.func) == (
          f'{state_p}.map_children') and len(v.args) == 1 and unparse(
              v.args[0]) == value:
        return 'mc'
      if isinstance(v, ast.Name) and depth < 3:
        # a local holding one of the accepted results
        defs = [s.value for s in walk_function(f.node)
                if isinstance(s, ast.Assign) and any(
                    isinstance(t, ast.Name) and t.id == v.id
                    for t in s.targets)]
        kinds = {_kind(d, depth + 1) for d in defs}
        if len(kinds) == 1 and None not in kinds:
          return kinds.pop()
      return None

    for r in rets:
      k = _kind(r.value)
      if k == 'mc':
        n_mc += 1
      elif k is None:
        bad.append(r)
    rs.check(n_mc >= 1 and not bad, rule, f'{f.qualname}:containers',
             'every non-Buildable value is rebuilt with '
             'state.map_children(value) under the same traversal (nested '
             'Buildables in any registered container type are built)'
             if n_mc >= 1 and not bad else
             f'`{unparse(bad[0])[:80]}` returns a value without traversing it '
             'with state.map_children: Buildables nested in container types '
             'the shortcut does not know (named tuples, defaultdicts, '
             'registered types) are passed to the callable unbuilt'
             if bad else 'no map_children return found',
             ctx.loc(f, bad[0] if bad else f.node))


def signature_tables(ctx: Ctx, rs: RuleSet, rule='IDMEMO.signature-tables'):
  """A signature looked up for one callable is never served for another:

  module-level tables in signatures.py are keyed by the callable itself (weak
  dictionaries), never by a bare id() whose object may die.
  """
  from fdlstatic import idmemo
  rs.declare(rule, 'signature / type-hint tables are not keyed by the id of an '
             'object they do not hold', 1)
  sites = idmemo.scan_module(ctx, 'fiddle._src.signatures')
  bad = [s_ for s_ in sites if not s_.pinned]
  for s_ in bad:
    rs.fail(rule, s_.key,
            f'`{s_.table}` is keyed by id({unparse(s_.x)}) without holding '
            'the object: once it is collected CPython reuses the id, and the '
            'next callable allocated there is bound with the dead one\'s '
            'signature (arguments silently bound to other parameters)',
            ctx.loc(s_.scope, s_.node))
  if not bad:
    rs.ok(rule, 'fiddle._src.signatures',
          f'{len(sites)} id-keyed store(s); caches are keyed by the callable '
          'object', '')


def run(ctx: Ctx, rs: RuleSet, tier: str):
  signature_tables(ctx, rs)
  same_named_keyword(ctx, rs)
  from fdlstatic.rules import c19
  c19.cache_premise(ctx, rs, 'CACHE.signature',
                    ['fiddle._src.signatures._signature_cache'])
  L, helpers = gap_rule(ctx, rs)
  kd_rules(ctx, rs, L, helpers)
  pk_rule(ctx, rs)
  delegation(ctx, rs)
  children_before_call(ctx, rs)
  # premise shared with C02: the build traversal hands each argument the result
  # computed for that very object - its memo is keyed by identity, so a value
  # can never receive the result of another, merely equal, one (0.0 / -0.0,
  # (1, 1) / (1.0, 1.0) / (True, True))
  from fdlstatic.rules import c02
  from fdlstatic.report import RuleSet as _RS
  sub = _RS(rs.prop)
  c02.run(ctx, sub, 'quick')
  rs.declare('IDMEMO.traversal-memo', 'the memo of the build traversal is '
             'keyed by id(value) and pins the value (premise, decided with '
             'C02)', 2)
  for o in sub.obs:
    if o.rule == 'IDMEMO.traversal-memo':
      rs.add(o)


MANIFEST = dict(
    text=('Decides structural necessary conditions of C01 for every signature '
          'and every configured subset: the call-form translation cannot '
          'shift a positional value over an unset parameter (path enumeration '
          'of the per-parameter loop), key-kind discipline of binding and '
          'translation, per-function parameter-kind coverage, and unmodified '
          'delegation of the translated arguments down to the callable after '
          'the children have been built. Equality of results with a direct '
          'call is not decided.'),
    note=('Trusted: ast of the working tree; inspect.Signature.bind_partial; '
          'the kind-coverage table in the checker (hand-confirmed per '
          'function).'),
    technique='static analysis: loop-path enumeration with kind refinement, def-use chains, CFG dominance, kind-table agreement',
)
