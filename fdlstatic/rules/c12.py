"""C12 - generated Python code reproduces the configuration."""
from __future__ import annotations

import ast
from typing import List, Optional, Set

from fdlstatic import cfg as cfg_lib
from fdlstatic.ctx import Ctx, kwarg
from fdlstatic.model import AnalysisError, FuncInfo, norm_text, unparse, walk_function, walk_stmts
from fdlstatic import noneness, roles
from fdlstatic.report import RuleSet
from fdlstatic.rules import c14

CG = 'fiddle._src.codegen'
PV = f'{CG}.py_val_to_cst_converter'
AC = f'{CG}.auto_config'
# types whose repr() is always a Python literal of an equal value
REPR_IS_LITERAL = {'int', 'bool', 'type(None)', 'str', 'bytes'}

EXPLANATION = (
    'Static clauses of C12 decided on the current source: (LIT) a value '
    'converter that turns repr(value) into expression source is registered '
    'only for types whose repr is always a literal (int, bool, None, str, '
    'bytes), or consults math.isfinite / isnan / isinf before doing so '
    '(float, complex); (EXH) the converter dispatch raises when no converter '
    'accepts a value, and every traversal callback of the code-generation '
    'passes that returns transformed nodes does so on every path (no silent '
    'fall-through to None), with the expression emitter raising for '
    'Buildables that were not lowered and for traversable values it does not '
    'know; (ORD) a pass that moves a node into a variable declares it after '
    'rebuilding the node\'s children (post-order), the declaration holds '
    'that rebuilt value, and the function body emits the declarations in '
    'list order before the return - so references point backwards; (WMC) '
    'generated identifiers are taken from a Namer built on the task '
    'namespace; (KD) argument keys used as keyword names are str - known '
    'finding for positional arguments in the Buildable converter. Not '
    'decided: that executing the emitted module yields an equal '
    'configuration.')
ASSUMPTIONS = ['libcst renders the constructed nodes faithfully']


def registered_converters(ctx: Ctx):
  """(FuncInfo, [matcher texts]) for functions decorated with the register

  decorator in py_val_to_cst_converter.
  """
  out = []
  for f in ctx.mod(PV).all_funcs:
    if f.is_lambda:
      continue
    for d in f.decorators:
      if isinstance(d, ast.Call) and unparse(d.func) == (
          'register_py_val_to_cst_converter') and d.args:
        m = d.args[0]
        matchers = [unparse(e) for e in m.elts] if isinstance(
            m, ast.List) else [unparse(m)]
        out.append((f, matchers))
  return out


def implicit_none_paths(ctx: Ctx, f: FuncInfo) -> Optional[List[str]]:
  """A path falling off the end of a function that otherwise returns values."""
  g = ctx.cfg(f)
  rets = [n for n in g.nodes() if isinstance(g.stmt[n], ast.Return)]
  valued = [n for n in rets if g.stmt[n].value is not None and not (
      isinstance(g.stmt[n].value, ast.Constant) and
      g.stmt[n].value.value is None)]
  if not valued:
    return None
  blockers = set(rets) | {n for n in g.nodes()
                          if isinstance(g.stmt[n], ast.Raise)}
  if g.exit in g.reach([g.entry], blocked=blockers, labels=cfg_lib.NO_EXC):
    path = g.find_path(g.entry, {g.exit}, blocked=blockers,
                       labels=cfg_lib.NO_EXC) or []
    return [g.describe(x) for x in path]
  bare = [n for n in rets if n not in valued]
  if bare:
    return [g.describe(bare[0])]
  return []


def _from_tags(f: FuncInfo, name: str, depth: int = 0) -> bool:
  """`name` iterates (transitively) over an __argument_tags__ mapping."""
  if depth > 4:
    return False
  for n in ast.walk(f.node):
    it = tg = None
    if isinstance(n, (ast.For, ast.comprehension)):
      it, tg = n.iter, n.target
    elif isinstance(n, ast.Assign) and len(n.targets) == 1:
      it, tg = n.value, n.targets[0]
    if it is None or name not in {x.id for x in ast.walk(tg)
                                   if isinstance(x, ast.Name)}:
      continue
    if any(isinstance(x, ast.Attribute) and x.attr == '__argument_tags__'
           for x in ast.walk(it)):
      return True
    for x in ast.walk(it):
      if isinstance(x, ast.Name) and x.id != name and _from_tags(
          f, x.id, depth + 1):
        return True
  return False


def _import_categories(ctx: Ctx, f: FuncInfo) -> Set[str]:
  """Kinds of objects handed to the import manager in `f`."""
  out: Set[str] = set()
  for c in ast.walk(f.node):
    if not (isinstance(c, ast.Call) and c.args):
      continue
    fn = unparse(c.func)
    if isinstance(c.func, ast.Attribute) and isinstance(
        c.func.value, ast.Name) and not f.is_lambda:
      # a local naming the import manager (`im = task.import_manager`)
      fn = unparse(roles.deref(f, c.func.value)) + '.' + c.func.attr
    if not (fn.endswith('import_manager.add') or
            fn.endswith('import_manager_wrapper.add')):
      continue
    a = c.args[0]
    if isinstance(a, ast.Call) and unparse(a.func) == 'type':
      out.add('buildable-type')
    elif 'get_callable(' in unparse(a):
      out.add('callable')
    elif isinstance(a, ast.Name) and _from_tags(f, a.id):
      out.add('tag')
    elif isinstance(a, ast.Name):
      out.add('symbol')
    else:
      out.add('other')
  return out


def _scope_chain(ctx: Ctx, f: FuncInfo):
  out = [f]
  q = f.qualname
  while '.' in q:
    q = q.rsplit('.', 1)[0]
    g = ctx.p.funcs.get(q)
    if g is not None:
      out.append(g)
  return out


def _name_sources(ctx: Ctx, f: FuncInfo, expr, depth=0) -> Set[str]:
  """Names of the functions whose results flow into `expr` through local /

  enclosing-scope assignments, `x.update(...)`, `x |= ...` and copies.
  """
  out: Set[str] = set()
  if depth > 6:
    return out
  for n in ast.walk(expr):
    if isinstance(n, ast.Call):
      rq = ctx.p.resolve(n.func, f)  # through import aliases
      out.add((rq if rq and rq in ctx.p.funcs else unparse(n.func)).rsplit(
          '.', 1)[-1])
    if isinstance(n, ast.Name) and isinstance(n.ctx, ast.Load):
      for g in _scope_chain(ctx, f):
        hit = False
        for s in walk_function(g.node):
          if isinstance(s, ast.Assign) and any(
              isinstance(t, ast.Name) and t.id == n.id for t in s.targets):
            out |= _name_sources(ctx, g, s.value, depth + 1)
            hit = True
          elif isinstance(s, ast.AugAssign) and isinstance(
              s.target, ast.Name) and s.target.id == n.id:
            out |= _name_sources(ctx, g, s.value, depth + 1)
          elif isinstance(s, ast.Call) and isinstance(
              s.func, ast.Attribute) and s.func.attr in (
                  'update', 'add', 'extend') and isinstance(
                      s.func.value, ast.Name) and s.func.value.id == n.id:
            for a in s.args:
              out |= _name_sources(ctx, g, a, depth + 1)
        if hit:
          break
        if n.id in g.params:
          out.add(f'param:{g.qualname}:{n.id}')
          break
  return out


def _name_source_sets(ctx: Ctx, f: FuncInfo, expr, depth=0) -> List[Set[str]]:
  """_name_sources per calling context: where the value flows in through a
  parameter, one set for every call site of the function (each caller has to
  supply what the rule asks for)."""
  base = _name_sources(ctx, f, expr)
  marks = sorted(x for x in base if x.startswith('param:'))
  if not marks or depth > 2:
    return [base]
  owners = {m.split(':')[1] for m in marks}
  sets = [base]
  for oq in sorted(owners):
    sites = []
    for g in ctx.p.funcs.values():
      if g.is_lambda and False:
        continue
      for c in ctx.calls(g):
        if ctx.p.resolve(c.func, g) == oq:
          sites.append((g, c))
    if not sites:
      continue
    new_sets = []
    for g, c in sites:
      b = ctx.bound_args(c, g)
      extra: List[Set[str]] = [set()]
      for m in marks:
        _, mq, name = m.split(':')
        if mq != oq:
          continue
        if b is None or name not in b:
          continue
        subs = _name_source_sets(ctx, g, b[name], depth + 1)
        extra = [e | s_ for e in extra for s_ in subs]
      for cur in sets:
        for e in extra:
          new_sets.append(cur | e)
    sets = new_sets
  return sets


def _expr_sources_text(f: FuncInfo, expr, depth=0) -> str:
  """Text of `expr` with locals expanded to what they were assigned."""
  parts = [unparse(expr)]
  if depth < 4:
    for n in ast.walk(expr):
      if isinstance(n, ast.Name):
        for s in walk_function(f.node):
          if isinstance(s, ast.Assign) and any(
              isinstance(t, ast.Name) and t.id == n.id for t in s.targets):
            parts.append(_expr_sources_text(f, s.value, depth + 1))
  return ' '.join(parts)


def _is_module_expr(ctx: Ctx, f: FuncInfo, e) -> bool:
  """`e` is known to be a module object."""
  if isinstance(e, ast.Call) and unparse(e.func) == 'inspect.getmodule':
    return True
  if isinstance(e, ast.Name):
    defs = [s.value for s in walk_function(f.node) if isinstance(s, ast.Assign)
            and any(isinstance(t, ast.Name) and t.id == e.id
                    for t in s.targets)]
    if defs:
      return all(_is_module_expr(ctx, f, d) for d in defs)
    if f.params and e.id == f.params[0]:
      # converter registered for module objects only
      for d in f.decorators:
        if isinstance(d, ast.Call) and d.args and 'ModuleType' in unparse(
            d.args[0]) and 'isinstance' in unparse(d.args[0]):
          return True
  return False


def _sub_fixture_sharing(ctx: Ctx, rs: RuleSet):
  """A value referenced from two generated functions is built once and handed
  on (variable + parameter); that must hold for what the declared variable
  contains and for values that are user-chosen sub-fixtures themselves.
  """
  from fdlstatic import dispatch
  # (1) what a variable is declared as went through the rewriting traversal:
  # a declaration holding the configuration's own (un-rewritten) node repeats
  # everything below it inline, including values that were given variables
  rule = 'DEFUSE.declared-expression-rewritten'
  rs.declare(rule, 'the expression of every VariableDeclaration a pass adds '
             'is the value rebuilt by that pass (state.map_children(...))', 3)
  for modname in sorted(ctx.p.modules):
    if not modname.startswith(AC + '.') or modname.endswith('test_fixtures'):
      continue
    for f in ctx.mod(modname).all_funcs:
      if f.is_lambda:
        continue
      g = None
      for c in ctx.calls(f):
        if not unparse(c.func).endswith('VariableDeclaration'):
          continue
        b = ctx.bound_args(c, f) or {}
        e = b.get('expression')
        if e is None:
          continue
        g = g or ctx.cfg(f)
        node = next((n for n in g.nodes() if any(
            x is c for x in cfg_lib.walk_node(g, n))), None)
        ok = False
        how = f'`{unparse(e)}`'
        if isinstance(e, ast.Name) and node is not None:
          rd = roles.reaching(g, node, e.id)
          ok = bool(rd) and all(
              kind == 'value' and isinstance(v, ast.Call) and isinstance(
                  v.func, ast.Attribute) and v.func.attr == 'map_children'
              for _, kind, v in rd)
          how = f'`{e.id}` <- ' + ', '.join(sorted(
              {unparse(v)[:40] if v is not None else kind
               for _, kind, v in rd}))
        rs.check(ok, rule, f'{modname}:VariableDeclaration.expression',
                 f'{how}: the rebuilt value' if ok else
                 f'{how}: the variable is declared as the configuration\'s '
                 'own node, which the replacing traversal never rewrites: a '
                 'shared value that contains another shared value repeats it '
                 'inline instead of naming its variable, and the executed '
                 'module builds two objects', ctx.loc(f, c))
  # (2) the marking of what the top-level function uses covers every node
  sf = ctx.func(f'{AC}.sub_fixture._find_shared_nodes')
  rule = 'PAIR.shared-node-recorded'
  rs.declare(rule, 'a value used from two generated functions is recorded as '
             'shared (or the selection is rejected) whatever kind of node it '
             'is', 2)
  g = ctx.cfg(sf)
  ret = [gs for gs in walk_function(sf.node) if isinstance(gs, ast.Return)]
  table = None
  if ret and isinstance(ret[0].value, ast.Tuple) and isinstance(
      ret[0].value.elts[0], ast.Name):
    table = ret[0].value.elts[0].id
  stores = [n for n in g.nodes() if g.kind[n] == 'stmt' and isinstance(
      g.stmt[n], ast.Assign) and any(
          isinstance(t, ast.Subscript) and unparse(t.value) == table
          for t in g.stmt[n].targets)]
  if table is None or not stores:
    raise AnalysisError(f'{sf.qualname}: shared-node table not found')
  # names holding the ids of the user-chosen sub-fixtures
  subs_p = sf.params[1]
  sub_ids = roles.assigned_from(sf, lambda e: isinstance(
      e, (ast.SetComp, ast.ListComp, ast.GeneratorExp, ast.Call)) and (
          f'{subs_p}.values()' in unparse(e)) and 'id(' in unparse(e))

  def is_sub_fixture(v):
    def ev(t):
      if isinstance(t, ast.Compare) and len(t.ops) == 1 and isinstance(
          t.ops[0], (ast.In, ast.NotIn)) and unparse(
              t.comparators[0]) in sub_ids:
        return v if isinstance(t.ops[0], ast.In) else not v
      return None
    return ev

  for n in stores:
    # the store is reachable for a node that is itself a sub-fixture, or a
    # raise is: such a node is not silently left out
    r = dispatch.reach_atoms(g, is_sub_fixture(True))
    ok = n in r or any(isinstance(g.stmt[m], ast.Raise) for m in r
                       if g.kind[m] == 'stmt')
    rs.check(ok, rule, f'{sf.qualname}:sub-fixture-as-shared-node',
             'a shared value that is a sub-fixture is recorded or rejected'
             if ok else
             'a value found to be used by two generated functions is left '
             'out of the shared nodes when it is one of the user\'s '
             'sub-fixtures: each function then calls the sub-fixture on its '
             'own and the executed module builds one object per call',
             ctx.loc(sf, g.stmt[n]))
  mark = None
  for h in sf.nested.values():
    if any(isinstance(c, ast.Call) and isinstance(
        c.func, ast.Attribute) and c.func.attr == 'add'
           for c in walk_function(h.node)):
      mark = h
  if mark is None:
    raise AnalysisError(f'{sf.qualname}: marking callback not found')
  gm = ctx.cfg(mark)
  adds = {n for n in gm.nodes() if any(
      isinstance(c, ast.Call) and isinstance(c.func, ast.Attribute) and
      c.func.attr == 'add' for c in cfg_lib.walk_node(gm, n))}
  rets_m = [n for n in gm.nodes() if isinstance(gm.stmt[n], ast.Return)]
  ok = bool(adds) and all(gm.dominated_by(n, adds, labels=cfg_lib.NO_EXC)
                          for n in rets_m)
  rs.check(ok, rule, f'{sf.qualname}:marks-every-node',
           'every node the top-level function reaches is marked as used by '
           'it' if ok else
           'the marking of what the top-level function uses returns early '
           'for sub-fixtures: a sub-fixture used by the top-level function '
           'and by another sub-fixture is not seen as shared, both call it, '
           'and the executed module builds two objects',
           ctx.loc(mark, mark.node))


def run(ctx: Ctx, rs: RuleSet, tier: str):
  p = ctx.p
  # ---- LIT
  rule = 'LIT.repr-as-source'
  rs.declare(rule, 'repr(value) is used as expression source only where it '
             'is always a literal', 4)
  convs = registered_converters(ctx)
  if len(convs) < 15:
    raise AnalysisError(f'only {len(convs)} registered converters found')
  helpers = {f.name: f for f in ctx.mod(PV).all_funcs if not f.is_lambda}
  for f, matchers in convs:
    uses_repr = [c for c in ctx.calls(f) if isinstance(c.func, ast.Name) and
                 c.func.id == 'repr' and c.args and f.params[0] in unparse(
                     c.args[0])]
    # repr reached through a local helper (e.g. _float_source)
    via_helper = [c for c in ctx.calls(f) if isinstance(c.func, ast.Name) and
                  c.func.id in helpers and helpers[c.func.id] is not f and any(
                      isinstance(x, ast.Call) and isinstance(
                          x.func, ast.Name) and x.func.id == 'repr'
                      for x in walk_function(helpers[c.func.id].node))]
    if not uses_repr and not via_helper:
      continue
    scopes = [f] + [helpers[c.func.id] for c in via_helper]
    guarded = all(any(
        isinstance(c, ast.Call) and unparse(c.func) in (
            'math.isfinite', 'math.isnan', 'math.isinf')
        for c in walk_function(s.node)) for s in scopes if any(
            isinstance(x, ast.Call) and isinstance(x.func, ast.Name) and
            x.func.id == 'repr' for x in walk_function(s.node))) if (
                via_helper or uses_repr) else False
    literal = all(m in REPR_IS_LITERAL for m in matchers)
    rs.check(literal or guarded, rule, f'{f.qualname}:{"|".join(matchers)}',
             f'repr() used for {matchers}: ' + (
                 'always a literal' if literal else
                 'non-finite values are handled separately' if guarded else
                 'repr of a non-finite value (inf, -inf, nan) is a name, not '
                 'a literal: the emitted expression raises NameError or '
                 'picks up an unrelated variable'), ctx.loc(f, f.node))

  # ---- parameters of a generated function are distinct
  rule = 'WMC.unique-parameters'
  rs.declare(rule, 'a code_ir.Parameter is added to a generated function only '
             'once per name', 1)
  n_par = 0
  for modname in sorted(ctx.p.modules):
    if not modname.startswith(AC + '.'):
      continue
    for f in ctx.mod(modname).all_funcs:
      gpf = None
      for c in ctx.calls(f):
        if not (isinstance(c.func, ast.Attribute) and c.func.attr == 'append' and
                c.args and isinstance(c.args[0], ast.Call) and unparse(
                    c.args[0].func).endswith('code_ir.Parameter')):
          continue
        n_par += 1
        gpf = gpf or ctx.cfg(f)
        node = next((n for n in gpf.nodes() if any(
            e is c for e in cfg_lib.walk_node(gpf, n))), None)
        # inside a loop: either the iteration visits each object once
        # (memoized) or a membership test on the names guards the append
        loops = [m for m in gpf.nodes() if gpf.kind[m] == 'for' and node in
                 gpf.reach([x for x, lab in gpf.succ[m] if lab == 'iter'],
                           blocked={m}, labels=cfg_lib.NO_EXC)]
        unmemoized = [m for m in loops if any(
            isinstance(k, ast.keyword) and k.arg == 'memoized' and isinstance(
                k.value, ast.Constant) and k.value.value is False
            for k in ast.walk(gpf.stmt[m].iter))]
        def _exclusive(m):
          # the append lies on exactly one branch of the membership test
          t = gpf.reach([y for y, lab in gpf.succ[m] if lab == 'true'],
                        blocked={m} | set(loops), labels=cfg_lib.NO_EXC)
          e = gpf.reach([y for y, lab in gpf.succ[m] if lab == 'false'],
                        blocked={m} | set(loops), labels=cfg_lib.NO_EXC)
          return (node in t) != (node in e)

        recv = c.func.value
        while isinstance(recv, (ast.Subscript, ast.Attribute)):
          recv = recv.value
        recv_name = recv.id if isinstance(recv, ast.Name) else unparse(recv)
        guarded = any(gpf.kind[m] == 'if' and any(
            isinstance(x, ast.Compare) and isinstance(
                x.ops[0], (ast.NotIn, ast.In)) and any(
                    isinstance(y, ast.Name) and y.id == recv_name
                    for y in ast.walk(x.comparators[0]))
            for x in ast.walk(gpf.stmt[m].test))
                      and _exclusive(m) and any(
                          m in gpf.reach([y for y, lab in gpf.succ[h]
                                          if lab == 'iter'], blocked={h},
                                         labels=cfg_lib.NO_EXC)
                          for h in unmemoized)
                      for m in gpf.nodes())
        ok = not unmemoized or guarded
        rs.check(ok, rule, f'{f.qualname}:`{norm_text(f, c, 50)}`',
                 'appended once per name' if ok else
                 f'`{unparse(c)[:60]}` runs inside an un-memoized traversal, '
                 'which reaches a sub-fixture once per reference: a '
                 'sub-fixture used twice gets the same parameter twice '
                 '(`def b(foo, foo)` - the generated module does not compile)',
                 ctx.loc(f, c))
  if n_par == 0:
    raise AnalysisError('no code_ir.Parameter append found')

  # ---- the emitted with_tags call fits with_tags' signature
  rule = 'AGREE.with-tags-arity'
  rs.declare(rule, 'auto_config.with_tags(...) is emitted with the arguments '
             'its definition accepts', 1)
  wt = ctx.func('fiddle._src.experimental.with_tags.with_tags')
  fixed_arity = (wt.node.args.vararg is None, len(wt.params))
  em2 = ctx.func(f'{AC}.ir_to_cst.code_for_expr.traverse')
  per_tag = False
  for n in walk_function(em2.node):
    if isinstance(n, ast.If) and 'WithTagsCall' in unparse(n.test):
      for L in ast.walk(n):
        if isinstance(L, ast.For) and any(
            isinstance(c, ast.Call) and isinstance(c.func, ast.Attribute) and
            c.func.attr == 'append' and 'cst.Arg' in unparse(c)
            for c in ast.walk(L)):
          per_tag = True
  ok = not (per_tag and fixed_arity[0])
  rs.check(ok, rule, f'{em2.qualname}:WithTagsCall',
           'one argument for the tags' if ok else
           'one positional argument is emitted per tag, but with_tags(value, '
           f'tags) takes exactly {fixed_arity[1]} parameters: an argument with '
           'two tags is emitted as auto_config.with_tags(v, ATag, BTag), which '
           'raises TypeError when the generated module runs',
           ctx.loc(em2, em2.node))

  # ---- names emitted as builtins are builtins
  import builtins as _builtins
  rule = 'LIT.builtin-reference'
  rs.declare(rule, 'a name emitted as a BuiltinReference (no import) is a '
             'Python builtin', 3)
  for modname in sorted(ctx.p.modules):
    if not modname.startswith(CG + '.') or modname.endswith('_test'):
      continue
    mod = ctx.mod(modname)
    for f in mod.all_funcs:
      seen_names = {}
      for c in ctx.calls(f):
        if not (unparse(c.func).endswith('BuiltinReference') and c.args):
          continue
        a = c.args[0]
        inner = a.args[0] if isinstance(a, ast.Call) and a.args else a
        names = []
        if isinstance(inner, ast.Constant) and isinstance(inner.value, str):
          names = [inner.value]
        elif isinstance(inner, ast.IfExp):
          names = [x.value for x in (inner.body, inner.orelse)
                   if isinstance(x, ast.Constant)]
        elif isinstance(inner, ast.Subscript) and isinstance(
            inner.value, ast.Name) and isinstance(
                mod.assigns.get(inner.value.id), ast.Dict):
          names = [v.value for v in mod.assigns[inner.value.id].values
                   if isinstance(v, ast.Constant)]
        else:
          continue  # a name computed elsewhere (e.g. from a real builtin)
        for nm in names:
          k = seen_names.get(nm, 0)
          seen_names[nm] = k + 1
          ok = hasattr(_builtins, nm)
          # one construct per module and emitted name: where in the module the
          # name is emitted is an implementation detail
          rs.check(ok, rule, f'{modname}:{nm}',
                   f'`{nm}` is a builtin' if ok else
                   f'`{nm}` is emitted as a bare name without an import but '
                   'is not a builtin: the generated module raises NameError '
                   f'when the annotation is evaluated (`-> dict[str, {nm}]`)',
                   ctx.loc(f, c))

  # ---- number tokens are unsigned: signed parts need another form
  rule = 'LIT.signed-literal'
  rs.declare(rule, 'cst.Float / cst.Imaginary tokens are built from repr() '
             'only for parts whose sign bit is clear', 1)
  n_tok = 0
  for f, matchers in convs:
    gtok = ctx.cfg(f)
    for n in gtok.nodes():
      toks = [e for e in cfg_lib.walk_node(gtok, n) if isinstance(e, ast.Call)
              and unparse(e.func) in ('cst.Float', 'cst.Imaginary',
                                      'cst.Integer') and any(
                  isinstance(x, ast.Call) and isinstance(x.func, ast.Name) and
                  x.func.id == 'repr' for a in e.args for x in ast.walk(a))]
      for tk in toks:
        n_tok += 1
        parts = {x.attr for a in tk.args for x in ast.walk(a)
                 if isinstance(x, ast.Attribute) and x.attr in ('real', 'imag')}
        if not parts:
          parts = {'real', 'imag'} if 'complex' in matchers else set()
        # every path to the token passes the false branch of a sign test on
        # each part it prints
        guarded = set()
        for m in gtok.nodes():
          if gtok.kind[m] != 'if':
            continue
          t = gtok.stmt[m].test
          tested = {x.attr for c in ast.walk(t) if (
              (isinstance(c, ast.Call) and unparse(c.func).endswith('copysign'))
              or (isinstance(c, ast.Compare) and isinstance(
                  c.ops[0], (ast.Lt, ast.GtE)))) for x in ast.walk(c)
                    if isinstance(x, ast.Attribute) and x.attr in (
                        'real', 'imag')}
          if tested and gtok.dominated_by(n, {m}, labels=cfg_lib.NO_EXC) and (
              n not in gtok.reach([x for x, lab in gtok.succ[m]
                                   if lab == 'true'], blocked={m},
                                  labels=cfg_lib.NO_EXC)):
            guarded |= tested
        ok = parts <= guarded
        rs.check(ok, rule, f'{f.qualname}:`{norm_text(f, tk, 50)}`',
                 f'reached only when the sign bit of {sorted(parts)} is clear'
                 if ok else
                 f'`{unparse(tk)[:60]}` builds a number token from repr() of '
                 f'a part ({sorted(parts - guarded)}) that may be negative or '
                 '-0.0: libcst rejects the token (1.5-2j, complex(-0.0, 1.0) '
                 'cannot be emitted although complex is a supported type)',
                 ctx.loc(f, tk))
  if n_tok == 0:
    raise AnalysisError('no cst.Float / cst.Imaginary token built from repr()')

  # ---- container literals are emitted for exact builtin types only
  rule = 'TYPE.exact-container-literal'
  rs.declare(rule, 'the expression emitter writes a list / tuple / dict '
             'display only for values whose type is exactly that builtin '
             '(subclasses such as NamedTuple, OrderedDict, defaultdict are '
             'rejected, not emitted as the plain container)', 2)
  em = ctx.func(f'{AC}.ir_to_cst.code_for_expr.traverse')
  vp_ = em.params[0]
  BUILTIN = {'list', 'tuple', 'dict', 'set', 'frozenset'}
  gem = ctx.cfg(em)

  def _type_test(t):
    # isinstance(value, <builtin container>) / type(value) in|is|== <...>
    if isinstance(t, ast.Call) and unparse(t.func) == 'isinstance' and len(
        t.args) == 2 and unparse(t.args[0]) == vp_ and ({unparse(x) for x in (
            t.args[1].elts if isinstance(t.args[1], ast.Tuple)
            else [t.args[1]])} & BUILTIN):
      return 'loose'
    if isinstance(t, ast.Compare) and len(t.ops) == 1 and unparse(
        t.left) == f'type({vp_})' and isinstance(
            t.ops[0], (ast.Is, ast.In, ast.Eq)):
      return 'exact'
    return None

  tests = []  # (if node, 'loose'|'exact', nodes only reachable when it holds)
  for m in gem.nodes():
    if gem.kind[m] != 'if':
      continue
    kinds_ = {_type_test(x) for x in ast.walk(gem.stmt[m].test)} - {None}
    if not kinds_:
      continue
    lab_p = roles.branch_when(gem.stmt[m].test,
                              lambda x: _type_test(x) is not None)
    if lab_p is None:
      continue
    pos = gem.reach([x for x, lab in gem.succ[m] if lab == lab_p],
                    labels=cfg_lib.NO_EXC)
    neg = gem.reach([x for x, lab in gem.succ[m] if lab != lab_p and
                     lab != 'exc'], labels=cfg_lib.NO_EXC)
    tests.append((m, 'exact' if kinds_ == {'exact'} else 'loose', pos - neg))
  sites = 0
  for n in gem.nodes():
    if gem.kind[n] != 'stmt':
      continue
    disp = [c for c in cfg_lib.walk_node(gem, n) if isinstance(
        c, ast.Attribute) and isinstance(c.value, ast.Name) and
            c.value.id == 'cst' and c.attr in ('List', 'Tuple', 'Dict', 'Set')]
    if not disp:
      continue
    gov = [(m, k) for m, k, region in tests if n in region]
    if not gov:
      continue
    sites += 1
    exact = any(k == 'exact' for _, k in gov)
    t = gem.stmt[gov[0][0]].test
    rs.check(exact, rule, f'{em.qualname}:cst.{disp[0].attr}',
             'emitted only under an exact type test' if exact else
             f'cst.{disp[0].attr} is emitted under `{unparse(t)[:60]}`, which '
             'also admits subclasses of the builtin container: a NamedTuple '
             'argument is emitted as a plain tuple and an OrderedDict / '
             'defaultdict as a plain dict - the generated module runs but '
             'yields a value of another type', ctx.loc(em, gem.stmt[n]))
  if sites < 2:
    raise AnalysisError(f'{em.qualname}: container display branches not found')

  # ---- slice(...) expressions: exact for every None-ness of start/stop/step
  rule = 'LIT.slice-arguments'
  rs.declare(rule, 'the slice converter emits a slice(...) call equal to the '
             'value for all 8 combinations of None / non-None start, stop, '
             'step', 8)
  sf = ctx.func(f'{PV}._convert_slice')
  vp, cf = sf.params[0], sf.params[1]
  attrs = ['start', 'stop', 'step']
  for case in noneness.cases(attrs):
    it = noneness.Interp(vp, attrs, case)
    label = ','.join(f'{a}={"None" if case[a] else "set"}' for a in attrs)
    try:
      ret = it.run(sf.node.body)
      if not (isinstance(ret, ast.Call) and unparse(ret.func) == 'cst.Call'):
        raise noneness.Unsupported('the converter does not return cst.Call(...)')
      fn = kwarg(ret, 'func') or (ret.args[0] if ret.args else None)
      is_slice = (isinstance(fn, ast.Call) and unparse(fn.func) == 'cst.Name'
                  and fn.args and isinstance(fn.args[0], ast.Constant) and
                  fn.args[0].value == 'slice')
      args_e = kwarg(ret, 'args') or (ret.args[1] if len(ret.args) > 1 else None)
      emitted = []

      def _arg_value(a, env_extra=None):
        # cst.Arg(conversion_fn(<expr>))
        if not (isinstance(a, ast.Call) and unparse(a.func) == 'cst.Arg' and
                a.args and isinstance(a.args[0], ast.Call) and
                unparse(a.args[0].func) == cf and len(a.args[0].args) == 1):
          raise noneness.Unsupported(f'argument `{unparse(a)[:50]}`')
        return a.args[0].args[0]

      if isinstance(args_e, ast.List):
        emitted = [it.ev(_arg_value(a)) for a in args_e.elts]
      elif isinstance(args_e, ast.ListComp) and len(
          args_e.generators) == 1 and not args_e.generators[0].ifs and isinstance(
              args_e.generators[0].target, ast.Name):
        tv = args_e.generators[0].target.id
        for x in it.ev(args_e.generators[0].iter):
          it.env[tv] = x
          emitted.append(it.ev(_arg_value(args_e.elt)))
      else:
        raise noneness.Unsupported('args= is neither a list nor a '
                                   'comprehension over a list')
    except noneness.Unsupported as e:
      raise AnalysisError(f'_convert_slice cannot be interpreted: {e}')
    # what slice(*emitted) denotes
    if len(emitted) == 1:
      denotes = [None, emitted[0], None]
    elif len(emitted) == 2:
      denotes = [emitted[0], emitted[1], None]
    elif len(emitted) == 3:
      denotes = list(emitted)
    else:
      denotes = None
    want = [it.atoms[a] for a in attrs]

    def same(d, w):
      if d is None:
        return w.is_none
      return isinstance(d, noneness.Atom) and d is w
    ok = is_slice and denotes is not None and all(
        same(d, w) for d, w in zip(denotes, want))
    rs.check(ok, rule, f'{sf.qualname}:{label}',
             f'emits slice({", ".join(map(repr, emitted))})' if ok else
             f'for a slice with {label} the converter emits '
             f'slice({", ".join(a.name if isinstance(a, noneness.Atom) else repr(a) for a in emitted)}), '
             f'which Python reads as start={denotes[0] if denotes else "?"}, '
             f'stop={denotes[1] if denotes else "?"}, '
             f'step={denotes[2] if denotes else "?"}: not the value it was '
             'given', ctx.loc(sf, sf.node))

  # ---- EXH: loud defaults
  rule = 'EXH.loud-codegen'
  rs.declare(rule, 'unsupported values are rejected; pass callbacks return '
             'on every path', 8)
  conv = ctx.func(f'{PV}._PyValToCstConverter.convert')
  g = ctx.cfg(conv)
  last = conv.node.body[-1]
  rets = [g.stmt[n] for n in g.nodes() if isinstance(g.stmt[n], ast.Return)]
  none_guard = all(isinstance(r.value, ast.Name) for r in rets) and any(
      g.kind[n] == 'if' and 'is not None' in unparse(g.stmt[n].test)
      for n in g.nodes())
  rs.check(isinstance(last, ast.Raise) and none_guard, rule, conv.qualname,
           'a converter result is returned only if it is not None; when no '
           'converter accepts the value a ValueError is raised',
           ctx.loc(conv, conv.node))
  ce = ctx.func(f'{AC}.ir_to_cst.code_for_expr.traverse')
  gce = ctx.cfg(ce)
  from fdlstatic import dispatch

  def _raises_when(atom_pred):
    """(test text, the branch on which the atom holds always raises)."""
    out = []
    for n in gce.nodes():
      if gce.kind[n] != 'if':
        continue
      lab_t = roles.branch_when(gce.stmt[n].test, atom_pred)
      if lab_t is None:
        continue
      r = gce.reach([x for x, lab in gce.succ[n] if lab == lab_t],
                    labels=cfg_lib.NO_EXC)
      out.append((unparse(gce.stmt[n].test),
                  gce.exit not in r and gce.raise_exit in r))
    return out

  src_tests = _raises_when(lambda t: isinstance(t, ast.Call) and unparse(
      t.func) == 'isinstance' and len(t.args) == 2 and unparse(
          t.args[1]).endswith('Buildable')) + _raises_when(
              lambda t: isinstance(t, ast.Call) and unparse(t.func).endswith(
                  'is_traversable'))
  rs.check(any('config_lib.Buildable' in t and r for t, r in src_tests), rule,
           f'{ce.qualname}:buildable',
           'a Buildable that was not lowered to IR raises',
           ctx.loc(ce, ce.node))
  rs.check(any('is_traversable(value)' in t and r for t, r in src_tests), rule,
           f'{ce.qualname}:unknown-traversable',
           'an unknown traversable node raises NotImplementedError',
           ctx.loc(ce, ce.node))
  # bare `except:` re-raises
  ok = True
  for n in walk_function(ce.node):
    if isinstance(n, ast.ExceptHandler):
      ok = ok and isinstance(n.body[-1], ast.Raise) and n.body[-1].exc is None
  rs.check(ok, rule, f'{ce.qualname}:reraise',
           'conversion errors are re-raised', ctx.loc(ce, ce.node))
  n_cb = 0
  for modname in sorted(ctx.p.modules):
    if not (modname.startswith(AC + '.') or modname in (
        f'{CG}.new_codegen', f'{CG}.newcg_symbolic_references')):
      continue
    for f in ctx.mod(modname).all_funcs:
      if f.is_lambda or not isinstance(f.parent, FuncInfo):
        continue
      if len(f.params) < 2 or not any(
          pn in ('state',) for pn in f.params[1:2]):
        continue
      miss = implicit_none_paths(ctx, f)
      if miss is None:
        continue
      n_cb += 1
      rs.check(not miss, rule, f.qualname,
               'every path returns a value or raises' if not miss else
               'a path falls off the end of the callback (implicit None is '
               'spliced into the generated tree)', ctx.loc(f, f.node),
               witness=miss or None)

  # ---- ORD
  rule = 'ORD.declare-before-use'
  rs.declare(rule, 'variables are declared after their sub-expressions and '
             'emitted before the return', 4)
  for q in (f'{AC}.shared_to_variables.move_shared_nodes_to_variables._process_fn.traverse',
            f'{AC}.complex_to_variables.move_complex_nodes_to_variables._process_fn.traverse'):
    f = ctx.func(q)
    g = ctx.cfg(f)
    val = f.params[0]
    rebuilt = {n for n in g.nodes() if isinstance(g.stmt[n], ast.Assign) and
               unparse(g.stmt[n].targets[0]) == val and
               unparse(g.stmt[n].value) == f'{f.params[1]}.map_children({val})'}
    decls = []
    for n in g.nodes():
      for e in cfg_lib.walk_node(g, n):
        if isinstance(e, ast.Call) and isinstance(
            e.func, ast.Attribute) and e.func.attr == 'append' and e.args and (
                isinstance(e.args[0], ast.Call)) and unparse(
                    e.args[0].func).endswith('VariableDeclaration'):
          decls.append((n, e.args[0]))
    ok = bool(decls) and bool(rebuilt)
    for n, d in decls:
      ok = ok and g.dominated_by(n, rebuilt, labels=cfg_lib.NO_EXC) and len(
          d.args) == 2 and unparse(d.args[1]) == val
    rs.check(ok, rule, f'{q}:post-order',
             'the declaration is appended after state.map_children(value) and '
             'holds the rebuilt value: variables it mentions were declared '
             'earlier', ctx.loc(f, f.node))
  cm = ctx.func(f'{AC}.complex_to_variables.move_complex_nodes_to_variables._process_fn')
  ok = False
  fn_p = cm.params[0]
  # the list that becomes fn.variables
  newvars = {unparse(st.value) for st in walk_function(cm.node)
             if isinstance(st, ast.Assign) and unparse(
                 st.targets[0]) == f'{fn_p}.variables' and isinstance(
                     st.value, ast.Name)}
  for n in walk_function(cm.node):
    if isinstance(n, ast.For) and unparse(n.iter) == f'{fn_p}.variables' and (
        isinstance(n.target, ast.Name)):
      var = n.target.id
      # position of the traversal of the variable (which appends what it
      # extracts) and of the re-append of the rewritten variable
      idx_t, idx_a, rew = [], [], set()
      for i, st in enumerate(n.body):
        if isinstance(st, ast.Assign) and isinstance(
            st.value, ast.Call) and unparse(st.value.func).endswith(
                'MemoizedTraversal.run') and len(
                    st.value.args) == 2 and unparse(st.value.args[1]) == var:
          idx_t.append(i)
          rew |= {t.id for t in st.targets if isinstance(t, ast.Name)}
        if isinstance(st, ast.Expr) and isinstance(
            st.value, ast.Call) and isinstance(
                st.value.func, ast.Attribute) and (
                    st.value.func.attr == 'append') and unparse(
                        st.value.func.value) in newvars and st.value.args and (
                            unparse(st.value.args[0]) in rew):
          idx_a.append(i)
      ok = bool(idx_t) and bool(idx_a) and idx_t[0] < idx_a[-1]
  rs.check(ok, rule, f'{cm.qualname}:existing-variables',
           'an existing variable is re-appended after the variables extracted '
           'from its own expression', ctx.loc(cm, cm.node))
  sm = ctx.func(f'{AC}.shared_to_variables.move_shared_nodes_to_variables._process_fn')
  sm_new = roles.assigned_from(sm, lambda e: isinstance(e, ast.List) and
                               not e.elts)
  ok = any(unparse(c.func) == f'{sm.params[0]}.variables.extend' and
           len(c.args) == 1 and unparse(c.args[0]) in sm_new
           for c in ctx.calls(sm))
  rs.check(ok, rule, f'{sm.qualname}:append',
           'new shared-value variables are appended after the existing ones',
           ctx.loc(sm, sm.node), nontrivial=False)
  cf = ctx.func(f'{AC}.ir_to_cst.code_for_fn')
  ok = False
  lines_var, comp_ok = None, False
  for n in walk_function(cf.node):
    if isinstance(n, ast.Call) and unparse(n.func) == 'cst.IndentedBlock':
      body = kwarg(n, 'body')
      if isinstance(body, ast.List) and len(body.elts) == 2 and isinstance(
          body.elts[0], ast.Starred) and 'cst.Return(' in unparse(
              body.elts[1]):
        lines = roles.deref(cf, body.elts[0].value)
        if isinstance(lines, ast.ListComp):
          # one line per declaration, in order, none filtered out
          ok = True
          lines_var = None
          comp_ok = len(lines.generators) == 1 and unparse(
              lines.generators[0].iter) == f'{cf.params[0]}.variables' and (
                  not lines.generators[0].ifs)
        elif isinstance(body.elts[0].value, ast.Name):
          ok = True
          lines_var = body.elts[0].value.id
  loop_ok = ok and ((lines_var is None and comp_ok) or (
      lines_var is not None and any(
          isinstance(n, ast.For) and
          unparse(n.iter) == f'{cf.params[0]}.variables'
          and any(isinstance(c, ast.Call) and unparse(c.func) == (
              f'{lines_var}.append') for st in n.body for c in ast.walk(st))
          for n in walk_function(cf.node))))
  rs.check(ok and loop_ok, rule, f'{cf.qualname}:body',
           'body = [*variable declarations in fn.variables order, return '
           '<output>]', ctx.loc(cf, cf.node))

  # ---- WMC names
  rule = 'WMC.generated-names'
  rs.declare(rule, 'generated identifiers come from a Namer built on the '
             'task namespace', 2)
  sites = []
  for modname in sorted(ctx.p.modules):
    if not modname.startswith(AC + '.'):
      continue
    for f in ctx.mod(modname).all_funcs:
      for c in ctx.calls(f):
        if unparse(c.func).endswith('code_ir.Name') and any(
            k.arg == 'is_generated' and isinstance(k.value, ast.Constant) and
            k.value.value is True for k in c.keywords):
          sites.append((f, c))
  for f, c in sites:
    a0 = c.args[0] if c.args else None
    ok = False
    if isinstance(a0, ast.Name):
      defs = [s for s in walk_function(f.node) if isinstance(s, ast.Assign) and
              unparse(s.targets[0]) == a0.id]
      def from_allocator(v):
        return any(isinstance(x, ast.Call) and (
            (isinstance(x.func, ast.Attribute) and
             x.func.attr in ('name_for', 'get_new_name')) or
            (isinstance(x.func, ast.Name) and x.func.id == 'get_new_name'))
                   for x in ast.walk(v)) or unparse(v).startswith(
                       'code_ir.Name(')

      ok = bool(defs) and all(from_allocator(d.value) for d in defs)
    elif a0 is not None:
      ok = any(isinstance(x, ast.Call) and isinstance(
          x.func, ast.Attribute) and x.func.attr in ('name_for', 'get_new_name')
               for x in ast.walk(a0))
    if not ok and f.qualname.endswith(
        'sub_fixture._transform_sub_fixtures.traverse'):
      # user-chosen sub-fixture names: accepted iff the public entry point
      # rejects names that collide with existing ones
      tsf = ctx.func(f'{AC}.sub_fixture.transform_sub_fixtures')
      gg = ctx.cfg(tsf)
      checks = [n for n in gg.nodes() if gg.kind[n] == 'if' and
                'in existing_names' in unparse(gg.stmt[n].test)]
      ok = bool(checks) and all(
          gg.exit not in gg.reach(
              [x for x, lab in gg.succ[n] if lab == 'true'], blocked={n},
              labels=cfg_lib.NO_EXC) for n in checks)
      if ok:
        rs.exception(rule, f.qualname, 'sub-fixture names are chosen by the '
                     'caller; transform_sub_fixtures raises on a collision '
                     'with an existing name (re-verified)')
    rs.check(ok, rule, f'{f.qualname}:`{unparse(c)[:50]}`',
             'the identifier was obtained from the namer / namespace' if ok
             else f'`{unparse(c)}`: the generated name does not come from the '
             'namespace allocator and may collide', ctx.loc(f, c))

  # ---- names in scope: the allocator knows the function's own names
  rule = 'WMC.namer-scope'
  rs.declare(rule, 'a Namer that issues variable names for a fixture function '
             'is built on the task-level names and that function\'s '
             'parameters / variables', 3)
  for modname in sorted(ctx.p.modules):
    if not modname.startswith(AC + '.'):
      continue
    for f in ctx.mod(modname).all_funcs:
      for c in ctx.calls(f):
        if not (isinstance(c.func, ast.Name) and len(c.args) == 1 and (
            c.func.id == 'make_namer' or (not f.is_lambda and unparse(
                roles.deref(f, c.func)) == 'make_namer'))):
          continue
        a = c.args[0]
        if not (isinstance(a, ast.Call) and unparse(a.func).endswith(
            'Namespace') and len(a.args) == 1):
          rs.fail(rule, f'{f.qualname}:make_namer',
                  f'`{unparse(c)[:70]}`: the namespace is not seeded with '
                  'the names already in scope', ctx.loc(f, c))
          continue
        need = {'get_task_existing_names', 'get_fn_existing_names'}
        src_sets = _name_source_sets(ctx, f, a.args[0])
        missing = sorted({m for ss in src_sets for m in need - ss})
        srcs = set.intersection(*src_sets)
        rs.check(not missing, rule, f'{f.qualname}:make_namer',
                 f'`{unparse(a)[:60]}` is seeded from {sorted(srcs & need)}'
                 if not missing else
                 f'`{unparse(a)[:60]}` is not seeded from {missing}: a new '
                 'variable can take the name of a parameter or variable of '
                 'the function it is declared in and shadow it (the emitted '
                 'module runs but yields a different configuration)',
                 ctx.loc(f, c))

  # ---- tags: with_tags only means something inside an auto_config function
  rule = 'EXH.tags-expressible'
  rs.declare(rule, 'auto_config.with_tags(...) is emitted only by the '
             'auto_config generator; both generators read the argument tags', 3)
  for modname in sorted(ctx.p.modules):
    if not modname.startswith(CG + '.') or modname.endswith('_test'):
      continue
    mod = ctx.mod(modname)
    for f in mod.all_funcs:
      for c in ctx.calls(f):
        if ctx.p.resolve(c.func, f) == f'{AC}.code_ir.WithTagsCall':
          ok = modname.startswith(AC + '.')
          rs.check(ok, rule, f'{f.qualname}:WithTagsCall',
                   'built by a pass of the auto_config generator' if ok else
                   'a pass of the plain fdl.Config generator builds a '
                   'WithTagsCall node, emitted as auto_config.with_tags(value, '
                   'tags): outside an auto_config function that call returns '
                   'the bare value (and the generated module does not import '
                   'auto_config), so the tags are lost or the module fails '
                   'with NameError', ctx.loc(f, c))
  for q in (f'{AC}.make_symbolic_references.'
            'replace_callables_and_configs_with_symbols.traverse',
            f'{CG}.newcg_symbolic_references.'
            'replace_callables_and_configs_with_symbols.traverse'):
    f = ctx.func(q)
    reads = [n for n in walk_function(f.node) if isinstance(
        n, ast.Attribute) and n.attr == '__argument_tags__']
    rs.check(bool(reads), rule, f'{q}:reads-tags',
             'the pass that turns Buildables into calls reads their argument '
             'tags' if reads else 'argument tags are never read: the emitted '
             'code silently drops them', ctx.loc(f, f.node))

  # ---- imports are reserved before names are handed out
  rule = 'AGREE.import-prepass'
  rs.declare(rule, 'every kind of symbol the emitting pass imports was '
             'already imported by the early import_symbols pass (variable '
             'names are allocated in between and must avoid module aliases)',
             2)
  for modq in (f'{AC}.make_symbolic_references',
               f'{CG}.newcg_symbolic_references'):
    pre = ctx.func(f'{modq}.import_symbols')
    emit = ctx.func(f'{modq}.replace_callables_and_configs_with_symbols.traverse')
    cp, ce = _import_categories(ctx, pre), _import_categories(ctx, emit)
    missing = sorted(ce - cp - {'other'})
    rs.check(not missing and bool(ce), rule, f'{modq}:categories',
             f'emitting pass imports {sorted(ce)}; pre-pass imports '
             f'{sorted(cp)}' if not missing else
             f'the emitting pass imports {missing} symbols that the early '
             'import_symbols pass does not: their module alias is only '
             'reserved after the naming passes ran, so an extracted variable '
             'can take the name of that module and shadow it in the generated '
             'function (AttributeError / wrong object when executed)',
             ctx.loc(pre, pre.node))

  # ---- references to classes / functions use the qualified name
  rule = 'LIT.qualified-reference'
  rs.declare(rule, 'source references to importable objects are built from '
             '__qualname__; __name__ is read of modules only', 3)
  for modname in (f'{CG}.import_manager', PV):
    for f in ctx.mod(modname).all_funcs:
      if f.is_lambda:
        continue
      for n in walk_function(f.node):
        if isinstance(n, ast.Attribute) and n.attr == '__name__' and isinstance(
            n.ctx, ast.Load):
          ok = _is_module_expr(ctx, f, n.value)
          rs.check(ok, rule, f'{f.qualname}:`{unparse(n)[:50]}`',
                   'the name of a module' if ok else
                   f'`{unparse(n)}` is used to build a source reference: '
                   'for a class or function nested in another class '
                   '__name__ is not its access path (__qualname__ is), so the '
                   'emitted expression names a different object or none',
                   ctx.loc(f, n))
  add = ctx.func(f'{CG}.import_manager.ImportManager.add')
  rets = [r for r in walk_function(add.node) if isinstance(r, ast.Return)]
  srcs_ok = bool(rets) and all(
      '__qualname__' in _expr_sources_text(add, r.value) for r in rets)
  rs.check(srcs_ok, rule, f'{add.qualname}:returns',
           'every returned reference is derived from __qualname__',
           ctx.loc(add, add.node))

  # ---- an unaliased `import a.b` may share the name `a` with an existing
  # import only if that import binds `a` to the *module a*: decided by the
  # full module name of the existing import, not by the name it binds (`from
  # pkg import a` binds `a` too, to another module)
  rule_i = 'AGREE.import-compatibility'
  rs.declare(rule_i, 'two imports share a top-level name only when both bind '
             'it to the same top-level module', 1)
  ce = ctx.func(f'{CG}.import_manager.ImportManager._compatible_with_existing')
  ok_c = False
  why_c = 'no comparison of an existing import with the new one found'
  for L in walk_function(ce.node):
    if not (isinstance(L, ast.For) and isinstance(L.target, ast.Name)):
      continue
    lv = L.target.id
    for r in walk_stmts(L.body):
      if isinstance(r, ast.Return) and r.value is not None:
        v = roles.deref_deep(ce, r.value)
        calls_on_existing = {unparse(c.func).split('.')[-1]
                             for c in ast.walk(v) if isinstance(c, ast.Call)
                             and [unparse(a) for a in c.args] == [lv]}
        ok_c = 'get_full_module_name' in calls_on_existing
        why_c = ('the existing import is judged by its full module name'
                 if ok_c else
                 f'`{unparse(r.value)[:70]}` judges the existing import by '
                 f'{sorted(calls_on_existing) or "something else"}, not by the '
                 'module it imports: after `from pkg import m`, a plain '
                 '`import m` is accepted without an alias and rebinds `m`, so '
                 'symbols of pkg.m resolve in the wrong module when the '
                 'generated code runs')
  rs.check(ok_c, rule_i, ce.qualname, why_c, ctx.loc(ce, ce.node))

  # ---- sharing across generated functions (sub-fixture pass)
  _sub_fixture_sharing(ctx, rs)

  # ---- KD
  c14.kd_rule(ctx, rs, 'KD.converter-keys', [
      f'{PV}._convert_buildable', f'{PV}._convert_namedtuple',
      f'{PV}._convert_partial'], 1)


MANIFEST = dict(
    text=('Decides structural clauses of C12: literal-emission closure of '
          'the value converters (repr-as-source only where repr is a '
          'literal, or guarded for non-finite values), loud defaults of the '
          'converter and emitter dispatch, no implicit-None paths in the '
          'tree-rewriting callbacks of the code generation passes, '
          'declaration-after-children and declarations-before-return '
          'ordering, allocator-issued identifiers, and key-kind discipline. '
          'Equality of the executed module\'s result with the input is not '
          'decided.'),
    note='Trusted: ast, CFG; libcst rendering.',
    technique='static analysis: literal-closure table, CFG all-paths-return rule, dominance (post-order declaration), who-may-construct names, key-kind dataflow',
)
