"""C03 - attribute, index and slice edits behave like a bound-argument list."""
from __future__ import annotations

import ast

from fdlstatic import cfg as cfg_lib
from fdlstatic.ctx import Ctx
from fdlstatic import roles
from fdlstatic.model import AnalysisError, norm_text, unparse, walk_function
from fdlstatic.nullness import NullAnalysis
from fdlstatic.report import RuleSet
from fdlstatic.rules import sigrules

SIGINFO = 'fiddle._src.signatures.SignatureInfo'
BUILDABLE = 'fiddle._src.config.Buildable'

EXPLANATION = (
    'Static clauses of C03 decided on the current source: (NULL) every value '
    'flowing from an Optional[...] property of SignatureInfo '
    '(var_positional_start, var_keyword_name) is tested for None on every '
    'path before it is used in an ordering comparison, arithmetic or range() '
    '(a callable without *args must not make index edits raise TypeError); '
    '(DOM) in each edit entry point the validation step dominates the first '
    'mutation of the argument store, and no explicit raise follows a mutation '
    'on the same path (rejected edits leave the arguments unchanged); (WMC) '
    'inside Buildable the argument store is written only through the two '
    'logging primitives; (EXH) __setitem__ dispatches int and slice keys and '
    'the key type is asserted; name validation rejects positional-only and '
    'variadic parameters and unknown names unless **kwargs exists; '
    '(PK) index_to_key maps exactly the positional-or-keyword parameters to '
    'their names. (DEFUSE) the *args compaction after a delete reads each moved value at '
    'the position recorded in the element that survived into the slot. Not '
    'decided: agreement with a list/dict reference model for every edit '
    'history.')
ASSUMPTIONS = [
    'truthiness of a value is accepted as a non-None fact on the true branch '
    'only',
    'the None-check analysis is intra-procedural; Optional sources are the '
    'properties of SignatureInfo annotated Optional[...]',
]


def optional_props(ctx: Ctx):
  ci = ctx.cls(SIGINFO)
  out = set()
  for name, m in ci.methods.items():
    decos = {getattr(d, 'id', getattr(d, 'attr', None)) for d in m.decorators}
    if 'property' in decos and m.node.returns is not None:
      r = m.node.returns
      txt = unparse(r)
      if txt.startswith('Optional[') or 'None' in txt:
        out.add(name)
  return out


def compaction_source(ctx: Ctx, rs: RuleSet):
  """DEFUSE: when deleting by index/slice compacts the *args tail, the value

  written to a slot is read from the store at the position recorded in the
  element that survived into that slot - not computed from lengths or a fixed
  offset (an extended slice removes non-adjacent positions, so no single
  offset is right).
  """
  rule = 'DEFUSE.compaction-source'
  rs.declare(rule, 'the *args compaction moves into each slot the value of '
             'the surviving element recorded for that slot', 1)
  f = ctx.func(f'{BUILDABLE}.__delitem__')
  survivors = {t.value.id for n in walk_function(f.node)
               if isinstance(n, ast.Delete) for t in n.targets
               if isinstance(t, ast.Subscript) and isinstance(
                   t.value, ast.Name)}
  sets = [c for c in ctx.calls(f) if isinstance(c.func, ast.Attribute) and
          c.func.attr == '_arguments_set_value' and len(c.args) == 2]
  if not survivors or not sets:
    raise AnalysisError('Buildable.__delitem__: the survivor list (target of '
                        '`del <list>[index]`) or the compaction store was '
                        'not found')

  def expand(e, depth=0):
    yield e
    for n in ast.walk(e):
      if isinstance(n, ast.Name) and isinstance(n.ctx, ast.Load) and depth < 4:
        for st in walk_function(f.node):
          if isinstance(st, ast.Assign) and any(
              isinstance(t, ast.Name) and t.id == n.id for t in st.targets):
            yield from expand(st.value, depth + 1)

  for c in sets:
    ok = False
    src = None
    for e in expand(c.args[1]):
      for n in ast.walk(e):
        if isinstance(n, ast.Subscript) and isinstance(
            n.ctx, ast.Load) and unparse(n.value).endswith('.__arguments__'):
          src = n
          # the subscript reads an element of the survivor list
          for k in expand(n.slice):
            for m in ast.walk(k):
              if isinstance(m, ast.Subscript) and isinstance(
                  m.value, ast.Name) and m.value.id in survivors:
                ok = True
    rs.check(ok, rule, f'{f.qualname}:`{unparse(c)[:50]}`',
             f'the moved value is `{unparse(src)}`: its position comes from '
             f'the surviving element' if ok else
             f'the value moved by `{unparse(c)[:60]}` is '
             f'`{unparse(src) if src is not None else unparse(c.args[1])}`, '
             'whose position is not read from the surviving element for that '
             f'slot ({sorted(survivors)}): after `del cfg[1::2]` (non-adjacent '
             'deletions) the tail holds the wrong values', ctx.loc(f, c))


def _raising_if_nodes(g):
  """if-nodes whose true branch always leaves by raise."""
  out = []
  for n in g.nodes():
    if g.kind[n] == 'if':
      r = g.reach([m for m, lab in g.succ[n] if lab == 'true'],
                  labels=cfg_lib.NO_EXC)
      if g.exit not in r and g.raise_exit in r:
        out.append(n)
  return out


def _bound_atoms(test, f=None):
  """(index name, op class, bound text) atoms `i >= N` / `i < 0` ... of a test,

  normalised so that the index is on the left.
  """
  flip = {ast.Lt: ast.Gt, ast.Gt: ast.Lt, ast.LtE: ast.GtE, ast.GtE: ast.LtE}
  out = []
  for c in ast.walk(test):
    if isinstance(c, ast.Compare):
      operands = [c.left] + list(c.comparators)
      for (a, op, b) in zip(operands, c.ops, operands[1:]):
        if type(op) not in flip:
          continue
        # with f, a bound held in a local (n = len(view)) reads as its value
        bt = unparse(roles.deref(f, b)) if f is not None else unparse(b)
        at = unparse(roles.deref(f, a)) if f is not None else unparse(a)
        if isinstance(a, ast.Name):
          out.append((a.id, type(op), bt))
        if isinstance(b, ast.Name):
          out.append((b.id, flip[type(op)], at))
  return out


def index_bounds(ctx: Ctx, rs: RuleSet):
  """BOUND: the list-like positional view rejects indices outside

  [0, len): the comparison operators are the inclusive / exclusive ones a
  Python list uses.
  """
  rule = 'BOUND.index-range'
  rs.declare(rule, 'positional indices are checked against [0, length) with '
             'the operators a list uses, before anything is modified', 4)
  # (1) _set_item_by_index: `key >= <number of positional slots>` raises
  f = ctx.func(f'{BUILDABLE}._set_item_by_index')
  g = ctx.cfg(f)
  key = f.params[1]
  counts = roles.assigned_from(f, lambda e: isinstance(e, ast.Attribute) and
                               e.attr == 'var_positional_start')
  for _ in range(3):  # and locals that take the value over
    counts |= roles.assigned_from(f, lambda e: isinstance(
        e, ast.Name) and e.id in counts)
  ok = False
  detail = 'no raising upper-bound test on the index found'
  for n in _raising_if_nodes(g):
    for name, op, bound in _bound_atoms(g.stmt[n].test):
      if name == key and bound in counts:
        ok = op is ast.GtE
        detail = (f'`{key} >= {bound}` raises IndexError' if ok else
                  f'the upper-bound test on `{key}` uses '
                  f'{"`>`" if op is ast.Gt else op.__name__} against the slot '
                  f'count `{bound}`: the index one past the last slot is '
                  'accepted and stored under a stray integer key')
  rs.check(ok, rule, f'{f.qualname}:upper-bound', detail, ctx.loc(f, f.node))
  # the slot count without *args counts positional parameters only
  ok = False
  for st in walk_function(f.node):
    if isinstance(st, ast.Assign) and any(
        isinstance(t, ast.Name) and t.id in counts for t in st.targets) and (
            not (isinstance(st.value, ast.Attribute))):
      # the parameters counted are exactly the positional-only and
      # positional-or-keyword ones: sum(<kind test> for ...), or a filtered
      # comprehension that is counted with len() / sum(1 ...)
      cond = None
      for c in ast.walk(st.value):
        if isinstance(c, (ast.GeneratorExp, ast.ListComp)) and len(
            c.generators) == 1:
          if c.generators[0].ifs:
            cond = ast.BoolOp(op=ast.And(), values=list(c.generators[0].ifs))
          else:
            cond = c.elt
      if cond is not None:
        counted = {k for k in sigrules.KINDS
                   if sigrules.eval3(cond, k) is True}
        maybe = {k for k in sigrules.KINDS if sigrules.eval3(cond, k) is None}
        ok = counted == {'POSITIONAL_ONLY', 'POSITIONAL_OR_KEYWORD'} and (
            not maybe)
  rs.check(ok, rule, f'{f.qualname}:slot-count',
           'without *args the number of indexable slots is the number of '
           'positional-only and positional-or-keyword parameters' if ok else
           'without *args the slot count is not restricted to positional '
           'parameter kinds: a keyword-only parameter is addressable by index '
           'and the value is stored under a stray integer key',
           ctx.loc(f, f.node))
  # (2) index_to_key: a negative index that stays negative after adding the
  # length raises (no wrap-around)
  f = ctx.func(f'{SIGINFO}.index_to_key')
  g = ctx.cfg(f)
  idx = f.params[1]
  neg_ifs = [n for n in g.nodes() if g.kind[n] == 'if' and (
      idx, ast.Lt, '0') in _bound_atoms(g.stmt[n].test)]
  raising = set(_raising_if_nodes(g))
  norm = [n for n in g.nodes() if isinstance(g.stmt[n], ast.AugAssign) and
          unparse(g.stmt[n].target) == idx]
  ok = bool(norm) and any(
      m in raising and g.dominated_by(m, set(norm), labels=cfg_lib.NO_EXC)
      for m in neg_ifs)
  rs.check(ok, rule, f'{f.qualname}:negative',
           'after `index += len(args)` a still-negative index raises '
           'IndexError' if ok else
           'a negative index is normalised with += len(...) but never '
           'rejected when it stays negative: params[index] then wraps around '
           'and the edit lands on another parameter', ctx.loc(f, f.node))
  # (3) __delitem__ with an int key: range-checked before any deletion
  f = ctx.func(f'{BUILDABLE}.__delitem__')
  g = ctx.cfg(f)
  key = f.params[1]
  views = roles.assigned_from(
      f, roles.call_of('transform_to_args_kwargs'), position=0)
  dels = [n for n in g.nodes() if any(
      isinstance(e, ast.Call) and isinstance(e.func, ast.Attribute) and
      e.func.attr == '_arguments_del_value'
      for e in cfg_lib.walk_node(g, n)) or isinstance(g.stmt[n], ast.Delete)]
  int_branch = [n for n in g.nodes() if g.kind[n] == 'if' and 'slice' in unparse(
      g.stmt[n].test) and 'isinstance' in unparse(g.stmt[n].test)]
  ok = False
  # the key, or a local that holds it (a helper's parameter after expansion)
  key_names = {key}
  for _ in range(3):
    key_names |= roles.assigned_from(f, lambda e: isinstance(
        e, ast.Name) and e.id in key_names)
  for n in _raising_if_nodes(g):
    atoms = [(key if nm in key_names else nm, op_, bd_)
             for nm, op_, bd_ in _bound_atoms(g.stmt[n].test, f)]
    upper = any(name == key and bound in {f'len({v})' for v in views} and (
        (op is ast.Lt) or (op is ast.GtE)) for name, op, bound in atoms)
    lower = any(name == key and bound == '0' for name, op, bound in atoms)
    if upper and lower:
      # reached only for int keys, and before every deletion on that path
      ok = True
  rs.check(ok, rule, f'{f.qualname}:int-key-range',
           'an int key outside [0, len(positional view)) raises IndexError '
           'before anything is deleted' if ok else
           'an int key is not checked against the length of the positional '
           'view: deleting an index past the end is a silent no-op and a '
           'too-negative index deletes another element',
           ctx.loc(f, f.node))
  # (4) positional views used for index arithmetic agree
  rule2 = 'AGREE.positional-view'
  rs.declare(rule2, 'every function that does index arithmetic computes the '
             'positional view with positional-or-keyword parameters included '
             'and unset slots kept (fixed-length prefix)', 4)
  for q in (f'{BUILDABLE}.__getitem__', f'{BUILDABLE}.__delitem__',
            f'{BUILDABLE}._set_item_by_slice', f'{SIGINFO}.index_to_key'):
    f = ctx.func(q)
    calls = [c for c in ctx.calls(f) if isinstance(
        c.func, ast.Attribute) and c.func.attr == 'transform_to_args_kwargs']
    if not calls:
      raise AnalysisError(f'{q}: positional view computation not found')
    for c in calls:
      flags = {}
      names = ['arguments', 'include_pos_or_kw_in_args', 'include_no_value']
      for i, a in enumerate(c.args):
        if i < len(names):
          flags[names[i]] = a
      for k in c.keywords:
        flags[k.arg] = k.value
      both = all(isinstance(flags.get(n), ast.Constant) and
                 flags[n].value is True
                 for n in ('include_pos_or_kw_in_args', 'include_no_value'))
      rs.check(both, rule2, f'{q}:`{norm_text(f, c, 40)}`',
               'include_pos_or_kw_in_args=True, include_no_value=True' if both
               else f'`{unparse(c)[:80]}` does not keep unset slots / '
               'positional-or-keyword parameters in the view: its length is '
               'then shorter than the list the caller indexes, so a negative '
               'index or a slice bound lands on another parameter',
               ctx.loc(f, c))


def delete_discipline(ctx: Ctx, rs: RuleSet):
  """__delitem__: unset fixed slots are skipped, deletions go from the highest

  index down, and the involvement of the fixed prefix is decided by the lowest
  index a slice touches.
  """
  rule = 'DOM.delete-discipline'
  rs.declare(rule, 'deleting by index / slice tolerates unset fixed slots and '
             'any slice direction', 3)
  f = ctx.func(f'{BUILDABLE}.__delitem__')
  g = ctx.cfg(f)
  keys = roles.assigned_from(f, roles.call_of('index_to_key'))
  for n in g.nodes():
    for e in cfg_lib.walk_node(g, n):
      if isinstance(e, ast.Call) and isinstance(
          e.func, ast.Attribute) and e.func.attr == '_arguments_del_value' and (
              e.args and isinstance(e.args[0], ast.Name) and
              e.args[0].id in keys):
        k = e.args[0].id
        guards = [m for m in g.nodes() if g.kind[m] == 'if' and any(
            isinstance(c, ast.Compare) and len(c.ops) == 1 and isinstance(
                c.ops[0], ast.In) and unparse(c.left) == k and unparse(
                    c.comparators[0]).endswith('.__arguments__')
            for c in ast.walk(g.stmt[m].test))]
        ok = any(g.dominated_by(n, {m}, labels=cfg_lib.NO_EXC) and
                 n in g.reach([x for x, lab in g.succ[m] if lab == 'true'],
                              labels=cfg_lib.NO_EXC) and
                 n not in g.reach([x for x, lab in g.succ[m] if lab == 'false'],
                                  blocked={m}, labels=cfg_lib.NO_EXC)
                 for m in guards)
        rs.check(ok, rule, f'{f.qualname}:fixed-slot-delete',
                 f'`{unparse(e)}` only runs when `{k}` is set' if ok else
                 f'`{unparse(e)}` runs for a fixed slot that may be unset: '
                 'the primitive raises KeyError after higher slots were '
                 'already deleted (`del cfg[0]` twice; `del cfg[:]` on a '
                 'partly filled configuration), leaving a half-edited '
                 'configuration', ctx.loc(f, e))
  # deletions from the highest index down
  loops = [n for n in walk_function(f.node) if isinstance(n, ast.For) and any(
      isinstance(s, ast.Delete) for s in ast.walk(n))]
  def _descending(it):
    def is_sorted(e, rev):
      return (isinstance(e, ast.Call) and unparse(e.func) == 'sorted' and
              len(e.args) == 1 and rev == any(
                  k.arg == 'reverse' and isinstance(k.value, ast.Constant) and
                  k.value.value is True for k in e.keywords))
    if is_sorted(it, True):
      return True
    if isinstance(it, ast.Call) and unparse(it.func) == 'reversed' and len(
        it.args) == 1 and is_sorted(it.args[0], False):
      return True
    if isinstance(it, ast.Subscript) and unparse(it.slice) == '::-1' and (
        is_sorted(it.value, False)):
      return True
    if isinstance(it, ast.Name):
      defs = roles.defs_of(f, it.id)
      return bool(defs) and all(_descending(d) for d in defs)
    return False

  ok = bool(loops) and all(_descending(L.iter) for L in loops)
  rs.check(ok, rule, f'{f.qualname}:descending',
           'indices are deleted from the highest down (sorted(..., '
           'reverse=True)): earlier deletions do not shift later ones' if ok
           else 'the placeholder deletions do not run over the indices sorted '
           'in descending order: for a slice with a negative step (or any '
           'unordered index list) an earlier deletion shifts the positions of '
           'the later ones (IndexError / wrong elements removed)',
           ctx.loc(f, loops[0] if loops else f.node))
  # _set_item_by_slice: prefix involvement by the lowest touched index
  f = ctx.func(f'{BUILDABLE}._set_item_by_slice')
  starts = roles.assigned_from(f, lambda e: isinstance(e, ast.Attribute) and
                               e.attr == 'var_positional_start')
  lows = roles.assigned_from(f, lambda e: any(
      isinstance(c, ast.Call) and unparse(c.func) == 'min'
      for c in ast.walk(e)))
  ok = False
  for n in walk_function(f.node):
    if isinstance(n, ast.If):
      for name, op, bound in _bound_atoms(n.test):
        if bound in starts and op is ast.Lt:
          ok = name in lows
  rs.check(ok, rule, f'{f.qualname}:lowest-index',
           'the fixed prefix is involved iff the lowest index the slice '
           'touches is below the *args position' if ok else
           'whether the slice touches the fixed prefix is decided from the '
           'slice start, which is the highest index for a negative step: '
           '`cfg[::-1] = [...]` then skips the prefix writes',
           ctx.loc(f, f.node))


def shift_snapshot(ctx: Ctx, rs: RuleSet):
  """DEFUSE: slice assignment over *args moves values read from a snapshot."""
  rule = 'DEFUSE.shift-snapshot'
  rs.declare(rule, 'values moved while the *args list grows or shrinks are '
             'read from a copy made before the first write', 1)
  f = ctx.func(f'{BUILDABLE}._set_item_by_slice')
  g = ctx.cfg(f)
  snaps = roles.assigned_from(f, lambda e: isinstance(e, ast.Call) and (
      (isinstance(e.func, ast.Attribute) and e.func.attr == 'copy' and
       unparse(e.func.value).endswith('.__arguments__')) or
      (unparse(e.func) in ('dict', 'copy.copy') and e.args and
       unparse(e.args[0]).endswith('.__arguments__'))))
  writes = [n for n in g.nodes() if any(
      isinstance(e, ast.Call) and isinstance(e.func, ast.Attribute) and
      e.func.attr in ('_arguments_set_value', '_arguments_del_value')
      for e in cfg_lib.walk_node(g, n))]
  live_reads = []
  for n in g.nodes():
    if g.kind[n] not in ('stmt',):
      continue
    for e in cfg_lib.walk_node(g, n):
      if isinstance(e, ast.Subscript) and isinstance(
          e.ctx, ast.Load) and unparse(e.value).endswith('.__arguments__'):
        # a read of the live store that can follow a write (inside the
        # writing loops)
        if any(n in g.reach([w], labels=cfg_lib.NO_EXC) for w in writes):
          live_reads.append((n, e))
  ok = bool(snaps) and not live_reads
  rs.check(ok, rule, f'{f.qualname}:moved-values',
           f'moved values are read from the snapshot {sorted(snaps)}' if ok
           else (f'`{unparse(live_reads[0][1])}` reads the live argument store '
                 'after earlier iterations have written to it: when the list '
                 'grows (`cfg[4:4] = [x, y]`) a slot is overwritten before '
                 'the value it held has been moved, and the tail repeats the '
                 'inserted values' if live_reads else
                 'no snapshot of the arguments is taken before the writes'),
           ctx.loc(f, live_reads[0][1] if live_reads else f.node))


def run(ctx: Ctx, rs: RuleSet, tier: str):
  p = ctx.p
  compaction_source(ctx, rs)
  index_bounds(ctx, rs)
  delete_discipline(ctx, rs)
  shift_snapshot(ctx, rs)
  props = optional_props(ctx)
  if 'var_positional_start' not in props:
    raise AnalysisError('SignatureInfo.var_positional_start is no longer an '
                        'Optional property')

  # ---- NULL
  rule = 'NULL.optional-position'
  rs.declare(rule, 'Optional SignatureInfo properties are None-tested before '
             'ordering / arithmetic / range()', 5)

  def is_source(e):
    return isinstance(e, ast.Attribute) and e.attr in props

  for q, f in sorted(p.funcs.items()):
    if f.is_lambda:
      continue
    if not any(is_source(n) for n in walk_function(f.node)):
      continue
    g = ctx.cfg(f)
    na = NullAnalysis(f, g, is_source).run()
    counts = {}
    for node, desc in na.sinks_ok:
      k = f'{q}:{desc}'
      rs.ok(rule, k, 'dominated by a None test on every path',
            ctx.loc(f, node))
    for node, desc in na.sinks_bad:
      k = f'{q}:{desc}'
      rs.fail(rule, k, f'{desc}: the operand may be None here (callable '
              'without *args) - no `is None` / `is not None` test dominates '
              'this use', ctx.loc(f, node))

  sigrules.edit_entry_points(ctx, rs)
  sigrules.store_primitives(ctx, rs)
  sigrules.validate_param_name(ctx, rs)
  sigrules.index_to_key(ctx, rs)
  sigrules.setitem_dispatch(ctx, rs)


MANIFEST = dict(
    text=('Decides structural necessary conditions of C03 on every path of '
          'the editing code: None-safety of the optional *args position on all '
          'index/slice edit paths (for every signature without *args), '
          'validation-dominates-mutation and no-raise-after-mutation in the '
          'edit entry points, a single pair of logging store primitives, the '
          'name-validation kind table, and the index-to-key kind mapping. The '
          'behavioural agreement with a list/dict reference model over all '
          'edit histories is not decided.'),
    note=('Trusted: ast of the working tree, intra-procedural CFG dataflow. '
          'Callee-may-raise-after-mutation paths are not examined (only '
          'explicit raise statements).'),
    technique='static analysis: flow-sensitive None-ness dataflow with short-circuit refinement, CFG dominance, who-may-write, kind-table agreement',
)
