"""C03 - attribute, index and slice edits behave like a bound-argument list."""
from __future__ import annotations

import ast

from fdlstatic import cfg as cfg_lib
from fdlstatic.ctx import Ctx
from fdlstatic.model import AnalysisError, unparse, walk_function
from fdlstatic.nullness import NullAnalysis
from fdlstatic.report import RuleSet
from fdlstatic.rules import sigrules

SIGINFO = 'fiddle._src.signatures.SignatureInfo'
BUILDABLE = 'fiddle._src.config.Buildable'

EXPLANATION = (
    'Static clauses of C03 decided on the current source: (NULL) every value '
    'flowing from an Optional[...] property of SignatureInfo '
    '(var_positional_start, var_keyword_name) is tested for None on every '
    'path before it is used in an ordering comparison, arithmetic or range() '
    '(a callable without *args must not make index edits raise TypeError); '
    '(DOM) in each edit entry point the validation step dominates the first '
    'mutation of the argument store, and no explicit raise follows a mutation '
    'on the same path (rejected edits leave the arguments unchanged); (WMC) '
    'inside Buildable the argument store is written only through the two '
    'logging primitives; (EXH) __setitem__ dispatches int and slice keys and '
    'the key type is asserted; name validation rejects positional-only and '
    'variadic parameters and unknown names unless **kwargs exists; '
    '(PK) index_to_key maps exactly the positional-or-keyword parameters to '
    'their names. (DEFUSE) the *args compaction after a delete reads each moved value at '
    'the position recorded in the element that survived into the slot. Not '
    'decided: agreement with a list/dict reference model for every edit '
    'history.')
ASSUMPTIONS = [
    'truthiness of a value is accepted as a non-None fact on the true branch '
    'only',
    'the None-check analysis is intra-procedural; Optional sources are the '
    'properties of SignatureInfo annotated Optional[...]',
]


def optional_props(ctx: Ctx):
  ci = ctx.cls(SIGINFO)
  out = set()
  for name, m in ci.methods.items():
    decos = {getattr(d, 'id', getattr(d, 'attr', None)) for d in m.decorators}
    if 'property' in decos and m.node.returns is not None:
      r = m.node.returns
      txt = unparse(r)
      if txt.startswith('Optional[') or 'None' in txt:
        out.add(name)
  return out


def compaction_source(ctx: Ctx, rs: RuleSet):
  """DEFUSE: when deleting by index/slice compacts the *args tail, the value

  written to a slot is read from the store at the position recorded in the
  element that survived into that slot - not computed from lengths or a fixed
  offset (an extended slice removes non-adjacent positions, so no single
  offset is right).
  """
  rule = 'DEFUSE.compaction-source'
  rs.declare(rule, 'the *args compaction moves into each slot the value of '
             'the surviving element recorded for that slot', 1)
  f = ctx.func(f'{BUILDABLE}.__delitem__')
  survivors = {t.value.id for n in walk_function(f.node)
               if isinstance(n, ast.Delete) for t in n.targets
               if isinstance(t, ast.Subscript) and isinstance(
                   t.value, ast.Name)}
  sets = [c for c in ctx.calls(f) if isinstance(c.func, ast.Attribute) and
          c.func.attr == '_arguments_set_value' and len(c.args) == 2]
  if not survivors or not sets:
    raise AnalysisError('Buildable.__delitem__: the survivor list (target of '
                        '`del <list>[index]`) or the compaction store was '
                        'not found')

  def expand(e, depth=0):
    yield e
    for n in ast.walk(e):
      if isinstance(n, ast.Name) and isinstance(n.ctx, ast.Load) and depth < 4:
        for st in walk_function(f.node):
          if isinstance(st, ast.Assign) and any(
              isinstance(t, ast.Name) and t.id == n.id for t in st.targets):
            yield from expand(st.value, depth + 1)

  for c in sets:
    ok = False
    src = None
    for e in expand(c.args[1]):
      for n in ast.walk(e):
        if isinstance(n, ast.Subscript) and isinstance(
            n.ctx, ast.Load) and unparse(n.value).endswith('.__arguments__'):
          src = n
          # the subscript reads an element of the survivor list
          for k in expand(n.slice):
            for m in ast.walk(k):
              if isinstance(m, ast.Subscript) and isinstance(
                  m.value, ast.Name) and m.value.id in survivors:
                ok = True
    rs.check(ok, rule, f'{f.qualname}:`{unparse(c)[:50]}`',
             f'the moved value is `{unparse(src)}`: its position comes from '
             f'the surviving element' if ok else
             f'the value moved by `{unparse(c)[:60]}` is '
             f'`{unparse(src) if src is not None else unparse(c.args[1])}`, '
             'whose position is not read from the surviving element for that '
             f'slot ({sorted(survivors)}): after `del cfg[1::2]` (non-adjacent '
             'deletions) the tail holds the wrong values', ctx.loc(f, c))


def run(ctx: Ctx, rs: RuleSet, tier: str):
  p = ctx.p
  compaction_source(ctx, rs)
  props = optional_props(ctx)
  if 'var_positional_start' not in props:
    raise AnalysisError('SignatureInfo.var_positional_start is no longer an '
                        'Optional property')

  # ---- NULL
  rule = 'NULL.optional-position'
  rs.declare(rule, 'Optional SignatureInfo properties are None-tested before '
             'ordering / arithmetic / range()', 5)

  def is_source(e):
    return isinstance(e, ast.Attribute) and e.attr in props

  for q, f in sorted(p.funcs.items()):
    if f.is_lambda:
      continue
    if not any(is_source(n) for n in walk_function(f.node)):
      continue
    g = ctx.cfg(f)
    na = NullAnalysis(f, g, is_source).run()
    counts = {}
    for node, desc in na.sinks_ok:
      k = f'{q}:{desc}'
      rs.ok(rule, k, 'dominated by a None test on every path',
            ctx.loc(f, node))
    for node, desc in na.sinks_bad:
      k = f'{q}:{desc}'
      rs.fail(rule, k, f'{desc}: the operand may be None here (callable '
              'without *args) - no `is None` / `is not None` test dominates '
              'this use', ctx.loc(f, node))

  sigrules.edit_entry_points(ctx, rs)
  sigrules.store_primitives(ctx, rs)
  sigrules.validate_param_name(ctx, rs)
  sigrules.index_to_key(ctx, rs)
  sigrules.setitem_dispatch(ctx, rs)


MANIFEST = dict(
    text=('Decides structural necessary conditions of C03 on every path of '
          'the editing code: None-safety of the optional *args position on all '
          'index/slice edit paths (for every signature without *args), '
          'validation-dominates-mutation and no-raise-after-mutation in the '
          'edit entry points, a single pair of logging store primitives, the '
          'name-validation kind table, and the index-to-key kind mapping. The '
          'behavioural agreement with a list/dict reference model over all '
          'edit histories is not decided.'),
    note=('Trusted: ast of the working tree, intra-procedural CFG dataflow. '
          'Callee-may-raise-after-mutation paths are not examined (only '
          'explicit raise statements).'),
    technique='static analysis: flow-sensitive None-ness dataflow with short-circuit refinement, CFG dominance, who-may-write, kind-table agreement',
)
