"""C16 - argument history is a faithful, ordered log of edits."""
from __future__ import annotations

import ast
import os

from fdlstatic import cfg as cfg_lib
from fdlstatic.ctx import Ctx, kwarg
from fdlstatic.model import AnalysisError, unparse, walk_function, walk_stmts
from fdlstatic import roles
from fdlstatic.report import RuleSet
from fdlstatic.rules import common, sigrules

H = 'fiddle._src.history'
HIST = f'{H}.History'
ADDERS = [f'{HIST}.add_new_value', f'{HIST}.add_deleted_value',
          f'{HIST}.add_updated_tags']

# the direct editing API named by the property: Buildable's own edit methods
# and the functions exported at the top level of the package that edit
EDIT_ENTRY_POINTS = [
    'fiddle._src.config.Buildable.__init__',
    'fiddle._src.config.Buildable.__setattr__',
    'fiddle._src.config.Buildable.__delattr__',
    'fiddle._src.config.Buildable.__setitem__',
    'fiddle._src.config.Buildable.__delitem__',
    'fiddle._src.mutate_buildable.assign',
    'fiddle._src.mutate_buildable.update_callable',
    'fiddle._src.materialize.materialize_defaults',
    'fiddle._src.copying.copy_with',
    'fiddle._src.copying.deepcopy_with',
    'fiddle._src.tagging.add_tag',
    'fiddle._src.tagging.remove_tag',
    'fiddle._src.tagging.clear_tags',
    'fiddle._src.tagging.set_tags',
    'fiddle._src.tagging.set_tagged',
    'fiddle._src.tagging.TaggedValue',
]

EXPLANATION = (
    'Static clauses of C16 decided on the current source: (PAIR-b) in the two '
    'store primitives every path that stores/deletes logs exactly one '
    'matching entry with the same key (and value), after the store; every '
    'direct mutation of a tag set of a caller-visible Buildable in config.py '
    'and tagging.py is followed on all paths by add_updated_tags for the same '
    'key with the current tag set; (WMC) the argument store of a Buildable is '
    'written only through the primitives; HistoryEntry objects are built only '
    'by the three factory functions of history.py, each taking '
    'sequence_id=next(<the module counter>), the counter is one '
    'itertools.count() that is never rebound, and every History.add_* append '
    'is guarded by tracking_enabled(); (PAIR-a) suspend_tracking and '
    'custom_location restore what they changed on every exit; (EXCL) every '
    'module that holds a frame on a call path from the direct editing API '
    '(Buildable edit methods, assign, update_callable, materialize_defaults, '
    'copy_with, deepcopy_with, the tag editing functions) to History.add_* is '
    'listed in _exclude_locations, so the first non-excluded frame is the '
    'caller\'s; (TAINT) equality and build code never read history. Not '
    'decided: the content of the log for every edit history, cross-thread '
    'uniqueness beyond the single atomic counter.')
ASSUMPTIONS = [
    'next() on itertools.count is atomic under the GIL',
    'call graph: exact + nested + reference edges plus setattr/delattr/item '
    'assignment edges into Buildable methods',
]


def _tag_mutations(ctx, f):
  """(cfg node, call, receiver root, key expr text) for tag-set mutations."""
  g = ctx.cfg(f)
  # aliases: v = X.__argument_tags__[k]
  alias = {}
  for n in walk_function(f.node):
    if isinstance(n, ast.Assign) and len(n.targets) == 1 and isinstance(
        n.targets[0], ast.Name) and isinstance(n.value, ast.Subscript) and (
            isinstance(n.value.value, ast.Attribute) and
            n.value.value.attr == '__argument_tags__'):
      alias[n.targets[0].id] = n.value
  out = []
  for n in g.nodes():
    for e in cfg_lib.walk_node(g, n):
      if isinstance(e, ast.Call) and isinstance(
          e.func, ast.Attribute) and e.func.attr in (
              'add', 'update', 'remove', 'discard', 'clear', 'pop',
              'difference_update', 'intersection_update'):
        recv = e.func.value
        if isinstance(recv, ast.Name) and recv.id in alias:
          recv = alias[recv.id]
        if isinstance(recv, ast.Subscript) and isinstance(
            recv.value, ast.Attribute) and (
                recv.value.attr == '__argument_tags__'):
          out.append((n, e, unparse(recv.value.value), unparse(recv.slice),
                      e.func.attr))
    # X.__argument_tags__[k] = <set> / |= ... replaces or updates the set
    st = g.stmt[n]
    targets = (st.targets if isinstance(st, ast.Assign) else
               [st.target] if isinstance(st, (ast.AugAssign, ast.AnnAssign))
               else [])
    for t in targets:
      if isinstance(t, ast.Subscript) and isinstance(
          t.value, ast.Attribute) and t.value.attr == '__argument_tags__':
        out.append((n, st, unparse(t.value.value), unparse(t.slice), 'store'))
  _tag_mutations.alias = alias  # of the function analysed last
  return g, out


def run(ctx: Ctx, rs: RuleSet, tier: str):
  p = ctx.p
  sigrules.store_log_pairing(ctx, rs)
  sigrules.store_primitives(ctx, rs)

  # ---- tag mutation -> add_updated_tags
  rule = 'PAIR.tag-log'
  rs.declare(rule, 'every direct tag-set mutation of a caller-visible '
             'Buildable is followed by add_updated_tags(key, current tags)', 5)
  for modname in ('fiddle._src.config', 'fiddle._src.tagging'):
    for f in ctx.mod(modname).all_funcs:
      if f.is_lambda:
        continue
      g, muts = _tag_mutations(ctx, f)
      for n, e, root, key, how in muts:
        if root not in f.params:
          continue  # receiver is not a caller-visible parameter (fresh copy)
        logs = set()
        for m in g.nodes():
          for x in cfg_lib.walk_node(g, m):
            if isinstance(x, ast.Call) and isinstance(
                x.func, ast.Attribute) and (
                    x.func.attr == 'add_updated_tags') and len(x.args) == 2:
              a0, a1 = unparse(x.args[0]), unparse(x.args[1])
              if isinstance(x.args[1], ast.Name) and (
                  x.args[1].id in _tag_mutations.alias):
                # a local holding the tag set itself (same object)
                a1 = unparse(_tag_mutations.alias[x.args[1].id])
              if a0 == key and a1 == f'{root}.__argument_tags__[{key}]' and (
                  unparse(x.func.value) == f'{root}.__argument_history__'):
                logs.add(m)
        succ = [x for x, lab in g.succ[n] if lab != 'exc']
        r = g.reach(succ, blocked=logs, labels=cfg_lib.NO_EXC)
        ok = bool(logs) and g.exit not in r
        rs.check(ok, rule, f'{f.qualname}:{how}[{key}]',
                 f'`{unparse(e)[:70]}` is followed on every path by '
                 f'add_updated_tags({key}, {root}.__argument_tags__[{key}])'
                 if ok else
                 f'`{unparse(e)[:70]}` changes the tag set of `{key}` but a '
                 'path reaches the exit without logging the new tag set',
                 ctx.loc(f, e))

  # ---- a deep copy gets its own history lists
  from fdlstatic.rules import c07
  rs.declare('FRESHC.deepcopy-history', 'Buildable.__deepcopy__ exempts '
             'nothing mutable from copying (per-parameter history lists of '
             'the copy are its own)', 2)
  c07.deepcopy_memo_rules(ctx, rs, 'FRESHC.deepcopy-history')

  # ---- HistoryEntry construction / counter
  rule = 'WMC.history-entries'
  rs.declare(rule, 'entries are created only by the factory functions with '
             'sequence_id=next(counter); one counter, never rebound', 5)
  hmod = ctx.mod(H)
  counter_names = [n for n, v in hmod.assigns.items()
                   if isinstance(v, ast.Call) and
                   p.resolve(v.func, hmod) == 'itertools.count']
  rs.check(len(counter_names) == 1 and not hmod.assigns[
      counter_names[0]].args if counter_names else False, rule,
           f'{H}:counter',
           f'module-level counter(s): {counter_names} = itertools.count()',
           hmod.relpath)
  counter = counter_names[0] if counter_names else None
  factories = {}
  for q, sites in ctx.cg.call_sites.items():
    for call, callees, exact in sites:
      if p.resolve(call.func, p.funcs.get(q) or p.modules.get(
          q[:-len('.<module>')], hmod)) == f'{H}.HistoryEntry':
        f = p.funcs.get(q)
        factories[q] = (f, call)
  for q, (f, call) in sorted(factories.items()):
    # fields by keyword or by position (a dataclass: annotation order)
    bound_fields = (ctx.bound_args(call, f) if f is not None else None) or {}
    sid = kwarg(call, 'sequence_id') or bound_fields.get('sequence_id')

    def fresh_id(e, scope, depth=0):
      # next(<the counter>), or a parameter that every caller fills with it
      if isinstance(e, ast.Call) and isinstance(e.func, ast.Name) and (
          e.func.id == 'next') and len(e.args) == 1 and unparse(
              e.args[0]) == counter:
        return True
      if isinstance(e, ast.Name) and scope is not None and (
          not scope.is_lambda) and e.id not in scope.params:
        # drawn into a local first: `sid = next(counter)` (once per entry: the
        # entry is not built in a loop the draw is outside of)
        d = roles.deref(scope, e, 1)
        in_loop = any(isinstance(lp, (ast.For, ast.While)) and any(
            x is e for x in ast.walk(lp)) and not any(
                x is d for x in ast.walk(lp))
                      for lp in walk_function(scope.node))
        return d is not e and not in_loop and fresh_id(d, scope, depth)
      if isinstance(e, ast.Name) and scope is not None and (
          e.id in scope.params) and depth < 2 and not scope.is_lambda:
        sites_ = [(p.funcs.get(q2), c2) for q2, ss in ctx.cg.call_sites.items()
                  for c2, callees, _ in ss if scope.qualname in callees]
        if not sites_:
          return False
        for caller, c2 in sites_:
          b = ctx.bound_args(c2, caller) if caller is not None else None
          good = bool(b) and e.id in b and fresh_id(b[e.id], caller, depth + 1)
          # one obligation per caller of the relaying factory
          rs.check(good, rule, f'{caller.qualname if caller else "?"}:'
                   f'{scope.name}(...)',
                   f'passes {unparse(b[e.id]) if b and e.id in b else None} '
                   f'as `{e.id}` of {scope.name}',
                   ctx.loc(caller, c2) if caller else '')
          if not good:
            return False
        return True
      return False

    ok = (f is not None and f.module.name == H and sid is not None and
          fresh_id(sid, f))
    loc_arg = kwarg(call, 'location') or bound_fields.get('location')
    # the provider: the module global, or the attribute of the thread-local
    # state object
    tls_objs = {g.qual.rsplit('.', 1)[-1]
                for g in common.thread_local_guards(ctx)
                if g.qual.startswith(H + '.')}
    lf = unparse(loc_arg.func) if isinstance(loc_arg, ast.Call) else ''
    ok_loc = lf == '_location_provider' or (
        lf.endswith('.location_provider') and lf.rsplit('.', 1)[0] in tls_objs)
    rs.check(ok and ok_loc, rule, f'{q}:HistoryEntry',
             f'sequence_id={unparse(sid) if sid is not None else None}, '
             f'location={unparse(loc_arg) if loc_arg is not None else None}',
             ctx.loc(f, call) if f else '')
  # counter never rebound / reset
  rebinding = []
  for f in hmod.all_funcs:
    for n in walk_function(f.node):
      if isinstance(n, ast.Global) and counter in n.names:
        rebinding.append(f.qualname)
  for mq, mod in p.modules.items():
    for f in mod.all_funcs:
      for n in walk_function(f.node):
        if isinstance(n, (ast.Assign, ast.AugAssign)):
          for t in (n.targets if isinstance(n, ast.Assign) else [n.target]):
            if isinstance(t, ast.Attribute) and t.attr == counter:
              rebinding.append(f.qualname)
  rs.check(not rebinding, rule, f'{H}:counter-rebound',
           'the counter is never rebound' if not rebinding else
           f'the counter is rebound in {rebinding}', hmod.relpath)
  # each adder: append guarded by tracking_enabled(), entry from right factory
  want = {'add_new_value': 'new_value', 'add_deleted_value': 'deleted_value',
          'add_updated_tags': 'update_tags'}
  rule = 'GUARD.tracking'
  rs.declare(rule, 'History.add_* append the matching entry under '
             'tracking_enabled() to the parameter\'s own list', 3)
  for name, factory in want.items():
    f = ctx.func(f'{HIST}.{name}')
    g = ctx.cfg(f)
    appends = []
    for n in g.nodes():
      for e in cfg_lib.walk_node(g, n):
        if isinstance(e, ast.Call) and isinstance(
            e.func, ast.Attribute) and e.func.attr == 'append':
          appends.append((n, e))
    ok = len(appends) == 1
    d = f'{len(appends)} append(s)'
    if ok:
      n, e = appends[0]
      recv = roles.deref(f, e.func.value)
      key_ok = (isinstance(recv, ast.Subscript) and
                unparse(recv.value) == f.params[0] and
                unparse(recv.slice) == f.params[1])
      a = roles.deref(f, e.args[0]) if e.args else None
      fac_ok = (isinstance(a, ast.Call) and
                p.resolve(a.func, f) == f'{H}.{factory}' and
                [unparse(x) for x in a.args] == f.params[1:])
      from fdlstatic import dispatch

      def tracking(v):
        def ev(t):
          if isinstance(t, ast.Call) and p.resolve(
              t.func, f) == f'{H}.tracking_enabled' and not t.args:
            return v
          return None
        return ev

      has_test = any(g.kind[m] in ('if', 'while') and any(
          isinstance(x, ast.Call) and p.resolve(
              x.func, f) == f'{H}.tracking_enabled'
          for x in ast.walk(g.stmt[m].test)) for m in g.nodes())
      guarded = has_test and n not in dispatch.reach_atoms(
          g, tracking(False)) and n in dispatch.reach_atoms(g, tracking(True))
      ok = key_ok and fac_ok and guarded
      d = (f'appends {factory}({", ".join(f.params[1:])}) to self[param_name]: '
           f'key={key_ok} factory={fac_ok} guarded={guarded}')
    rs.check(ok, rule, f.qualname, d, ctx.loc(f, f.node))
  # History.__missing__ creates the per-parameter list
  f = ctx.func(f'{HIST}.__missing__')
  ret = [n for n in walk_function(f.node) if isinstance(n, ast.Return)]
  ok = bool(ret) and all(
      isinstance(r.value, ast.Call) and isinstance(r.value.func, ast.Attribute)
      and r.value.func.attr == 'setdefault' and
      unparse(r.value.args[0]) == f.params[1] and
      isinstance(r.value.args[1], ast.List) and not r.value.args[1].elts
      for r in ret)
  rs.check(ok, 'GUARD.tracking', f.qualname,
           'a missing parameter gets its own fresh list', ctx.loc(f, f.node))

  # ---- PAIR(a): suspend_tracking, custom_location
  rule = 'PAIR.guard-restore'
  rs.declare(rule, 'tracking switch and location provider are restored on '
             'every exit of the context managers that change them', 4)
  guards = [g for g in common.thread_local_guards(ctx)
            if g.qual.startswith(H + '.')]
  # the on/off switch is the boolean attribute (other per-thread attributes
  # are audited by the rules that own them)
  bool_guards = [g for g in guards if isinstance(
      g.default, ast.Constant) and isinstance(g.default.value, bool)]
  if len(bool_guards) == 1:
    guards = bool_guards
  if len(guards) != 1:
    raise AnalysisError(f'expected one thread-local guard in history.py, '
                        f'found {[g.name for g in guards]}')
  tg = guards[0]
  common.classify_guard_functions(ctx, tg)
  writers = common.pair_rule(ctx, rs, rule, tg)
  lp_tls = [g for g in common.thread_local_guards(ctx)
            if g.qual.startswith(H + '.') and g.attr == 'location_provider']
  if lp_tls:
    lp = lp_tls[0]
  else:
    lp = common.Guard('global', f'{H}._location_provider', None,
                      hmod.assigns.get('_location_provider'))
  common.classify_guard_functions(ctx, lp)
  writers2 = common.pair_rule(ctx, rs, rule, lp)
  rs.check(set(writers) == {f'{H}.suspend_tracking'}, 'WMC.guard-writers',
           f'{tg.name}', f'writers: {writers} (setter wrappers: '
           f'{sorted(tg.setters)})', hmod.relpath, nontrivial=False)
  rs.declare('WMC.guard-writers', 'only the known context managers change the '
             'tracking switch / location provider', 2)
  rs.check(set(writers2) == {f'{H}.custom_location'}, 'WMC.guard-writers',
           f'{lp.name}', f'writers: {writers2}', hmod.relpath,
           nontrivial=False)
  # callers of the raw setter elsewhere in the repo must pair too (pair_rule
  # treats setter calls as writes), nothing else to do.

  # ---- EXCL
  _exclude_rule(ctx, rs)
  # ---- TAINT
  rule = 'TAINT.history-not-read'
  rs.declare(rule, 'equality and build code never read argument history', 6)
  readers = [
      'fiddle._src.config._compare_buildable',
      'fiddle._src.config.Buildable.__eq__',
      'fiddle._src.building.build',
      'fiddle._src.building.build._build',
      'fiddle._src.building.call_buildable',
      'fiddle._src.signatures.SignatureInfo.transform_to_args_kwargs',
      'fiddle._src.config.Config.__build__',
      'fiddle._src.partial.Partial.__build__',
      'fiddle._src.partial.ArgFactory.__build__',
      'fiddle._src.partial._build_partial',
      'fiddle._src.config.ordered_arguments',
  ]
  # the decision functions, their nested functions and the private helpers
  # they call directly (a helper extracted from one of them is still part of
  # the decision)
  all_readers = []
  for q in readers:
    f = ctx.func(q)
    group = [f] + list(f.nested.values())
    for h in list(group):
      for dst, kind in sorted(ctx.cg.edges.get(h.qualname, {}).items()):
        d = ctx.p.funcs.get(dst)
        if kind == 'exact' and d is not None and not d.is_lambda and (
            d.cls is None) and d.name.startswith('_') and (
                d.module is f.module) and d.parent is d.module:
          group.append(d)
    for h in group:
      if h.qualname not in [x.qualname for x in all_readers]:
        all_readers.append(h)
  for f in all_readers:
    q = f.qualname
    hits = [n for n in walk_function(f.node) if isinstance(n, ast.Attribute)
            and n.attr in ('__argument_history__', 'argument_history')]
    hits += [n for n in walk_function(f.node) if isinstance(n, ast.Call) and
             isinstance(n.func, ast.Attribute) and n.func.attr == 'history' and
             not n.args]
    rs.check(not hits, rule, q,
             'does not touch history' if not hits else
             f'reads history: `{unparse(hits[0])}`',
             ctx.loc(f, hits[0] if hits else f.node), nontrivial=False)


def _exclude_rule(ctx: Ctx, rs: RuleSet):
  p = ctx.p
  rule = 'EXCL.internal-frames'
  rs.declare(rule, 'modules holding frames between the direct editing API and '
             'History.add_* are listed in _exclude_locations', 5)
  hmod = ctx.mod(H)
  v = hmod.assigns.get('_exclude_locations')
  if v is None:
    raise AnalysisError('_exclude_locations not found')
  excluded = {os.path.normpath(c.value) for c in ast.walk(v)
              if isinstance(c, ast.Constant) and isinstance(c.value, str) and
              c.value.endswith('.py')}
  if len(excluded) < 3:
    raise AnalysisError('could not read the _exclude_locations list')
  kinds = ('exact', 'nested', 'ref', 'proto')
  # backward closure from the adders
  rev = {}
  for src, d in ctx.cg.edges.items():
    for dst, k in d.items():
      if k in kinds:
        rev.setdefault(dst, set()).add(src)
  back = set(ADDERS)
  work = list(ADDERS)
  while work:
    q = work.pop()
    for s in rev.get(q, ()):
      if s not in back:
        back.add(s)
        work.append(s)
  for e in EDIT_ENTRY_POINTS:
    ctx.func(e)
  fwd = ctx.cg.reachable(EDIT_ENTRY_POINTS, kinds=kinds)
  on_path = {q for q in fwd if q in back and q in p.funcs}
  by_mod = {}
  for q in on_path:
    f = p.funcs[q]
    by_mod.setdefault(f.module.relpath, []).append(q)
  for rel, qs in sorted(by_mod.items()):
    listed = any(rel.endswith(x) for x in excluded)
    q0 = sorted(qs)[0]
    wit = ctx.cg.path_to(fwd, q0)
    rs.check(listed, rule, f'{rel}',
             f'{len(qs)} function(s) on an edit path (e.g. {q0}); module is '
             'in _exclude_locations' if listed else
             f'{rel} holds frames between the editing API and the history '
             f'log (e.g. {", ".join(sorted(qs)[:3])}) but is not in '
             '_exclude_locations: edits made through it are attributed to '
             'Fiddle internals instead of the caller', rel,
             witness=wit if not listed else None)


MANIFEST = dict(
    text=('Decides the structural clauses of C16 for every edit history: '
          'store/log pairing inside the two store primitives (exactly one '
          'entry, same key and value, after the store, on every path), '
          'tag-mutation/log pairing in the tag editing API, a single '
          'never-rebound atomic counter feeding every entry, tracking-guarded '
          'appends, restore-on-all-exits of suspend_tracking and '
          'custom_location, completeness of the excluded-location list for '
          'the direct editing API (call-graph argument), and absence of '
          'history reads in equality and build code. The concrete content of '
          'each log is not decided.'),
    note=('Trusted: ast, CFG, call graph (exact + nested + reference edges, '
          'setattr/item-assignment protocol edges); atomicity of '
          'next(itertools.count()) under the GIL.'),
    technique='static analysis: CFG path pairing (store/log), call-graph frame-membership rule, who-may-construct, set/restore post-dominance',
)
