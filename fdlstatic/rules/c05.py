"""C05 - a failing callable surfaces faithfully and leaves no residue."""
from __future__ import annotations

import ast

from fdlstatic import cfg as cfg_lib
from fdlstatic.ctx import Ctx, assigned_names, kwarg
from fdlstatic.model import AnalysisError, unparse, walk_function, walk_stmts
from fdlstatic import roles
from fdlstatic.report import RuleSet
from fdlstatic.rules import common, ownrule

BUILD = 'fiddle._src.building.build'

EXPLANATION = (
    'Static clauses of C05 decided on the current source: (PAIR) every write '
    'that flips the thread-local in-build flag is followed, on every normal, '
    'exceptional and generator-close exit of its function, by a restore in a '
    'finally block, and the restore writes the initial value or the value '
    'saved before the flip; (DOM) the nested-build rejection tests the flag '
    'and raises before the flag is first set; build() runs its traversal '
    'inside that guard; (NOSWALLOW) on the call-graph closure of build(), '
    'every except handler whose try body can reach a __build__ method, a '
    'callable parameter or a yield re-raises on all of its paths, and what '
    'try_with_lazy_message raises is derived from the caught exception; '
    '(SHAPE) the proxy exception class derives from exactly the original '
    'class, its __str__ starts with str(original), the factory falls back to '
    'the original exception when the proxy cannot be built, and the message '
    'path is the current_path of the state that invoked the failing '
    'Buildable; (OWN) no statement reachable from build() mutates a value '
    'that may alias the configuration. Not decided: that the path named in '
    'the message resolves for every DAG (C08), behaviour of exotic exception '
    'classes beyond the presence of the fallback.')
ASSUMPTIONS = [
    'call graph: exact + reference + nested edges; calls through callable '
    'parameters are treated as possibly reaching user code',
    'every statement may raise (implicit exceptional edge), a yield may raise '
    'GeneratorExit',
    'context managers other than those analysed do not swallow exceptions',
]


def _guard(ctx: Ctx) -> common.Guard:
  allg = common.thread_local_guards(ctx)
  gs = [g for g in allg if g.qual.startswith('fiddle._src.building.')]
  if not gs:
    # kept in another module, building.py only holds an alias / import of it
    bm = ctx.mod('fiddle._src.building')
    moved = {common.relocated_global(ctx, f'{bm.name}.{n}')
             for n in list(bm.assigns) + list(bm.imports)}
    moved |= {ctx.p.resolve(x, bm) for f_ in bm.all_funcs
              for x in ast.walk(f_.node) if isinstance(x, ast.Attribute)}
    gs = [g for g in allg if g.qual in moved]
  if len(gs) != 1:
    raise AnalysisError(
        f'expected exactly one thread-local guard attribute in building.py, '
        f'found {[g.name for g in gs]}')
  common.classify_guard_functions(ctx, gs[0])
  return gs[0]


def run(ctx: Ctx, rs: RuleSet, tier: str):
  # premises shared with other properties, re-verified here
  from fdlstatic.rules import c08
  rs.declare('AGREE.buildable-paths', 'the path elements of a Buildable name '
             'its flattened children one for one (the path in the error '
             'message leads to the failing node)', 1)
  fl = ctx.func('fiddle._src.config._buildable_flatten')
  pe = ctx.func('fiddle._src.config._buildable_path_elements')
  ok_, why_ = c08.check_pair(ctx, fl, pe)
  rs.check(ok_, 'AGREE.buildable-paths', f'{fl.qualname}+{pe.name}', why_,
           ctx.loc(pe, pe.node))
  rs.declare('SHAPE.map-children', 'containers handed to the callables are '
             'rebuilt copies, never the configuration\'s own (a callable that '
             'mutates its argument and then fails leaves the configuration '
             'as it was)', 1)
  c08.map_children_rule(ctx, rs, 'SHAPE.map-children')
  p = ctx.p
  guard = _guard(ctx)

  def cm_target(call, scope):
    """What `with <call>:` enters: a generator function, a class, or - for a
    factory function that just returns `Cls(...)` - that class."""
    tq_ = p.resolve(call.func, scope)
    if tq_ in p.funcs and tq_ not in p.classes:
      ret_, _ = c08.fn_return(p.funcs[tq_])
      if isinstance(ret_, ast.Call):
        cq_ = p.resolve(ret_.func, p.funcs[tq_])
        if cq_ in p.classes:
          return cq_
    return tq_

  # ---- PAIR
  rule = 'PAIR.guard-restore'
  rs.declare(rule, 'every flip of the in-build flag is restored in a finally '
             'on all exits; the restored value is the initial or saved one', 4)
  writers = common.pair_rule(ctx, rs, rule, guard)
  # the guard context manager, by role: what `build` enters around the
  # traversal (a generator function or a class with __enter__/__exit__)
  bfn = ctx.func(BUILD)
  guard_fns = []
  for n in walk_function(bfn.node):
    if isinstance(n, ast.With):
      for it in n.items:
        if isinstance(it.context_expr, ast.Call):
          tq = cm_target(it.context_expr, bfn)
          if tq in p.funcs:
            guard_fns.append(tq)
          elif tq in p.classes:
            guard_fns += [f'{tq}.__enter__', f'{tq}.__exit__']
  guard_fns = [q for q in guard_fns if q in writers]
  if not guard_fns:
    raise AnalysisError('build() enters no context manager that sets the '
                        'in-build flag')
  enter_q = next((q for q in guard_fns if not q.endswith('.__exit__')),
                 guard_fns[0])
  allowed = {q: 'the guard itself' for q in guard_fns}
  allowed.update({
      'fiddle._src.experimental.auto_config.auto_unconfig.make_unconfig.python_implementation':
          'documented re-entrancy for auto_unconfig: clears the flag so the '
          'inner build may run, restores the previous value in finally',
  })
  rule_w = 'WMC.guard-writers'
  rs.declare(rule_w, 'only the known functions write the in-build flag', 2)
  for w in writers:
    if w in allowed:
      rs.ok(rule_w, f'{w}:{guard.name}', allowed[w], nontrivial=False)
      rs.exception(rule_w, w, allowed[w])
    else:
      f = p.funcs[w]
      rs.fail(rule_w, f'{w}:{guard.name}',
              f'{w} writes {guard.name}; only {sorted(allowed)} may',
              ctx.loc(f, f.node))

  # ---- DOM: rejection before set
  rule = 'DOM.reject-before-set'
  rs.declare(rule, 'the guard context manager tests the flag and raises '
             'before setting it', 1)
  for w in writers:
    f = p.funcs[w]
    if w != enter_q:
      continue
    g = ctx.cfg(f)
    flips = [n for n in g.nodes()
             if common.guard_write_value(ctx, g, n, f, guard) is not None and
             not common._in_finally(f, g.stmt[n])]
    all_writes = [n for n in g.nodes()
                  if common.guard_write_value(ctx, g, n, f, guard) is not None]
    tests = []
    saved = set()  # locals holding a read of the flag
    for s in walk_function(f.node):
      if isinstance(s, ast.Assign) and len(s.targets) == 1 and isinstance(
          s.targets[0], ast.Name) and common._is_guard_read(
              ctx, s.value, f, guard):
        nm = s.targets[0].id
        if sum(1 for s2 in walk_function(f.node)
               if nm in assigned_names(s2)) == 1:
          saved.add(nm)
    for n in g.nodes():
      if g.kind[n] == 'if' and any(
          common._is_guard_read(ctx, e, f, guard) or
          (isinstance(e, ast.Name) and e.id in saved)
          for e in ast.walk(g.stmt[n].test)):
        tests.append(n)
    ok = False
    detail = 'no test of the flag found before it is set'
    for t in tests:
      test = g.stmt[t].test
      negated = isinstance(test, ast.UnaryOp) and isinstance(test.op, ast.Not)
      rej_label = 'false' if negated else 'true'
      go_label = 'true' if negated else 'false'
      rej = [m for m, lab in g.succ[t] if lab == rej_label]
      # the rejecting branch never reaches the normal exit nor a flip
      r = g.reach(rej, labels=cfg_lib.NO_EXC)
      # the rejecting branch leaves without touching the flag at all: a
      # rejected nested build must not clear the outer build's flag either
      rejects = (g.exit not in r and not any(x in r for x in all_writes) and
                 g.raise_exit in r)
      # every flip is reached only through the test's go branch
      dominated = all(
          g.dominated_by(fl, {t}, labels=cfg_lib.NO_EXC) for fl in flips)
      no_write_before = not any(
          x in g.reach([g.entry], blocked={t}, labels=cfg_lib.NO_EXC)
          for x in flips)
      if rejects and dominated and no_write_before and flips:
        ok = True
        detail = (f'"{g.describe(t)}" raises on the set branch and dominates '
                  f'the flip; no write precedes it')
        break
      detail = (f'test "{g.describe(t)}": rejects={rejects} '
                f'dominates_flip={dominated} no_write_before={no_write_before}')
    rs.check(ok, rule, f'{w}:{guard.name}', detail, ctx.loc(f, f.node))

  # ---- build runs under the guard
  rule = 'WMC.build-under-guard'
  rs.declare(rule, 'build() performs its traversal inside the guard', 1)
  bf = ctx.func(BUILD)
  guarded_calls, unguarded = [], []
  withs = []
  for n in walk_function(bf.node):
    if isinstance(n, ast.With):
      for it in n.items:
        tq_ = cm_target(it.context_expr, bf) if isinstance(
            it.context_expr, ast.Call) else None
        if tq_ in writers or (tq_ in p.classes and
                              f'{tq_}.__enter__' in writers):
          withs.append(n)
  nested_names = set(bf.nested)
  for n in walk_function(bf.node):
    if isinstance(n, ast.Call):
      passes_build_fn = any(
          isinstance(a, ast.Name) and a.id in nested_names
          for a in list(n.args) + [k.value for k in n.keywords])
      calls_nested = isinstance(n.func, ast.Name) and n.func.id in nested_names
      # the traversal is started with the build callback, whatever form that
      # has (closure, method of a visitor object, module-level function)
      starts = unparse(n.func).split('.')[-1] in ('run', 'begin') and (
          'Traversal' in unparse(n.func))
      if passes_build_fn or calls_nested or starts:
        inside = any(
            any(sub is n for sub in ast.walk(ast.Module(body=w.body,
                                                        type_ignores=[])))
            for w in withs)
        (guarded_calls if inside else unguarded).append(n)
  for c in guarded_calls:
    rs.ok(rule, f'{BUILD}:{unparse(c.func)}',
          'traversal call is inside `with <guard>()`', ctx.loc(bf, c))
  for c in unguarded:
    rs.fail(rule, f'{BUILD}:{unparse(c.func)}',
            'traversal is started outside the in-build guard',
            ctx.loc(bf, c))

  # ---- NOSWALLOW
  rule = 'NOSWALLOW.build-path'
  rs.declare(rule, 'handlers on the build path whose try body can reach user '
             'callables re-raise on every path', 2)
  build_methods = set()
  for cq in p.subclasses('fiddle._src.config.Buildable'):
    m = p.classes[cq].methods.get('__build__')
    if m:
      build_methods.add(m.qualname)
  if len(build_methods) < 4:
    raise AnalysisError(f'expected >=4 __build__ implementations, found '
                        f'{sorted(build_methods)}')
  closure = ctx.cg.reachable([BUILD], kinds=('exact', 'ref', 'nested', 'inst'))
  reaches_build = set()
  # functions from which a __build__ is reachable
  for q in closure:
    r = ctx.cg.reachable([q], kinds=('exact', 'ref', 'nested', 'inst'))
    if build_methods & set(r):
      reaches_build.add(q)
  handlers_seen = 0
  for q in sorted(closure):
    f = p.funcs.get(q)
    if f is None:
      continue
    tries = [n for n in walk_function(f.node) if isinstance(n, ast.Try)]
    if not tries:
      continue
    g = ctx.cfg(f)
    for t in tries:
      if not t.handlers:
        continue
      body_nodes = list(walk_stmts(t.body))
      has_yield = any(isinstance(n, (ast.Yield, ast.YieldFrom))
                      for n in body_nodes)
      risky_call = None
      for n in body_nodes:
        if isinstance(n, ast.Call):
          callees, exact = ctx.cg.resolve_call(n, f)
          if any(c in reaches_build or c in build_methods for c in callees):
            risky_call = n
            break
          if not callees and not exact:
            # call through a parameter / attribute holding a callable
            root = n.func
            while isinstance(root, ast.Attribute):
              root = root.value
            if isinstance(root, ast.Name) and (
                root.id in f.params or root.id in ('self', 'cls')) and not (
                    isinstance(n.func, ast.Attribute) and
                    isinstance(n.func.value, ast.Name) and
                    n.func.value.id not in ('self', 'cls') and
                    n.func.attr.startswith('__') is False and False):
              if isinstance(n.func, ast.Name) or (
                  isinstance(n.func, ast.Attribute) and
                  isinstance(n.func.value, ast.Name) and
                  n.func.value.id == 'self'):
                risky_call = n
                break
      for h in t.handlers:
        handlers_seen += 1
        hn = [n for n in g.nodes() if g.stmt[n] is h and g.kind[n] == 'handler']
        key = f'{q}:except {unparse(h.type) if h.type else ""}'.rstrip()
        if not (has_yield or risky_call is not None):
          rs.ok(rule, key, 'try body cannot reach a configured callable '
                '(formatting / lookup helper); handler not constrained',
                ctx.loc(f, h), nontrivial=False)
          continue
        swallow = any(g.exit in g.reach([n], labels=cfg_lib.NO_EXC)
                      for n in hn)
        why = ('try body contains a yield' if has_yield else
               f'try body calls {unparse(risky_call.func)}')
        if swallow:
          path = g.find_path(hn[0], {g.exit}, labels=cfg_lib.NO_EXC) or []
          rs.fail(rule, key,
                  f'{why}, which can run configured callables, but a path '
                  'through the handler returns normally (exception swallowed)',
                  ctx.loc(f, h), witness=[g.describe(x) for x in path])
        else:
          rs.ok(rule, key, f'{why}; every handler path ends in raise',
                ctx.loc(f, h))

  # ---- what is re-raised derives from the caught exception
  rule = 'SHAPE.reraise-derived'
  rs.declare(rule, 'try_with_lazy_message raises the caught exception or its '
             'decoration', 1)
  TWL = 'fiddle._src.reraised_exception.try_with_lazy_message'
  deco_q = 'fiddle._src.reraised_exception.decorate_exception'
  if TWL in p.classes:
    # class-based context manager: __exit__(self, exc_type, exc, tb)
    ex = ctx.func(f'{TWL}.__exit__')
    exc_p = ex.params[2]
    for n in walk_function(ex.node):
      if isinstance(n, ast.Raise):
        e = n.exc
        ok = e is None or (isinstance(e, ast.Name) and e.id == exc_p) or (
            isinstance(e, ast.Call) and p.resolve(e.func, ex) == deco_q and
            e.args and unparse(e.args[0]) == exc_p)
        rs.check(ok, rule, f'{ex.qualname}:raise',
                 f'raises `{unparse(e) if e is not None else "<active>"}`: '
                 f'the caught exception `{exc_p}` or its decoration' if ok else
                 f'raises `{unparse(e)}`, not derived from the caught '
                 f'`{exc_p}`', ctx.loc(ex, n))
    rets = [r for r in walk_function(ex.node) if isinstance(r, ast.Return)]
    swallow = [r for r in rets if not (isinstance(r.value, ast.Constant) and
                                       r.value.value in (False, None))]
    rs.check(not swallow, rule, f'{ex.qualname}:returns',
             '__exit__ never returns a true value (no exception is swallowed)'
             if not swallow else
             f'`{unparse(swallow[0])}` can make __exit__ swallow the '
             'exception: the build would continue after a failure',
             ctx.loc(ex, swallow[0] if swallow else ex.node))
  else:
    twl = ctx.func(TWL)
    for t in [n for n in walk_function(twl.node) if isinstance(n, ast.Try)]:
      for h in t.handlers:
        if h.name is None:
          continue
        # raises lexically inside this handler (including nested try)
        for n in walk_stmts(h.body):
          if isinstance(n, ast.Raise):
            key = f'{twl.qualname}:raise@{"fallback" if _inside_handler(h, n) else "main"}'
            e = n.exc
            ok = False
            if e is None:
              ok = True
              d = 'bare raise re-raises the active exception'
            elif isinstance(e, ast.Name) and e.id == h.name:
              ok = True
              d = f'raises the caught exception `{h.name}` itself'
            elif (isinstance(e, ast.Call) and p.resolve(e.func, twl) == deco_q
                  and e.args and isinstance(e.args[0], ast.Name) and
                  e.args[0].id == h.name):
              ok = True
              d = f'raises decorate_exception({h.name}, ...)'
            else:
              d = f'raises `{unparse(e)}`, not derived from the caught `{h.name}`'
            rs.check(ok, rule, key, d, ctx.loc(twl, n))
    # PEP 479: an exception derived from StopIteration that is raised inside
    # a generator body leaves it as RuntimeError
    is_gen = any(isinstance(n, (ast.Yield, ast.YieldFrom))
                 for n in walk_function(twl.node))
    raises_derived = any(isinstance(n, ast.Raise) and n.exc is not None
                         for n in walk_function(twl.node))
    rs.check(not (is_gen and raises_derived), 'GEN.no-raise-in-generator',
             f'{twl.qualname}:pep479',
             'the re-raising helper is not a generator'
             if not (is_gen and raises_derived) else
             'the helper is a generator-based context manager that raises the '
             'decorated exception inside the generator body: when a '
             'configured callable raises StopIteration the decoration (a '
             'StopIteration subclass) is converted to RuntimeError("generator '
             'raised StopIteration") - class, message and path are lost',
             ctx.loc(twl, twl.node))
  rs.declare('GEN.no-raise-in-generator', 'exceptions of arbitrary classes '
             'are not re-raised from inside a generator body (PEP 479)', 0)

  # ---- proxy shape
  _proxy_shape(ctx, rs)
  # ---- message path
  _message_path(ctx, rs)
  # ---- OWN
  ownrule.run_entry_points(
      ctx, rs, 'OWN.build-readonly', [BUILD], inputs={BUILD: ['buildable']},
      statement='no mutation sink reachable from build() acts on an alias of '
      'the configuration (also on the failure path)')


def _inside_handler(outer_h, node) -> bool:
  """True if node sits inside a handler nested in outer_h's body."""
  for n in walk_stmts(outer_h.body):
    if isinstance(n, ast.Try):
      for h in n.handlers:
        if any(sub is node for sub in ast.walk(h)):
          return True
  return False


def _proxy_shape(ctx: Ctx, rs: RuleSet):
  p = ctx.p
  rule = 'SHAPE.proxy-class'
  rs.declare(rule, 'proxy class derives from exactly the original class; '
             '__str__ starts with str(original); fallback returns original', 4)
  mk = ctx.func('fiddle._src.reraised_exception.make_exception_class')
  entry = mk
  if len(mk.classes) != 1:
    # the class may be made by a helper the (caching) entry point calls with
    # its own parameter
    cands = []
    for c in ctx.calls(mk):
      h = p.funcs.get(p.resolve(c.func, mk) or '')
      if h is not None and not h.is_lambda and len(h.classes) == 1 and len(
          c.args) == 1 and unparse(c.args[0]) == mk.params[0] and h.params:
        cands.append(h)
    if len(cands) != 1:
      raise AnalysisError('make_exception_class no longer defines one class')
    mk = cands[0]
  # a table of proxy classes kept by the entry point is keyed by the exception
  # class itself: two classes never share a proxy
  ep = entry.params[0]
  for n in walk_function(entry.node):
    key = tbl = None
    if isinstance(n, ast.Subscript) and isinstance(n.value, ast.Name):
      tbl, key = n.value, n.slice
    elif isinstance(n, ast.Call) and isinstance(
        n.func, ast.Attribute) and n.func.attr in (
            'get', 'setdefault', 'pop') and isinstance(
                n.func.value, ast.Name) and n.args:
      tbl, key = n.func.value, n.args[0]
    if tbl is None or tbl.id in entry.local_names() or (
        tbl.id not in entry.module.assigns):
      continue
    kd = roles.deref(entry, key)
    ok_key = isinstance(kd, ast.Name) and kd.id == ep
    rs.check(ok_key, rule, f'{entry.qualname}:cache-key',
             f'`{tbl.id}` is keyed by the exception class itself' if ok_key else
             f'`{tbl.id}` is keyed by `{unparse(kd)[:60]}`, not by the '
             'exception class: two different classes with the same key share '
             'one proxy class, so an error escapes build as an instance of '
             'another class than the one that was raised (`except` clauses for '
             'the raised class no longer match)', ctx.loc(entry, n))
  pc = next(iter(mk.classes.values()))
  param = mk.params[0]
  bases = pc.node.bases
  rs.check(len(bases) == 1 and isinstance(bases[0], ast.Name) and
           bases[0].id == param and not pc.node.keywords,
           rule, f'{pc.qualname}:bases',
           f'bases = [{", ".join(unparse(b) for b in bases)}] (factory '
           f'parameter is `{param}`)', ctx.loc(mk, pc.node))
  # the factory returns that class
  rets = [n for n in walk_function(mk.node) if isinstance(n, ast.Return)]
  rs.check(bool(rets) and all(
      isinstance(r.value, ast.Name) and r.value.id == pc.name for r in rets),
           rule, f'{mk.qualname}:return',
           'factory returns the proxy class on every return', ctx.loc(mk, mk.node))
  init = pc.methods.get('__init__')
  strm = pc.methods.get('__str__')
  base_attr = None
  if init is not None and len(init.params) >= 2:
    for n in walk_function(init.node):
      if isinstance(n, ast.Assign) and isinstance(
          n.value, ast.Name) and n.value.id == init.params[1]:
        for t in n.targets:
          if isinstance(t, ast.Attribute) and isinstance(
              t.value, ast.Name) and t.value.id == init.params[0]:
            base_attr = t.attr
  init_calls = [c for c in walk_function(init.node)
                if isinstance(c, ast.Call)] if init is not None else []
  rs.check(base_attr is not None and not init_calls, rule,
           f'{pc.qualname}:__init__',
           f'the proxy constructor only stores its arguments '
           f'(self.{base_attr} = ...)' if not init_calls else
           f'the proxy constructor calls `{unparse(init_calls[0])[:60]}`: '
           'running the wrapped class\'s initialiser with other arguments can '
           'raise for classes with custom __init__ signatures, which silently '
           'drops the Fiddle context through the fallback',
           ctx.loc(mk, init.node if init is not None else pc.node))
  ok = False
  d = '__str__ missing'
  if strm is not None:
    rets = [n for n in walk_function(strm.node) if isinstance(n, ast.Return)]
    ok = bool(rets)
    for r in rets:
      first = _first_segment(r.value)
      good = (isinstance(first, ast.Call) and isinstance(first.func, ast.Name)
              and first.func.id == 'str' and len(first.args) == 1 and
              isinstance(first.args[0], ast.Attribute) and
              first.args[0].attr == base_attr and
              isinstance(first.args[0].value, ast.Name) and
              first.args[0].value.id == strm.params[0])
      if not good:
        # f-string form: f'{self.base}...' (str() of a formatted value)
        good = (isinstance(first, ast.FormattedValue) and
                first.conversion in (-1, 115) and first.format_spec is None and
                isinstance(first.value, ast.Attribute) and
                first.value.attr == base_attr)
      ok = ok and good
      d = f'__str__ returns `{unparse(r.value)}`; first segment `{unparse(first)}`'
  rs.check(ok, rule, f'{pc.qualname}:__str__', d,
           ctx.loc(mk, strm.node if strm else pc.node))
  # decorate_exception
  de = ctx.func('fiddle._src.reraised_exception.decorate_exception')
  g = ctx.cfg(de)
  exc_param = de.params[0]
  calls_factory = None
  for c in ctx.calls(de):
    if p.resolve(c.func, de) == mk.qualname:
      calls_factory = c
  ok = (calls_factory is not None and len(calls_factory.args) == 1 and
        isinstance(calls_factory.args[0], ast.Call) and
        isinstance(calls_factory.args[0].func, ast.Name) and
        calls_factory.args[0].func.id == 'type' and
        isinstance(calls_factory.args[0].args[0], ast.Name) and
        calls_factory.args[0].args[0].id == exc_param)
  rs.check(ok, rule, f'{de.qualname}:factory-arg',
           'proxy class is made from type(<the exception parameter>)',
           ctx.loc(de, de.node))
  # the proxy instance is constructed with (exception, message)
  ctor_ok = False
  for c in ctx.calls(de):
    if (len(c.args) >= 2 and isinstance(c.args[0], ast.Name) and
        c.args[0].id == exc_param and isinstance(c.args[1], ast.Name) and
        c.args[1].id == de.params[1]):
      ctor_ok = True
  rs.check(ctor_ok, rule, f'{de.qualname}:proxy-args',
           'proxy instance receives (original exception, message) in that '
           'order', ctx.loc(de, de.node))
  # fallback: each handler returns the exception parameter itself
  hs = [n for n in walk_function(de.node) if isinstance(n, ast.ExceptHandler)]
  ok = bool(hs)
  for h in hs:
    hn = [n for n in g.nodes() if g.stmt[n] is h and g.kind[n] == 'handler']
    for n in hn:
      r = g.reach([n], labels=cfg_lib.NO_EXC)
      rets = [x for x in r if isinstance(g.stmt[x], ast.Return)]
      if not rets:
        ok = False
      for x in rets:
        v = g.stmt[x].value
        if not (isinstance(v, ast.Name) and v.id == exc_param):
          ok = False
  rs.check(ok, rule, f'{de.qualname}:fallback',
           'when the proxy cannot be created the original exception object is '
           'returned', ctx.loc(de, de.node))


def _first_segment(e):
  while isinstance(e, ast.BinOp) and isinstance(e.op, ast.Add):
    e = e.left
  if isinstance(e, ast.JoinedStr) and e.values:
    return e.values[0]
  return e


def _message_path(ctx: Ctx, rs: RuleSet):
  from fdlstatic.rules import c08
  p = ctx.p
  rule = 'DEFUSE.message-path'
  rs.declare(rule, 'the diagnostic names the current_path of the state that '
             'invoked the failing Buildable', 3)
  bf = ctx.func(BUILD)
  cb_q = 'fiddle._src.building.call_buildable'
  mm_q = 'fiddle._src.building._make_message'
  inner = list(ctx.p.callbacks(bf))
  found = 0
  for f in inner:
    for c in ctx.calls(f):
      if p.resolve(c.func, f) == cb_q:
        found += 1
        v = kwarg(c, 'current_path')
        state_params = [x for x in f.params[1:]]
        ok = (isinstance(v, ast.Attribute) and v.attr == 'current_path' and
              isinstance(v.value, ast.Name) and v.value.id in state_params)
        first = c.args[0] if c.args else None
        ok2 = isinstance(first, ast.Name) and first.id == f.params[0]
        rs.check(ok and ok2, rule, f'{f.qualname}:call_buildable',
                 f'call_buildable({unparse(first) if first else "?"}, ..., '
                 f'current_path={unparse(v) if v else "?"}) uses the visited '
                 'value and the state it was visited with', ctx.loc(f, c))
  if not found:
    raise AnalysisError('build._build no longer calls call_buildable')
  cb = ctx.func(cb_q)
  # the message function: whatever is bound (functools.partial) and handed to
  # try_with_lazy_message around __build__ - wherever it lives
  TWLq = 'fiddle._src.reraised_exception.try_with_lazy_message'
  lazy_args = [it.context_expr.args[0] for n in walk_function(cb.node)
               if isinstance(n, ast.With) for it in n.items
               if isinstance(it.context_expr, ast.Call) and p.resolve(
                   it.context_expr.func, cb) == TWLq and it.context_expr.args]
  mm = None
  ok = False
  path_param = [x for x in cb.params if 'path' in x]
  env: set = set()   # expressions of `mm` that denote this call's path

  def _bind_to(target, pos, kws):
    """parameter -> argument for `target(*pos, **kws)` (no call node needed)."""
    pseudo = ast.Call(func=ast.Name(id='_', ctx=ast.Load()), args=list(pos),
                      keywords=list(kws))
    from fdlstatic import inline as _inl
    return _inl._bind(target, pseudo)  # pylint: disable=protected-access

  def _is(e, names):
    return isinstance(e, ast.Name) and e.id in names

  for la in lazy_args:
    la_d = roles.deref(cb, la) if isinstance(la, ast.Name) else la
    for e in roles.expand(cb, la, 2):
      if isinstance(e, ast.Call) and unparse(e.func).endswith(
          'partial') and e.args:
        tq = p.resolve(e.args[0], cb)
        if tq in p.funcs:
          mm = p.funcs[tq]
          b = _bind_to(mm, e.args[1:], e.keywords) or {}
          # parameters left for the caller of the partial object do not
          # matter; the path and the buildable must be bound here
          if not b:
            prm = [x for x in mm.params]
            b = dict(zip(prm, e.args[1:]))
            b.update({k.arg: k.value for k in e.keywords if k.arg})
          env = {k for k, v in b.items() if _is(v, path_param)}
          ok = bool(env) and any(_is(v, cb.params[:1]) for v in b.values())
    # ... or a closure / lambda that calls the message function
    closure = None
    if isinstance(la, ast.Name) and la.id in cb.nested:
      closure = cb.nested[la.id]
    elif isinstance(la, ast.Lambda):
      closure = next((l_ for l_ in cb.lambdas if l_.node is la), None)
    if closure is not None and mm is None:
      ret_, _ = c08.fn_return(closure)
      if isinstance(ret_, ast.Call):
        tq = p.resolve(ret_.func, closure)
        if tq in p.funcs:
          mm = p.funcs[tq]
          b = ctx.bound_args(ret_, closure) or {}
          env = {k for k, v in b.items() if _is(v, path_param)}
          ok = bool(env) and any(_is(v, cb.params[:1]) for v in b.values()) and (
              not closure.params)
    # ... or a bound method of a record made from this call's values:
    # `site = _CallSite(current_path=current_path, buildable=buildable, ...)`
    # and `site.describe` handed on
    if mm is None and isinstance(la_d, ast.Attribute):
      inst = roles.deref(cb, la_d.value) if isinstance(
          la_d.value, ast.Name) else la_d.value
      if isinstance(inst, ast.Call):
        cq = p.resolve(inst.func, cb)
        meth = p.find_method(cq, la_d.attr) if cq in p.classes else None
        b = ctx.bound_args(inst, cb) if meth is not None else None
        if meth is not None and b and meth.params:
          mm = meth
          slf = meth.params[0]
          env = {f'{slf}.{k}' for k, v in b.items() if _is(v, path_param)}
          ok = bool(env) and any(_is(v, cb.params[:1]) for v in b.values()) and (
              len(meth.params) == 1)
  if mm is None:
    mm = ctx.func(mm_q)
    env = set(mm.params[:1])
  mm_q = mm.qualname
  rs.check(ok, rule, f'{cb_q}:make_message',
           '_make_message is bound to this call\'s current_path and buildable',
           ctx.loc(cb, cb.node))
  # the with-block wrapping __build__ is try_with_lazy_message(...)
  ok = False
  for n in walk_function(cb.node):
    if isinstance(n, ast.With):
      for it in n.items:
        if isinstance(it.context_expr, ast.Call) and p.resolve(
            it.context_expr.func, cb
        ) == 'fiddle._src.reraised_exception.try_with_lazy_message':
          for sub in walk_stmts(n.body):
            if isinstance(sub, ast.Call) and isinstance(
                sub.func, ast.Attribute) and sub.func.attr == '__build__':
              ok = True
  rs.check(ok, rule, f'{cb_q}:wrap',
           '__build__ is invoked inside try_with_lazy_message',
           ctx.loc(cb, cb.node))
  # the message formats that path with path_str - itself, or in a function it
  # hands the path to
  def _path_flows(fn, names, depth=0):
    for c in ctx.calls(fn):
      if p.resolve(c.func, fn) == 'fiddle._src.daglish.path_str' and c.args and (
          unparse(roles.deref(fn, c.args[0])) in names or
          unparse(c.args[0]) in names):
        return True
    if depth >= 2:
      return False
    for c in ctx.calls(fn):
      h = p.funcs.get(p.resolve(c.func, fn) or '')
      if h is None or h.is_lambda or h is fn:
        continue
      b = ctx.bound_args(c, fn) or {}
      sub = {k for k, v in b.items() if unparse(v) in names or unparse(
          roles.deref(fn, v)) in names}
      if sub and _path_flows(h, sub, depth + 1):
        return True
    return False

  ok = bool(env) and _path_flows(mm, env)
  rs.check(ok, rule, f'{mm_q}:path_str',
           'message is built from path_str(current_path)', ctx.loc(mm, mm.node))

MANIFEST = dict(
    text=('Decides the structural clauses of C05 on every path of the current '
          'source: guard set/restore pairing on all normal, exceptional and '
          'generator-close exits; rejection of nested builds before the flag '
          'is touched; no exception handler on the build path swallows an '
          'exception that may come from a configured callable; the proxy '
          'exception derives from the original class and its message starts '
          'with the original message; the diagnostic path is the traversal '
          'state\'s current path. These are necessary conditions that hold for '
          'every input, failing node and exception class; the behavioural '
          'remainder (that the named path resolves, behaviour of the '
          'composed message for exotic classes) is not decided.'),
    note=('Trusted: Python ast of the working tree, the CFG construction '
          '(every statement may raise; yield may raise GeneratorExit), the '
          'call graph (exact, reference and nested edges; calls through '
          'callable parameters are treated as reaching user code). Context '
          'managers from the standard library are assumed not to swallow '
          'exceptions.'),
    technique='static analysis: CFG post-dominance (set/restore pairing), dominance, call-graph closure + handler path analysis, syntactic shape rules',
)
