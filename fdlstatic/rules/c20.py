"""C20 - meaning-preserving transformations preserve what is built."""
from __future__ import annotations

import ast
from typing import List, Optional, Set

from fdlstatic import cfg as cfg_lib
from fdlstatic.ctx import Ctx, kwarg
from fdlstatic.keykind import KeyKind, _is_keyed_map
from fdlstatic.model import AnalysisError, FuncInfo, unparse, walk_function, walk_stmts
from fdlstatic import roles
from fdlstatic.report import RuleSet
from fdlstatic.rules import c14, ownrule
from fdlstatic.rules.sigrules import KINDS, kinds_on_branch

S = 'fiddle._src'
EXPLANATION = (
    'Static clauses of C20 decided on the current source: (PK) a loop over '
    'the signature\'s parameters that reaches the argument store through the '
    'parameter *name* (membership, subscript, setattr/getattr) does so only '
    'on paths where the parameter kind cannot be positional-only or variadic '
    '(those are stored by index) - so materialize_defaults works for '
    'positional-only parameters with defaults; it stores exactly the '
    'parameter\'s default and only when the argument is not set (idempotent); '
    '(KD) argument maps with int keys are not splatted as keyword arguments '
    '(auto_config.inline: known finding) and with_defaults_trimmed only '
    'deletes str-keyed arguments, only when the stored value equals the '
    'default and the parameter is not **kwargs; (SHAPE) unintern_tuples '
    'rebuilds every node with internables un-memoized; Partial '
    'simplification replaces a node by its callable only if it is exactly a '
    'Partial without non-default arguments; clear_argument_history rebuilds '
    'Buildables from the same values with metadata minus history; '
    'materialize_tags unwraps a TaggedValue only when it has a value; '
    'dataclass conversion passes every init field of the instance; inline '
    'moves the internals of as_buildable(**arguments) into the original '
    'object; (OWN) the copy-returning transformations do not modify their '
    'input. Not decided: equality of the built object graphs.')
ASSUMPTIONS = ['see C17 for the ownership analysis']


def param_name_storage_uses(ctx: Ctx, f: FuncInfo):
  """For loops over `.parameters`: (loop, name-expr uses reaching storage)."""
  g = ctx.cfg(f)
  out = []
  for n in g.nodes():
    if g.kind[n] != 'for':
      continue
    L = g.stmt[n]
    it = L.iter
    src = unparse(it)
    if '.parameters' not in src:
      # `parameters = X.parameters.values()` followed by enumerate(parameters)
      names = {x.id for x in ast.walk(it) if isinstance(x, ast.Name)}
      ok = False
      for s in walk_function(f.node):
        if isinstance(s, ast.Assign) and isinstance(
            s.targets[0], ast.Name) and s.targets[0].id in names and (
                '.parameters' in unparse(s.value)):
          ok = True
      if not ok:
        continue
    tnames = [x.id for x in ast.walk(L.target) if isinstance(x, ast.Name)]
    # the parameter object variable and/or the name variable
    name_exprs: Set[str] = set()
    for t in tnames:
      name_exprs.add(f'{t}.name')
    if '.items()' in src and isinstance(L.target, ast.Tuple):
      name_exprs.add(tnames[0])
    if src.endswith('.parameters') and isinstance(L.target, ast.Name):
      name_exprs.add(tnames[0])
    body_nodes = g.reach([m for m, lab in g.succ[n] if lab == 'iter'],
                         blocked={n}, labels=cfg_lib.NO_EXC)
    uses = []
    for b in body_nodes:
      for e in cfg_lib.walk_node(g, b):
        txt = None
        if isinstance(e, ast.Compare) and isinstance(
            e.ops[0], (ast.In, ast.NotIn)) and unparse(
                e.left) in name_exprs and _is_keyed_map(e.comparators[0]):
          txt = unparse(e)
        elif isinstance(e, ast.Subscript) and unparse(
            e.slice) in name_exprs and _is_keyed_map(e.value):
          txt = unparse(e)
        elif isinstance(e, ast.Call) and isinstance(
            e.func, ast.Name) and e.func.id in (
                'setattr', 'getattr', 'delattr', 'hasattr') and len(
                    e.args) >= 2 and unparse(e.args[1]) in name_exprs:
          txt = unparse(e)
        if txt:
          uses.append((b, e, txt))
    out.append((n, L, uses))
  return g, out


def loop_source(f: FuncInfo, L: ast.For):
  """(sequence expression, [filter tests], enumerated?) the loop draws from.

  Follows `enumerate(...)`, a local assigned once, and a list / generator
  comprehension `[a for a in SEQ if TEST...]` (whose tests hold for every
  element the loop sees).
  """
  it = L.iter
  enumerated = False
  tests: List[ast.expr] = []
  for _ in range(6):
    if isinstance(it, ast.Call) and unparse(it.func) == 'enumerate' and it.args:
      enumerated = True
      it = it.args[0]
    elif isinstance(it, ast.Call) and unparse(it.func) in (
        'list', 'tuple') and len(it.args) == 1:
      it = it.args[0]
    elif isinstance(it, ast.Name):
      defs = [s.value for s in walk_function(f.node)
              if isinstance(s, ast.Assign) and any(
                  isinstance(t, ast.Name) and t.id == it.id
                  for t in s.targets)]
      if len(defs) != 1:
        break
      it = defs[0]
    elif isinstance(it, (ast.ListComp, ast.GeneratorExp)) and len(
        it.generators) == 1 and isinstance(it.elt, ast.Name) and isinstance(
            it.generators[0].target, ast.Name) and (
                it.elt.id == it.generators[0].target.id):
      tests += it.generators[0].ifs
      it = it.generators[0].iter
    else:
      break
  return it, tests, enumerated


def _has_default_test(t, branch: bool) -> Optional[bool]:
  """True/False if `t` evaluating to `branch` tells a default exists / not."""
  if isinstance(t, ast.Compare) and len(t.ops) == 1 and isinstance(
      t.left, ast.Attribute) and t.left.attr == 'default' and isinstance(
          t.comparators[0], ast.Attribute) and (
              t.comparators[0].attr == 'empty'):
    if isinstance(t.ops[0], ast.IsNot):
      return branch
    if isinstance(t.ops[0], ast.Is):
      return not branch
  return None


def kinds_reaching(g, head: int, node: int, pre_tests=()) -> Set[str]:
  """Parameter kinds possible at `node` within one iteration of loop `head`.

  `pre_tests` hold for every element (filters of the comprehension the loop
  iterates).
  """
  result: Set[str] = set()
  seen = set()
  start = set(KINDS)
  for t in pre_tests:
    kb = kinds_on_branch(t, True)
    if kb is not None:
      start &= kb
    if _has_default_test(t, True):
      start -= {'VAR_POSITIONAL', 'VAR_KEYWORD'}

  def dfs(n, kinds):
    key = (n, frozenset(kinds))
    if key in seen or not kinds:
      return
    seen.add(key)
    if n == node:
      result.update(kinds)
      return
    for m, lab in g.succ[n]:
      if lab == 'exc':
        continue
      if n == head and lab != 'iter':
        continue
      if m == head:
        continue
      ks = kinds
      if g.kind[n] == 'if' and lab in ('true', 'false'):
        kb = kinds_on_branch(g.stmt[n].test, lab == 'true')
        if kb is not None:
          ks = kinds & kb
        # variadic parameters cannot have a default (language rule)
        t = g.stmt[n].test
        if isinstance(t, ast.Compare) and len(t.ops) == 1 and isinstance(
            t.left, ast.Attribute) and t.left.attr == 'default' and isinstance(
                t.comparators[0], ast.Attribute) and (
                    t.comparators[0].attr == 'empty'):
          has_default = (isinstance(t.ops[0], ast.IsNot) and lab == 'true') or (
              isinstance(t.ops[0], ast.Is) and lab == 'false')
          if has_default:
            ks = ks - {'VAR_POSITIONAL', 'VAR_KEYWORD'}
      dfs(m, ks)

  dfs(head, start)
  return result


def run(ctx: Ctx, rs: RuleSet, tier: str):
  p = ctx.p
  # ---- PK
  rule = 'PK.name-reaches-storage'
  rs.declare(rule, 'parameter names reach the argument store only for kinds '
             'that are stored by name', 2)
  targets = [f'{S}.materialize.materialize_defaults.traverse']
  n_uses = 0
  for q in targets:
    f = roles.stable_view(ctx.func(q))
    g, loops = param_name_storage_uses(ctx, f)
    if not loops:
      raise AnalysisError(f'{q}: no loop over the signature parameters found')
    for head, L, uses in loops:
      _, pre, _ = loop_source(f, L)
      for b, e, txt in uses:
        n_uses += 1
        ks = kinds_reaching(g, head, b, pre)
        bad = ks & {'POSITIONAL_ONLY', 'VAR_POSITIONAL'}
        rs.check(not bad, rule, f'{q}:`{txt[:60]}`',
                 f'reached only for kinds {sorted(ks)}' if not bad else
                 f'`{txt}` addresses the argument by name but can be reached '
                 f'for {sorted(bad)} parameters, which are stored by index: '
                 'the lookup misses the stored value / the assignment is '
                 'rejected', ctx.loc(f, e))
  # materialize_defaults stores the default itself, only when unset
  f = roles.stable_view(
      ctx.func(f'{S}.materialize.materialize_defaults.traverse'))
  g = ctx.cfg(f)
  stores = []
  for n in g.nodes():
    for e in cfg_lib.walk_node(g, n):
      if isinstance(e, ast.Call) and unparse(e.func) == 'setattr' and len(
          e.args) == 3:
        stores.append((n, e, unparse(e.args[2])))
    st = g.stmt[n]
    if g.kind[n] == 'stmt' and isinstance(st, ast.Assign) and isinstance(
        st.targets[0], ast.Subscript):
      stores.append((n, st, unparse(st.value)))
  rule2 = 'SHAPE.materialize-defaults'
  rs.declare(rule2, 'stores exactly the default, only when a default exists '
             'and the argument is not set', 2)
  for n, e, val in stores:
    is_default = val.endswith('.default')
    # guarded by a membership test on __arguments__ (not set) ...
    unset_guard = [m for m in g.nodes() if g.kind[m] == 'if' and any(
        isinstance(c, ast.Compare) and isinstance(c.ops[0], (ast.NotIn, ast.In))
        and _is_keyed_map(c.comparators[0])
        for c in ast.walk(g.stmt[m].test))]
    guarded = any(g.dominated_by(n, {m}, labels=cfg_lib.NO_EXC)
                  for m in unset_guard)
    # ... and by a test on `.default is (not) .empty`
    has_default = [m for m in g.nodes() if g.kind[m] == 'if' and
                   '.default' in unparse(g.stmt[m].test) and
                   '.empty' in unparse(g.stmt[m].test)]
    dflt_guard = any(g.dominated_by(n, {m}, labels=cfg_lib.NO_EXC)
                     for m in has_default)
    if not dflt_guard:
      # or the loop only sees parameters that have a default
      for m in g.nodes():
        if g.kind[m] == 'for' and g.dominated_by(n, {m}, labels=cfg_lib.NO_EXC):
          _, pre, _ = loop_source(f, g.stmt[m])
          if any(_has_default_test(t, True) for t in pre):
            dflt_guard = True
    rs.check(is_default and guarded and dflt_guard, rule2,
             f'{f.qualname}:`{unparse(e)[:50]}`',
             f'stores `{val}`; only-if-unset={guarded}; '
             f'only-if-default-exists={dflt_guard}', ctx.loc(f, e))
  # a dataclass field with default_factory has a placeholder object as its
  # signature default: it is never stored as a value
  rule5 = 'SHAPE.factory-placeholder'
  rs.declare(rule5, 'materialize_defaults never stores the placeholder that '
             'stands for a dataclass default_factory', 1)
  loop_heads = {m for m in g.nodes() if g.kind[m] == 'for'}
  fac_tests = [m for m in g.nodes() if g.kind[m] == 'if' and any(
      isinstance(c, ast.Call) and unparse(c.func).split('.')[-1].lstrip(
          '_') == 'field_uses_default_factory'
      for c in ast.walk(g.stmt[m].test))]
  for n, e, _ in stores:
    ok = any(g.dominated_by(n, {m}, labels=cfg_lib.NO_EXC) and n not in g.reach(
        [x for x, lab in g.succ[m] if lab == 'true'], blocked=loop_heads | {m},
        labels=cfg_lib.NO_EXC) for m in fac_tests)
    rs.check(ok, rule5, f'{f.qualname}:`{unparse(e)[:50]}`:factory',
             'skipped for default_factory fields' if ok else
             f'`{unparse(e)[:60]}` can store the signature default of a '
             'dataclass field that uses default_factory - a private '
             'placeholder object, not a value: the configuration still builds '
             'but can no longer be serialized (UnserializableValueError)',
             ctx.loc(f, e))

  # the index under which a positional-only default is stored is the
  # parameter's position in the whole signature
  rule4 = 'IDX.signature-position'
  rs.declare(rule4, 'index keys are positions in the complete parameter '
             'list', 1)
  for n, e, _ in stores:
    if not isinstance(e, ast.Assign):
      continue
    key = e.targets[0].slice
    ok, why = False, f'`{unparse(key)}` is not a loop index'
    for m in g.nodes():
      if g.kind[m] == 'for' and g.dominated_by(n, {m}, labels=cfg_lib.NO_EXC):
        L = g.stmt[m]
        if isinstance(L.target, ast.Tuple) and isinstance(
            key, ast.Name) and unparse(L.target.elts[0]) == key.id:
          seq, pre, enumerated = loop_source(f, L)
          whole = unparse(seq).endswith(('.parameters.values()',
                                         '.parameters'))
          ok = enumerated and whole and not pre
          why = (f'`{key.id}` enumerates `{unparse(seq)}`' if ok else
                 f'`{key.id}` counts the elements of a filtered / different '
                 f'sequence (`{unparse(L.iter)[:50]}`'
                 + (f' with filter `{unparse(pre[0])[:40]}`' if pre else '') +
                 '), not positions in the signature: for def f(x, a=2, b=3, /)'
                 ' the default of b is stored in the slot of a')
    rs.check(ok, rule4, f'{f.qualname}:`{unparse(e)[:50]}`', why,
             ctx.loc(f, e))

  # a positional-only default is stored by index only when no earlier
  # positional-only parameter is left unset (a value cannot be passed
  # positionally after a gap: a Partial that built before would not build)
  rule3 = 'GAP.positional-default'
  rs.declare(rule3, 'index-keyed defaults are materialized only when every '
             'earlier positional-only parameter has a value', 1)
  idx_stores = [(n, e) for n, e, _ in stores if isinstance(e, ast.Assign)]
  for n, e in idx_stores:
    ok = False
    why = 'no gap flag found'
    for m in g.nodes():
      if g.kind[m] != 'if':
        continue
      t = g.stmt[m].test
      flags = []
      for u in ast.walk(t):
        if isinstance(u, ast.UnaryOp) and isinstance(
            u.op, ast.Not) and isinstance(u.operand, ast.Name):
          flags.append(u.operand.id)
      for flag in flags:
        # store only on the branch where the flag is false
        tr = g.reach([x for x, lab in g.succ[m] if lab == 'true'],
                     labels=cfg_lib.NO_EXC)
        if not (g.dominated_by(n, {m}, labels=cfg_lib.NO_EXC) and n in tr):
          continue
        sets = [k for k in g.nodes() if g.kind[k] == 'stmt' and isinstance(
            g.stmt[k], ast.Assign) and any(
                isinstance(x, ast.Name) and x.id == flag
                for x in g.stmt[k].targets)]
        init = [k for k in sets if isinstance(
            g.stmt[k].value, ast.Constant) and g.stmt[k].value.value is False]
        raised = [k for k in sets if isinstance(
            g.stmt[k].value, ast.Constant) and g.stmt[k].value.value is True]
        # the flag is raised exactly where a positional-only parameter
        # without default is found unset
        raised_ok = bool(raised) and all(
            any(g.kind[c] == 'if' and g.dominated_by(
                k, {c}, labels=cfg_lib.NO_EXC) and
                'POSITIONAL_ONLY' in unparse(g.stmt[c].test) and any(
                    isinstance(cc, ast.Compare) and isinstance(
                        cc.ops[0], ast.NotIn) and _is_keyed_map(
                            cc.comparators[0])
                    for cc in ast.walk(g.stmt[c].test))
                for c in g.nodes()) for k in raised)
        # ... and never lowered again inside the loop
        if init and raised_ok and len(sets) == len(init) + len(raised) and len(
            init) == 1:
          ok = True
          why = (f'guarded by `not {flag}`; {flag} starts False and is raised '
                 'when a positional-only parameter without default is unset')
    rs.check(ok, rule3, f'{f.qualname}:`{unparse(e)[:50]}`',
             why if ok else
             f'`{unparse(e)}` materializes a positional-only default even when '
             'an earlier positional-only parameter has no value: '
             'fdl.Partial(f) for def f(x, factor=2, /) built before and '
             'fails afterwards ("Cannot pass a positional argument after '
             'the positional parameter x")', ctx.loc(f, e))

  ok = any('yield_map_child_values' in unparse(c.func) for c in ctx.calls(f))
  md = ctx.func(f'{S}.materialize.materialize_defaults')
  ok = ok and any(p.resolve(c.func, md) == 'fiddle._src.daglish.Traversal.run'
                  for c in ctx.calls(md))
  rs.check(ok, rule2, f'{md.qualname}:walk',
           'every reachable node is visited (memoized traversal, children '
           'walked)', ctx.loc(md, md.node))

  # ---- KD: keyed maps splatted as keyword arguments; str-only deletes
  rule = 'KD.transform-keys'
  rs.declare(rule, 'int-keyed argument maps are not used where only str keys '
             'work', 3)
  for q in (f'{S}.experimental.auto_config.inline',
            f'{S}.experimental.visualize.with_defaults_trimmed.traverse_fn',
            f'{S}.experimental.dataclasses.convert_dataclasses_to_configs.traverse'):
    f = ctx.func(q)
    k = KeyKind(f, ctx.cfg(f)).run()
    for node, desc in k.ok:
      rs.ok(rule, f'{q}:{desc}', 'the key is known to be a str here',
            ctx.loc(f, node))
    for node, desc in k.bad:
      rs.fail(rule, f'{q}:{desc}', f'{desc}: int keys reach a str-only use',
              ctx.loc(f, node))
    splats = [c for c in ctx.calls(f) for kw in c.keywords
              if kw.arg is None and _is_keyed_map(kw.value)]
    for c in splats:
      rs.fail(rule, f'{q}:**{unparse([kw.value for kw in c.keywords if kw.arg is None][0])}',
              f'`{unparse(c)[:70]}` passes the argument map as keyword '
              'arguments; positional arguments are stored under int keys and '
              'make the call raise TypeError', ctx.loc(f, c))
    if not k.ok and not k.bad and not splats:
      rs.ok(rule, f'{q}:none', 'no str-only use of argument keys',
            ctx.loc(f, f.node), nontrivial=False)

  # ---- with_defaults_trimmed: delete only if equal to the default
  rule = 'DOM.trim-only-defaults'
  rs.declare(rule, 'arguments are removed only when equal to their default '
             'and not part of **kwargs', 1)
  f = ctx.func(f'{S}.experimental.visualize.with_defaults_trimmed.traverse_fn')
  g = ctx.cfg(f)
  dels = [n for n in g.nodes() if any(
      isinstance(e, ast.Call) and unparse(e.func) == 'delattr'
      for e in cfg_lib.walk_node(g, n))]
  from fdlstatic import dispatch
  # two phases - the names are collected first (under the guard) and removed
  # afterwards, `for name in collect(value, state): delattr(value, name)`:
  # the guard obligations are then about where a name is collected
  def _collected_where(f0, g0, dels0):
    for d in dels0:
      calls_ = [e for e in cfg_lib.walk_node(g0, d) if isinstance(
          e, ast.Call) and unparse(e.func) == 'delattr' and len(e.args) == 2]
      if not calls_ or not isinstance(calls_[0].args[1], ast.Name):
        return None
      nm = calls_[0].args[1].id
      loops_ = [L for L in walk_function(f0.node) if isinstance(
          L, ast.For) and isinstance(L.target, ast.Name) and
                L.target.id == nm and any(x is calls_[0] for x in ast.walk(L))]
      if len(loops_) != 1:
        return None
      src = roles.deref(f0, loops_[0].iter)
      if not isinstance(src, ast.Call):
        return None
      h = ctx.p.funcs.get(ctx.p.resolve(src.func, f0) or '')
      if h is None or h.is_lambda:
        return None
      rets = [r for r in walk_function(h.node) if isinstance(r, ast.Return)]
      if len(rets) != 1 or not isinstance(rets[0].value, ast.Name):
        return None
      acc = rets[0].value.id
      gh = ctx.cfg(h)
      sites = [n for n in gh.nodes() if any(
          isinstance(e, ast.Call) and isinstance(e.func, ast.Attribute) and
          e.func.attr == 'append' and unparse(e.func.value) == acc
          for e in cfg_lib.walk_node(gh, n))]
      inits = [n for n in walk_function(h.node) if isinstance(
          n, ast.Assign) and unparse(n.targets[0]) == acc]
      if not sites or len(inits) != 1 or not (isinstance(
          inits[0].value, ast.List) and not inits[0].value.elts):
        return None
      return h, gh, sites
    return None

  moved = _collected_where(f, g, dels) if dels else None
  if moved is not None:
    f, g, dels = moved
  # <default of the parameter> == <the argument's value>, the value being
  # the loop variable over value.__arguments__.items()
  vals = {unparse(L.target.elts[1]) for L in walk_function(f.node)
          if isinstance(L, ast.For) and '.__arguments__.items()' in unparse(
              L.iter) and isinstance(L.target, ast.Tuple) and len(
                  L.target.elts) == 2}
  crd = ctx.func(f'{S}.experimental.visualize.with_defaults_trimmed.'
                 'can_remove_deep_default')

  def trim_atoms(equal, not_kwargs, unshared):
    def ev(t):
      if isinstance(t, ast.Compare) and len(t.ops) == 1 and isinstance(
          t.ops[0], (ast.Eq, ast.NotEq)):
        sides = (t.left, t.comparators[0])
        if {unparse(x) for x in sides} & vals and any(
            isinstance(x, ast.Attribute) and x.attr == 'default'
            for side in sides for x in roles.expand(f, side, 2)):
          if equal is None:
            return None
          return equal if isinstance(t.ops[0], ast.Eq) else not equal
        if any(unparse(x).endswith('.kind') for x in sides) and any(
            unparse(x).split('.')[-1] == 'VAR_KEYWORD' for x in sides):
          if not_kwargs is None:
            return None
          return not_kwargs if isinstance(t.ops[0], ast.NotEq) else (
              not not_kwargs)
      if isinstance(t, ast.Call) and isinstance(
          t.func, ast.Name) and t.func.id == crd.name:
        return unshared
      return None
    return dispatch.through_locals(f, ev)

  ok = bool(dels) and bool(vals) and all(
      d not in dispatch.reach_atoms(g, trim_atoms(False, None, None)) and
      d not in dispatch.reach_atoms(g, trim_atoms(None, False, None)) and
      d in dispatch.reach_atoms(g, trim_atoms(True, True, True))
      for d in dels)
  in_guard = bool(dels) and all(
      d not in dispatch.reach_atoms(g, trim_atoms(None, None, False))
      for d in dels)
  rs.check(ok, rule, f.qualname,
           'delattr is reached only through `default == value and kind != '
           'VAR_KEYWORD and ...`', ctx.loc(f, f.node))
  # ... and through the sharing check, which has no shortcut: a value equal
  # to the default that is also referenced elsewhere stays
  helpers = set(crd.nested)
  rets = [r for r in walk_function(crd.node) if isinstance(r, ast.Return)]
  shortcut = [r for r in rets if not (isinstance(r.value, ast.Call) and
                                      isinstance(r.value.func, ast.Name) and
                                      r.value.func.id in helpers)]
  rs.check(in_guard and bool(rets) and not shortcut, rule,
           f'{crd.qualname}:no-shortcut',
           'the removal guard calls can_remove_deep_default, whose only '
           'result is the sharing analysis' if in_guard and not shortcut else
           (f'`{unparse(shortcut[0])[:50]}` answers without the sharing '
            'analysis: an argument equal to its default whose object is also '
            'referenced elsewhere is trimmed, so the trimmed configuration is '
            'not == to the original and builds a graph that lost the sharing'
            if shortcut else 'the removal guard does not consult the sharing '
            'check'), ctx.loc(crd, shortcut[0] if shortcut else crd.node))

  # ---- SHAPE rules for the remaining transformations
  rule = 'SHAPE.transformations'
  rs.declare(rule, 'each transformation has the structure its meaning '
             'preservation rests on', 6)
  # unintern_tuples_of_literals
  f = ctx.func(f'{S}.experimental.transform.unintern_tuples_of_literals.transform')
  ok = False
  for c in ctx.calls(f):
    if p.resolve(c.func, f) == 'fiddle._src.daglish.MemoizedTraversal.begin':
      mi = kwarg(c, 'memoize_internables')
      ok = isinstance(mi, ast.Constant) and mi.value is False
  rets = [r for r in walk_function(f.node) if isinstance(r, ast.Return)]
  ok = ok and all('map_children' in unparse(r.value) for r in rets)
  rs.check(ok, rule, f.qualname,
           'rebuilds every node; internables are not memoized (each tuple '
           'occurrence gets its own object)', ctx.loc(f, f.node))
  # replace_unconfigured_partials_with_callables
  f = ctx.func(f'{S}.experimental.transform.'
               'replace_unconfigured_partials_with_callables.transform')
  from fdlstatic import dispatch
  g2 = ctx.cfg(f)
  vp2 = f.params[0]

  def partial_atoms(exact, has_args):
    def ev(t):
      if isinstance(t, ast.Compare) and len(t.ops) == 1 and isinstance(
          t.ops[0], (ast.Is, ast.IsNot)) and unparse(
              t.left) == f'type({vp2})' and unparse(
                  t.comparators[0]).split('.')[-1] == 'Partial':
        if isinstance(t.ops[0], ast.Is) or exact is None:
          return exact
        return not exact
      if isinstance(t, ast.Call) and unparse(t.func).split('.')[-1] == (
          'ordered_arguments') and [unparse(a_) for a_ in t.args] == [vp2]:
        ie = kwarg(t, 'include_equal_to_default')
        if isinstance(ie, ast.Constant) and ie.value is False and not kwarg(
            t, 'include_defaults'):
          return has_args
      return None
    return dispatch.through_locals(f, ev)

  repl = [n for n in g2.nodes() if g2.kind[n] == 'stmt' and isinstance(
      g2.stmt[n], (ast.Assign, ast.Return)) and any(
          isinstance(e, ast.Call) and unparse(e.func).split('.')[-1] == (
              'get_callable') and [unparse(a_) for a_ in e.args] == [vp2]
          for e in cfg_lib.walk_node(g2, n))]
  ok = bool(repl) and all(
      n not in dispatch.reach_atoms(g2, partial_atoms(False, None)) and
      n not in dispatch.reach_atoms(g2, partial_atoms(True, True)) and
      n in dispatch.reach_atoms(g2, partial_atoms(True, False)) for n in repl)
  rs.check(ok, rule, f.qualname,
           'a node is replaced by its callable only if it is exactly a '
           'Partial with no argument different from the default',
           ctx.loc(f, f.node))
  # clear_argument_history
  f = ctx.func(f'{S}.experimental.serialization.clear_argument_history.traverse')
  vp = f.params[0]
  sub = roles.assigned_from(f, lambda e: isinstance(e, ast.Call) and isinstance(
      e.func, ast.Attribute) and e.func.attr == 'flattened_map_children' and
                            [unparse(a) for a in e.args] == [vp])
  def is_meta(e):
    e = roles.deref(f, e)
    return (isinstance(e, ast.Call) and isinstance(e.func, ast.Attribute) and
            e.func.attr == 'without_history' and not e.args and
            isinstance(roles.deref(f, e.func.value), ast.Attribute) and
            roles.deref(f, e.func.value).attr == 'metadata' and
            unparse(roles.deref(f, e.func.value).value) in sub)

  def is_values(e):
    e = roles.deref(f, e)
    return isinstance(e, ast.Attribute) and e.attr == 'values' and unparse(
        e.value) in sub

  ok = any(isinstance(r, ast.Return) and isinstance(
      roles.deref(f, r.value), ast.Call) and
           isinstance(roles.deref(f, r.value).func, ast.Attribute) and
           roles.deref(f, r.value).func.attr == 'unflatten' and
           len(roles.deref(f, r.value).args) == 2 and
           is_values(roles.deref(f, r.value).args[0]) and
           is_meta(roles.deref(f, r.value).args[1])
           for r in walk_function(f.node) if isinstance(r, ast.Return) and
           r.value is not None)
  rs.check(ok, rule, f.qualname,
           'Buildables are rebuilt from the same (traversed) values with '
           'metadata minus history', ctx.loc(f, f.node), nontrivial=False)
  # materialize_tags
  f = ctx.func(f'{S}.tagging.materialize_tags.transform')
  vp = f.params[0]
  payload = f'{vp}.value'
  g3 = ctx.cfg(f)

  def tv_atoms(is_tv, has_value):
    def ev(t):
      if isinstance(t, ast.Call) and unparse(t.func) == 'isinstance' and len(
          t.args) == 2 and unparse(t.args[0]) == vp and unparse(
              t.args[1]).split('.')[-1] == 'TaggedValueCls':
        return is_tv
      if isinstance(t, ast.Compare) and len(t.ops) == 1 and {
          unparse(t.left), unparse(t.comparators[0]).split('.')[-1]} == {
              payload, 'NO_VALUE'}:
        if isinstance(t.ops[0], (ast.NotEq, ast.IsNot)):
          return has_value
        if isinstance(t.ops[0], (ast.Eq, ast.Is)):
          return None if has_value is None else not has_value
      return None
    return dispatch.through_locals(f, ev)

  def payloads(is_tv, has_value):
    return [v for v in dispatch.returned_under(
        g3, tv_atoms(is_tv, has_value), f)
            if unparse(roles.deref(f, v)) == payload]

  ok = (bool(payloads(True, True)) and not payloads(True, False) and
        not payloads(False, None))
  rs.check(ok, rule, f.qualname,
           'a TaggedValue is unwrapped only when it holds a value',
           ctx.loc(f, f.node))
  # convert_dataclasses_to_configs
  f = ctx.func(f'{S}.experimental.dataclasses.convert_dataclasses_to_configs.traverse')
  ok = False
  vpd = f.params[0]
  for c in roles.both_forms(f):
    if isinstance(c, ast.Call) and unparse(c.func).split('.')[-1] == (
        'Config') and c.args and unparse(c.args[0]) == f'type({vpd})':
      for kw in c.keywords:
        dc = kw.value if kw.arg is None else None
        if isinstance(dc, ast.Name):
          dc = roles.deref(f, dc)
        if isinstance(dc, ast.DictComp) and len(
            dc.generators) == 1 and isinstance(
                dc.generators[0].target, ast.Name):
          fv = dc.generators[0].target.id
          ok = ok or (
              unparse(dc.key) == f'{fv}.name' and
              unparse(dc.value) == f'getattr({vpd}, {fv}.name)' and
              f'dataclasses.fields({vpd})' in unparse(dc.generators[0].iter)
              and [unparse(i) for i in dc.generators[0].ifs] == [f'{fv}.init'])
  rs.check(ok, rule, f.qualname,
           'Config(type(value), **{every init field: its value})',
           ctx.loc(f, f.node))
  # dataclasses with a __post_init__ (own or inherited) are refused
  vp = f.params[0]
  gcf = ctx.cfg(f)
  ok = False
  why = 'no raising test for __post_init__ found'
  for m in gcf.nodes():
    if gcf.kind[m] != 'if' or '__post_init__' not in unparse(gcf.stmt[m].test):
      continue
    t = gcf.stmt[m].test
    mro_lookup = any(isinstance(c, ast.Call) and unparse(c.func) in (
        'hasattr', 'getattr') and len(c.args) >= 2 and unparse(c.args[0]) in (
            f'type({vp})', vp) and isinstance(
                c.args[1], ast.Constant) and c.args[1].value == '__post_init__'
                     for c in ast.walk(t))
    own_only = any((isinstance(c, ast.Call) and unparse(c.func) == 'vars') or (
        isinstance(c, ast.Attribute) and c.attr == '__dict__')
                   for c in ast.walk(t))
    r = gcf.reach([x for x, lab in gcf.succ[m] if lab == 'true'],
                  labels=cfg_lib.NO_EXC)
    raises = gcf.exit not in r and gcf.raise_exit in r
    ok = mro_lookup and not own_only and raises
    why = ('hasattr(type(value), "__post_init__") raises unless allowed' if ok
           else 'the __post_init__ test looks only at the class\'s own '
           'namespace (vars / __dict__): a dataclass that inherits a '
           '__post_init__ is converted, and building the result runs the '
           'hook a second time on already processed field values'
           if own_only else 'the __post_init__ test does not raise')
  rs.check(ok, rule, f'{f.qualname}:post-init', why, ctx.loc(f, f.node))
  # inline
  f = ctx.func(f'{S}.experimental.auto_config.inline')
  ok = False
  tmp = None
  for n in walk_function(f.node):
    if isinstance(n, ast.Assign) and isinstance(n.value, ast.Call) and (
        isinstance(n.value.func, ast.Attribute) and
        n.value.func.attr == 'as_buildable'):
      tmp = unparse(n.targets[0])
  for c in ctx.calls(f):
    if p.resolve(c.func, f) == (
        'fiddle._src.mutate_buildable.move_buildable_internals'):
      ok = (unparse(kwarg(c, 'source')) == tmp and
            unparse(kwarg(c, 'destination')) == f.params[0])
  rs.check(ok, rule, f.qualname,
           'the internals of as_buildable(...) are moved into the original '
           'object', ctx.loc(f, f.node))

  # ---- parts of a node are handed on only after the node was rebuilt
  rule = 'DOM.extract-after-rebuild'
  rs.declare(rule, 'a rebuilding callback returns a part of the visited node '
             '(value.x / value[k]) only after value = state.map_children('
             'value): the part is the traversal\'s memoized copy, not the '
             'caller\'s object', 1)
  callbacks = [
      f'{S}.tagging.materialize_tags.transform',
      f'{S}.experimental.transform.unintern_tuples_of_literals.transform',
      f'{S}.experimental.transform.replace_unconfigured_partials_with_callables.transform',
      f'{S}.experimental.serialization.clear_argument_history.traverse',
      f'{S}.experimental.visualize.with_defaults_trimmed.traverse_fn',
      f'{S}.experimental.dataclasses.convert_dataclasses_to_configs.traverse',
  ]
  n_sites = 0
  for q in callbacks:
    f = ctx.func(q)
    g = ctx.cfg(f)
    node_p = f.params[0]
    rebinds = {m for m in g.nodes() if g.kind[m] == 'stmt' and isinstance(
        g.stmt[m], ast.Assign) and any(
            unparse(t) == node_p for t in g.stmt[m].targets) and (
                'map_children' in unparse(g.stmt[m].value))}
    def is_part(e):
      return (isinstance(e, (ast.Attribute, ast.Subscript)) and
              unparse(e.value) == node_p and not (
                  isinstance(e, ast.Attribute) and e.attr.startswith('__')))

    returned_names = {g.stmt[n].value.id for n in g.nodes() if isinstance(
        g.stmt[n], ast.Return) and isinstance(g.stmt[n].value, ast.Name)}
    for n in g.nodes():
      st = g.stmt[n]
      if g.kind[n] != 'stmt':
        continue
      # the node where the part is read: `return value.x`, or `p = value.x`
      # for a local that is returned
      if isinstance(st, ast.Return) and st.value is not None and is_part(
          st.value):
        read = st.value
      elif isinstance(st, ast.Assign) and is_part(st.value) and any(
          isinstance(t, ast.Name) and t.id in returned_names
          for t in st.targets):
        read = st.value
      else:
        continue
      n_sites += 1
      ok = bool(rebinds) and g.dominated_by(n, rebinds, labels=cfg_lib.NO_EXC)
      rs.check(ok, rule, f'{q}:`{unparse(read)[:50]}`',
               f'`{unparse(read)}` is read from the rebuilt node' if ok
               else f'`{unparse(st)}` hands back a part of the caller\'s own '
               f'node (`{node_p}` has not been rebuilt by map_children on '
               'this path): where that part is also reachable through another '
               'path the result holds the original object in one place and '
               'the traversal\'s copy in the other - sharing differs from the '
               'input, the build creates two objects instead of one, and the '
               'result aliases the input', ctx.loc(f, st))
  if n_sites == 0:
    rs.ok(rule, 'no-direct-part-return',
          'no rebuilding callback returns a part of the visited node directly '
          '(payloads are handed on through the traversal)', '',
          nontrivial=True)

  # ---- OWN
  ownrule.run_entry_points(
      ctx, rs, 'OWN.input-unmodified', [
          f'{S}.experimental.visualize.with_defaults_trimmed',
          f'{S}.experimental.transform.unintern_tuples_of_literals',
          f'{S}.experimental.transform.replace_unconfigured_partials_with_callables',
          f'{S}.experimental.serialization.clear_argument_history',
          f'{S}.tagging.materialize_tags',
          f'{S}.experimental.dataclasses.convert_dataclasses_to_configs',
      ], inputs={
          f'{S}.experimental.visualize.with_defaults_trimmed': ['config'],
          f'{S}.experimental.transform.unintern_tuples_of_literals': ['buildable'],
          f'{S}.experimental.transform.replace_unconfigured_partials_with_callables': ['buildable'],
          f'{S}.experimental.serialization.clear_argument_history': ['buildable'],
          f'{S}.tagging.materialize_tags': ['buildable'],
          f'{S}.experimental.dataclasses.convert_dataclasses_to_configs': ['root'],
      })


MANIFEST = dict(
    text=('Decides structural clauses of C20: parameter-kind discipline of '
          'materialize_defaults by path enumeration with kind refinement, '
          'default-only and only-if-unset stores, key-kind safety of the '
          'transformations (keyword splat of int-keyed maps), '
          'delete-only-if-equal-to-default control dependence, the defining '
          'shape of each remaining transformation, and ownership of the '
          'copy-returning ones. Equality of the built graphs is not '
          'decided.'),
    note='Trusted: ast, CFG; the OWN analysis (see C17).',
    technique='static analysis: loop-path enumeration with parameter-kind refinement, key-kind dataflow, CFG control dependence, ownership dataflow',
)
