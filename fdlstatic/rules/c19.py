"""C19 - threads working on different configurations do not interfere."""
from __future__ import annotations

import ast
from typing import Dict, List, Optional, Set, Tuple

from fdlstatic.ctx import Ctx
from fdlstatic.model import AnalysisError, FuncInfo, unparse, walk_function
from fdlstatic.report import RuleSet
from fdlstatic.rules import common

ENTRY_POINTS = [
    'fiddle._src.building.build',
    'fiddle._src.config.Buildable.__init__',
    'fiddle._src.config.Buildable.__setattr__',
    'fiddle._src.config.Buildable.__delattr__',
    'fiddle._src.config.Buildable.__getattr__',
    'fiddle._src.config.Buildable.__setitem__',
    'fiddle._src.config.Buildable.__delitem__',
    'fiddle._src.config.Buildable.__getitem__',
    'fiddle._src.config.Buildable.__copy__',
    'fiddle._src.config.Buildable.__deepcopy__',
    'fiddle._src.config.Buildable.__eq__',
    'fiddle._src.config.Buildable.__getstate__',
    'fiddle._src.config.Buildable.__setstate__',
    'fiddle._src.experimental.serialization.dump_json',
    'fiddle._src.history.suspend_tracking',
    'fiddle._src.history.custom_location',
    'fiddle._src.signatures.get_signature',
    'fiddle._src.signatures.get_type_hints',
    'fiddle._src.tagging.add_tag',
    'fiddle._src.copying.copy_with',
    'fiddle._src.casting.cast',
    # the plain-Python face of an auto_unconfig function runs a build of its
    # own, from whatever thread calls it
    'fiddle._src.experimental.auto_config.auto_unconfig',
]

# classification of shared module-level state written on those paths
CLASSIFIED = {
    'fiddle._src.building._state':
        ('thread-local', 'instance of a threading.local subclass'),
    'fiddle._src.history._tracking_state':
        ('thread-local', 'instance of a threading.local subclass'),
    'fiddle._src.history._set_counter':
        ('atomic-counter', 'itertools.count advanced only by next(), one C '
         'call under the GIL'),
    'fiddle._src.signatures._signature_cache':
        ('idempotent-cache', 'WeakKeyDictionary keyed by the callable; the '
         'value is a pure function of the key, single get/set operations'),
    'fiddle._src.signatures._type_hints_cache':
        ('idempotent-cache', 'WeakKeyDictionary keyed by (callable, flag); '
         'the value is a pure function of the key'),
    'fiddle._src.reraised_exception.make_exception_class':
        ('locked-cache', 'functools.lru_cache (internally locked); keyed by '
         'the exception type'),
    'fiddle._src.codegen.import_manager.parse_import':
        ('locked-cache', 'functools.lru_cache keyed by its arguments'),
}

EXPLANATION = (
    'Static clauses of C19 decided on the current source: (SHARED) every '
    'module-level mutable object in fiddle/_src (dicts, sets, lists, weak '
    'dictionaries, counters, registry and state instances, lru_cache '
    'functions) is enumerated together with the functions that write it; each '
    'object written by a function reachable from the build / edit / copy / '
    'compare / serialize / signature-lookup entry points must be classified '
    'as thread-local, atomic counter, idempotent cache keyed by its input, or '
    'internally locked cache - an unclassified reachable write is a '
    'violation; (TLS) the build guard and the tracking switch are attributes '
    'of threading.local subclass instances and are never accessed through the '
    'class; (CACHE) each shared cache is read and written under the same key '
    'expression and the stored value is computed from exactly that key, so a '
    'thread can never receive a value computed for another key; the counter '
    'is advanced only through next(). Not decided: interleaving semantics '
    'beyond the absence of unclassified shared writes (CPython dict get/set '
    'and next() are assumed atomic).')
ASSUMPTIONS = [
    'CPython: single dict get/set, WeakKeyDictionary get/set and '
    'next(itertools.count()) are atomic under the GIL',
    'functools.lru_cache is internally locked',
    'registration APIs (register_node_traverser etc.) run at import time, not '
    'concurrently with the entry points',
]

MUTATORS = {'append', 'extend', 'add', 'update', 'pop', 'clear', 'remove',
            'discard', 'insert', 'setdefault', 'popitem', 'sort', 'reverse',
            'appendleft'}


def shared_objects(ctx: Ctx) -> Dict[str, Tuple[str, ast.AST]]:
  """qualified name -> (kind, node) for module-level mutable objects."""
  p = ctx.p
  out = {}
  for mq, mod in p.modules.items():
    if not mq.startswith('fiddle._src'):
      continue
    for name, v in mod.assigns.items():
      kind = None
      if isinstance(v, (ast.Dict, ast.Set, ast.List, ast.DictComp,
                        ast.SetComp, ast.ListComp)):
        kind = 'container'
      elif isinstance(v, ast.Call):
        q = p.resolve(v.func, mod) or unparse(v.func)
        if q in ('builtins.dict', 'builtins.set', 'builtins.list',
                 'collections.defaultdict', 'collections.OrderedDict',
                 'collections.deque', 'weakref.WeakKeyDictionary',
                 'weakref.WeakValueDictionary', 'weakref.WeakSet'):
          kind = 'container'
        elif q == 'itertools.count':
          kind = 'counter'
        elif q in p.classes:
          kind = 'instance:' + q
      if kind:
        out[f'{mq}.{name}'] = (kind, v)
    # module-level names rebound from inside functions (`global X; X = ...`)
    for f in mod.all_funcs:
      if f.is_lambda:
        continue
      globs = set()
      for n in walk_function(f.node):
        if isinstance(n, ast.Global):
          globs |= set(n.names)
      for n in walk_function(f.node):
        tg = n.targets if isinstance(n, ast.Assign) else (
            [n.target] if isinstance(n, ast.AugAssign) else [])
        for t in tg:
          if isinstance(t, ast.Name) and t.id in globs:
            out.setdefault(f'{mq}.{t.id}', ('rebound-global',
                                            mod.assigns.get(t.id, n)))
    for f in mod.funcs.values():
      for d in f.decorators:
        dn = unparse(d.func if isinstance(d, ast.Call) else d)
        if dn.split('.')[-1] in ('lru_cache', 'cache'):
          out[f.qualname] = ('lru_cache', f.node)
  return out


def instance_mutating_methods(ctx: Ctx, cq: str) -> Set[str]:
  """Methods of class cq (and bases) that write containers held in self."""
  p = ctx.p
  out = set()
  for q in p.mro(cq):
    ci = p.classes.get(q)
    if not ci:
      continue
    for name, m in ci.methods.items():
      if name in ('__init__', '__post_init__'):
        continue
      selfname = m.params[0] if m.params else None
      for n in walk_function(m.node):
        tg = []
        if isinstance(n, ast.Assign):
          tg = n.targets
        elif isinstance(n, ast.AugAssign):
          tg = [n.target]
        elif isinstance(n, ast.Delete):
          tg = n.targets
        for t in tg:
          base = t
          while isinstance(base, (ast.Subscript, ast.Attribute)):
            base = base.value
          if isinstance(base, ast.Name) and base.id == selfname and (
              isinstance(t, (ast.Subscript, ast.Attribute))):
            out.add(name)
        if isinstance(n, ast.Call) and isinstance(
            n.func, ast.Attribute) and n.func.attr in MUTATORS:
          base = n.func.value
          while isinstance(base, (ast.Subscript, ast.Attribute)):
            base = base.value
          if isinstance(base, ast.Name) and base.id == selfname and (
              n.func.value is not base):
            out.add(name)
  return out


def writers_of(ctx: Ctx, objs) -> Dict[str, List[Tuple[str, ast.AST, str]]]:
  """object qualname -> [(function qualname, node, how)]"""
  p = ctx.p
  short = {}
  for q in objs:
    m, n = q.rsplit('.', 1)
    short.setdefault(n, []).append(q)
  inst_methods = {q: instance_mutating_methods(ctx, k.split(':', 1)[1])
                  for q, (k, _) in objs.items() if k.startswith('instance:')}
  out: Dict[str, List] = {q: [] for q in objs}
  for fq, f in p.funcs.items():
    globs = set()
    for n in walk_function(f.node):
      if isinstance(n, ast.Global):
        globs |= set(n.names)

    def obj_of(e) -> Optional[str]:
      if isinstance(e, ast.Name):
        if e.id in f.local_names() and e.id not in globs:
          # shadowed by a local, unless it is a closure variable of a module
          return None
        q = p._resolve_name(e.id, f)
        if q in objs:
          return q
        cand = f'{f.module.name}.{e.id}'
        return cand if cand in objs else None
      if isinstance(e, ast.Attribute):
        q = p.resolve(e, f)
        return q if q in objs else None
      return None

    for n in walk_function(f.node):
      tg = []
      if isinstance(n, ast.Assign):
        tg = [(t, 'store') for t in n.targets]
      elif isinstance(n, ast.AugAssign):
        tg = [(n.target, 'augmented assignment')]
      elif isinstance(n, ast.Delete):
        tg = [(t, 'delete') for t in n.targets]
      for t, how in tg:
        if isinstance(t, ast.Subscript):
          o = obj_of(t.value)
          if o:
            out[o].append((fq, n, f'item {how}'))
        elif isinstance(t, ast.Name) and t.id in globs:
          o = obj_of(t)
          if o:
            out[o].append((fq, n, 'rebinding via global'))
        elif isinstance(t, ast.Attribute):
          o = obj_of(t.value)
          if o:
            out[o].append((fq, n, f'attribute {how} .{t.attr}'))
      if isinstance(n, (ast.With, ast.AsyncWith)):
        # `with <shared instance>:` runs its __enter__ / __exit__
        for it_ in n.items:
          o = obj_of(it_.context_expr)
          if o and objs[o][0].startswith('instance:'):
            for mname in ('__enter__', '__exit__'):
              if mname in inst_methods.get(o, ()):
                out[o].append((fq, n, f'mutating method .{mname}() (with)'))
      if isinstance(n, ast.Call):
        if isinstance(n.func, ast.Attribute):
          o = obj_of(n.func.value)
          if o:
            kind = objs[o][0]
            if n.func.attr in MUTATORS and kind in ('container',):
              out[o].append((fq, n, f'.{n.func.attr}()'))
            elif kind.startswith('instance:') and n.func.attr in inst_methods.get(o, ()):
              out[o].append((fq, n, f'mutating method .{n.func.attr}()'))
        if isinstance(n.func, ast.Name) and n.func.id == 'next' and n.args:
          o = obj_of(n.args[0])
          if o:
            out[o].append((fq, n, 'next()'))
        # calling an lru_cache function writes its cache
        q = p.resolve(n.func, f)
        if q in objs and objs[q][0] == 'lru_cache':
          out[q].append((fq, n, 'call (fills the cache)'))
  # aliases of bound mutating methods at module level:
  #   register = registry.register_node_traverser
  for mq, mod in p.modules.items():
    for name, v in mod.assigns.items():
      if isinstance(v, ast.Attribute):
        base = p.resolve(v.value, mod)
        if base in objs and v.attr in inst_methods.get(base, ()):
          alias_q = f'{mq}.{name}'
          for fq, sites in ctx.cg.call_sites.items():
            f = p.funcs.get(fq)
            scope = f or p.modules.get(fq[:-len('.<module>')])
            if scope is None:
              continue
            for call, callees, exact in sites:
              if p.resolve(call.func, scope) is not None and isinstance(
                  call.func, (ast.Name, ast.Attribute)):
                r = p.resolve(call.func, scope)
                # resolve() follows the alias to the method; compare textually
                txt = unparse(call.func).split('.')[-1]
                if txt == name and r and r.endswith('.' + v.attr):
                  out[base].append((fq, call, f'via alias {name}()'))
  return out


def run(ctx: Ctx, rs: RuleSet, tier: str):
  p = ctx.p
  objs = shared_objects(ctx)
  if len(objs) < 15:
    raise AnalysisError(f'only {len(objs)} module-level mutable objects found')
  writers = writers_of(ctx, objs)
  for e in ENTRY_POINTS:
    ctx.func(e)
  reach = ctx.cg.reachable(ENTRY_POINTS,
                           kinds=('exact', 'ref', 'nested', 'proto'))

  # a classified object that moved to another module (the old module keeps an
  # alias of it) keeps its classification
  classified = {}
  for q0, c0 in CLASSIFIED.items():
    q1 = q0
    if q0 not in objs:
      q1 = common.relocated_global(ctx, q0)
      if q1 not in objs:
        q1 = q0
    classified[q1] = c0
  CLASSIFIED_NOW = classified
  rule = 'SHARED.audit'
  rs.declare(rule, 'every module-level mutable object written on a path from '
             'the entry points is classified', 15)
  for q in sorted(objs):
    kind, node = objs[q]
    ws = writers[q]
    reachable_ws = [(fq, n, how) for fq, n, how in ws if fq in reach]
    cls = CLASSIFIED_NOW.get(q)
    mod = p.modules[q.rsplit('.', 1)[0]] if q.rsplit('.', 1)[0] in p.modules else None
    loc = f'{mod.relpath}:{getattr(node, "lineno", 0)}' if mod else ''
    if not reachable_ws:
      rs.ok(rule, q, f'{kind}; {len(ws)} writer site(s), none reachable from '
            'the concurrent entry points' + (
                f' (writers: {sorted({w[0] for w in ws})[:3]})' if ws else
                ' (constant)'), loc, nontrivial=bool(ws))
      continue
    fq, n, how = reachable_ws[0]
    if cls is None:
      wit = ctx.cg.path_to(reach, fq)
      rs.fail(rule, q,
              f'shared {kind} `{q}` is written ({how}) by {fq}, which is '
              'reachable from the concurrent entry points, and is not '
              'classified as thread-local / atomic / idempotent cache / '
              'locked cache', loc, witness=wit)
    else:
      rs.ok(rule, q, f'{kind} written by {sorted({w[0] for w in reachable_ws})[:3]}: '
            f'{cls[0]} - {cls[1]}', loc)
      rs.exception(rule, q, f'{cls[0]}: {cls[1]}')

  # ---- classification side conditions
  rule = 'SHARED.classification'
  rs.declare(rule, 'each classification is justified by the object\'s '
             'construction and by how it is accessed', 6)
  for q, (c, why) in sorted(CLASSIFIED_NOW.items()):
    if q not in objs:
      rs.fail(rule, q, f'classified object {q} no longer exists as shared '
              'state (table out of date)', '')
      continue
    kind, node = objs[q]
    mod = p.modules[q.rsplit('.', 1)[0]] if kind != 'lru_cache' else p.funcs[q].module
    loc = f'{mod.relpath}:{getattr(node, "lineno", 0)}'
    if c == 'thread-local':
      cq = kind.split(':', 1)[1] if kind.startswith('instance:') else None
      rebound = [(fq, n) for fq, n, how in writers[q]
                 if how == 'rebinding via global']
      is_tls = cq is not None and 'threading.local' in p.mro(cq)
      # attributes kept in __slots__ live on the class (descriptors), outside
      # the per-thread dict: one value for all threads
      slotted = []
      for bq in (p.mro(cq) if cq else []):
        bci = p.classes.get(bq)
        if bci is None:
          continue
        if '__slots__' in bci.class_assigns and unparse(
            bci.class_assigns['__slots__']) not in ('()', '[]'):
          slotted.append(f'{bq}.__slots__')
        for d in bci.node.decorator_list:
          if isinstance(d, ast.Call) and any(
              k.arg == 'slots' and not (isinstance(
                  k.value, ast.Constant) and not k.value.value)
              for k in d.keywords):
            slotted.append(f'@{unparse(d)[:50]} on {bq}')
      if slotted:
        rs.fail(rule, q + ':slots',
                f'{slotted[0]}: the attributes of this threading.local '
                'subclass are slot descriptors, stored once on the instance '
                'and shared by every thread (and re-initialised whenever a '
                'new thread first touches the object): one thread\'s switch '
                'is seen by all', loc)
      rs.check(is_tls and not rebound, rule, q,
               f'instance of {cq}, MRO {p.mro(cq) if cq else None}; the '
               'module-level name is never rebound' if not rebound else
               f'{rebound[0][0]} rebinds the module-level name `{q}`: the '
               'replacement object is seen by every thread (its per-thread '
               'attributes start from the constructor arguments of the '
               'rebinding thread), so one thread\'s switch leaks into all '
               'others',
               ctx.loc(p.funcs[rebound[0][0]], rebound[0][1]) if rebound
               else loc)
    elif c == 'atomic-counter':
      ok = kind == 'counter' and all(how == 'next()' for _, _, how in writers[q])
      rs.check(ok, rule, q, 'itertools.count advanced only by next(): ' +
               str(sorted({how for _, _, how in writers[q]})), loc)
    elif c == 'locked-cache':
      rs.check(kind == 'lru_cache', rule, q, 'decorated with functools.lru_cache',
               loc)
    elif c == 'idempotent-cache':
      _cache_rule(ctx, rs, rule, q, writers[q], loc)

  # ---- a saved guard value lives in a local of the saving frame
  rule = 'TLS.saved-value-local'
  rs.declare(rule, 'the previous value of a thread-local flag is saved in a '
             'local variable, never on a shared object', 1)
  n_saves = 0
  for g_ in common.thread_local_guards(ctx):
    for fq, f in sorted(p.funcs.items()):
      for st in walk_function(f.node):
        if not isinstance(st, ast.Assign):
          continue
        if not common._is_guard_read(ctx, st.value, f, g_):
          continue
        n_saves += 1
        shared = [t for t in st.targets if not isinstance(t, ast.Name) or (
            t.id in {n for x in walk_function(f.node)
                     if isinstance(x, ast.Global) for n in x.names})]
        rs.check(not shared, rule, f'{fq}:save of {g_.name}',
                 'saved in a local' if not shared else
                 f'`{unparse(st)[:70]}` keeps one thread\'s flag value on an '
                 'object other threads use too (an attribute of a shared '
                 'instance / a module global): with two threads inside the '
                 'block at once, the one that leaves last restores the other '
                 'thread\'s value', ctx.loc(f, st))
  if n_saves == 0:
    rs.ok(rule, 'no-saves', 'no thread-local flag value is saved anywhere', '')

  # ---- thread-local attributes never accessed through the class
  rule = 'TLS.instance-access'
  rs.declare(rule, 'thread-local flags are read and written only through the '
             'thread-local instances', 2)
  for g in common.thread_local_guards(ctx):
    bad = []
    for fq, f in p.funcs.items():
      for n in walk_function(f.node):
        if isinstance(n, ast.Attribute) and n.attr == g.attr:
          base = p.resolve(n.value, f)
          if base == g.cls:
            bad.append((fq, n))
    rs.check(not bad, rule, g.name,
             f'`{g.attr}` is accessed only through {g.qual}' if not bad else
             f'`{g.attr}` is accessed through the class {g.cls} in '
             f'{bad[0][0]} (shared by all threads)',
             ctx.loc(p.funcs[bad[0][0]], bad[0][1]) if bad else '')


def cache_premise(ctx: Ctx, rs: RuleSet, rule: str, names):
  """Re-verifies, for another property, that the named module-level caches are

  read and written under the same key, that the key is built from the
  function's parameters (the callable itself, not something coarser) and that
  the stored value is computed from exactly that key.
  """
  objs = shared_objects(ctx)
  writers = writers_of(ctx, objs)
  rs.declare(rule, 'caches consulted on this path return only what was '
             'computed for the very same key', len(names))
  for q in names:
    if q not in objs:
      rs.fail(rule, q, f'{q} is no longer a module-level cache', '')
      continue
    kind, node = objs[q]
    mod = ctx.p.modules[q.rsplit('.', 1)[0]]
    _cache_rule(ctx, rs, rule, q, writers[q],
                f'{mod.relpath}:{getattr(node, "lineno", 0)}')


def _cache_rule(ctx: Ctx, rs: RuleSet, rule: str, q: str, ws, loc: str):
  """get/set under the same key; stored value computed from that key."""
  p = ctx.p
  short = q.rsplit('.', 1)[1]
  stores = [(fq, n) for fq, n, how in ws if how == 'item store']
  others = [(fq, how) for fq, n, how in ws if how != 'item store']
  ok = bool(stores) and not others
  detail = []
  for fq, n in stores:
    f = p.funcs[fq]
    t = n.targets[0]
    key = unparse(t.slice)
    # lookups in the same function use the same key
    lookups = [unparse(x.slice) for x in walk_function(f.node)
               if isinstance(x, ast.Subscript) and isinstance(x.ctx, ast.Load)
               and isinstance(x.value, ast.Name) and x.value.id == short]
    same_key = bool(lookups) and all(k == key for k in lookups)
    # key built from parameters only
    key_names = {x.id for x in ast.walk(t.slice) if isinstance(x, ast.Name)}
    from_params = key_names <= set(f.params)
    # stored value: single assignment from a call whose arguments cover the key
    val_ok = False
    if isinstance(n.value, ast.Name):
      # what the stored value is computed from: through its definitions and
      # the locals they read, down to parameters
      locals_ = f.local_names() - set(f.params)
      seen, leaves, calls, work = set(), set(), 0, [n.value.id]
      while work:
        v = work.pop()
        if v in seen:
          continue
        seen.add(v)
        for d in walk_function(f.node):
          tg = []
          if isinstance(d, ast.Assign):
            tg = d.targets
          elif isinstance(d, (ast.AnnAssign, ast.AugAssign)):
            tg = [d.target]
          if not any(isinstance(x, ast.Name) and x.id == v
                     for t_ in tg for x in ast.walk(t_)):
            continue
          if d.value is None:
            continue
          calls += sum(1 for x in ast.walk(d.value) if isinstance(x, ast.Call))
          for x in ast.walk(d.value):
            if isinstance(x, ast.Name) and isinstance(x.ctx, ast.Load):
              if x.id in locals_:
                work.append(x.id)
              elif x.id in f.params:
                leaves.add(x.id)
      val_ok = calls >= 1 and key_names <= leaves and leaves <= set(f.params)
    ok = ok and same_key and from_params and val_ok
    detail.append(f'{fq}: store key `{key}`, lookups {sorted(set(lookups))}, '
                  f'key from parameters={from_params}, value computed from '
                  f'the key={val_ok}')
  rs.check(ok, rule, q, '; '.join(detail) or 'no store site found', loc)


MANIFEST = dict(
    text=('Decides, for every interleaving, the structural precondition of '
          'non-interference: an exhaustive audit of module-level mutable '
          'state against the call-graph closure of the concurrent entry '
          'points, with every reachable written object classified '
          '(thread-local, atomic counter, idempotent key-determined cache, '
          'locked cache) and each classification re-justified from the '
          'source (threading.local ancestry, next()-only counter use, '
          'same-key get/set with key-determined value). Interleaving '
          'semantics themselves are not explored.'),
    note=('Trusted: ast, call graph (exact + reference + nested + protocol '
          'edges); atomicity of single dict operations and next() under the '
          'GIL; import-time-only use of registration APIs.'),
    technique='static analysis: shared-state enumeration, who-may-write over the call-graph closure, classification table with re-verified side conditions',
)
