"""C10 - applying build_diff(old, new) to old yields new."""
from __future__ import annotations

import ast
from typing import Dict, List, Set, Tuple

from fdlstatic import cfg as cfg_lib
from fdlstatic import idmemo
from fdlstatic.ctx import Ctx
from fdlstatic.model import AnalysisError, unparse, walk_function, walk_stmts
from fdlstatic import roles
from fdlstatic.report import RuleSet
from fdlstatic.rules import c14, ownrule

D = 'fiddle._src.diffing'
OP = f'{D}.DiffOperation'
# precedence required by update_callable's invalid-argument check and by the
# signature-based validation of the tag functions
REQUIRED_BEFORE = [('DeleteValue', 'ModifyValue'), ('ModifyValue', 'SetValue'),
                   ('RemoveTag', 'ModifyValue'), ('ModifyValue', 'AddTag')]

EXPLANATION = (
    'Static clauses of C10 decided on the current source: (EXH) the set of '
    'DiffOperation subclasses equals the set applied by _apply_changes and '
    'the set accepted by _validate_changes; every apply() dispatch and the '
    'path-element helpers end in raise; every (operation, path element) pair '
    'the diff builder can emit is a pair the operation\'s apply() supports; '
    '(ORD) the application order puts deletions and tag removals before the '
    'callable change and additions after it, as update_callable and the tag '
    'validators require; (DOM) apply_diff deep-copies the diff before any '
    'other use, resolves references against the structure, validates all '
    'changes before applying the first, and rejects changes to the root '
    '(the root keeps its identity); (OWN) apply_diff never mutates the diff '
    'it was given and build_diff mutates neither input; (IDMEMO) the '
    'alignment tables pin each other and the reference-resolution memo is '
    'keyed by nodes of the caller-held diff; (KD) the diff builder\'s use of '
    'argument keys - reported as known findings for positional arguments. '
    'Not decided: that alignment and ordering reproduce `new` for every pair.')
ASSUMPTIONS = [
    'copy.deepcopy yields an independent diff',
    'update_callable rejects arguments that are invalid for the new callable',
]


def op_classes(ctx: Ctx) -> Dict[str, str]:
  return {q.rsplit('.', 1)[1]: q for q in ctx.p.subclasses(OP, strict=True)}


def isinstance_names(test, resolve=None) -> Set[str]:
  out = set()
  for c in ast.walk(test):
    if isinstance(c, ast.Call) and isinstance(
        c.func, ast.Name) and c.func.id == 'isinstance' and len(c.args) == 2:
      ty = resolve(c.args[1]) if resolve is not None else c.args[1]
      tys = ty.elts if isinstance(ty, ast.Tuple) else [ty]
      for t in tys:
        out.add(unparse(t).split('.')[-1])
  return out


def buildable_facets(ctx: Ctx, rs: RuleSet, rule: str, only=None):
  """The builder compares the facets of two aligned Buildables - callable,

  argument tags, arguments of old, arguments of new - independently: each
  comparison is reached on every normal path through record_buildable_diffs
  (it is not skipped because another facet differed).
  """
  f = ctx.func(f'{D}._DiffFromAlignmentBuilder.record_buildable_diffs')
  g = ctx.cfg(f)
  old_p, new_p = f.params[2], f.params[3]
  facets = {'callable': [], 'tags': [], 'old-arguments': [],
            'new-arguments': []}
  for n in g.nodes():
    st = g.stmt[n]
    if g.kind[n] == 'if':
      t = unparse(roles.deref_deep(f, st.test))
      if 'get_callable(' in t and old_p in t and new_p in t:
        facets['callable'].append(n)
      if f'{old_p}.__argument_tags__' in t and f'{new_p}.__argument_tags__' in t:
        facets['tags'].append(n)
    elif g.kind[n] == 'for':
      it = unparse(roles.deref_deep(f, st.iter))
      if it == f'{old_p}.__arguments__':
        facets['old-arguments'].append(n)
      elif it == f'{new_p}.__arguments__':
        facets['new-arguments'].append(n)
    elif g.kind[n] == 'stmt' and any(
        isinstance(e, ast.comprehension) and unparse(
            roles.deref_deep(f, e.iter)) in (
                f'{old_p}.__arguments__', f'{new_p}.__arguments__')
        for e in cfg_lib.walk_node(g, n)):
      # the enumeration written as a comprehension / generator expression
      for e in cfg_lib.walk_node(g, n):
        if isinstance(e, ast.comprehension):
          it_ = unparse(roles.deref_deep(f, e.iter))
          if it_ == f'{old_p}.__arguments__':
            facets['old-arguments'].append(n)
          elif it_ == f'{new_p}.__arguments__':
            facets['new-arguments'].append(n)
    elif g.kind[n] == 'stmt' and any(
        isinstance(e, ast.Call) and unparse(e.func).endswith(
            '.record_tag_diffs') for e in cfg_lib.walk_node(g, n)):
      # an unconditional call compares the tags itself
      if not any(g.dominated_by(n, {m}, labels=cfg_lib.NO_EXC)
                 for m in facets['tags']):
        facets['tags'].append(n)
  for name, nodes in facets.items():
    if only and name not in only:
      continue
    if not nodes:
      raise AnalysisError(f'{f.qualname}: comparison of the {name} facet not '
                          'found')
    ok = g.exit not in g.reach([g.entry], blocked=set(nodes),
                               labels=cfg_lib.NO_EXC)
    path = [] if ok else (g.find_path(g.entry, {g.exit}, blocked=set(nodes))
                          or [])
    rs.check(ok, rule, f'{f.qualname}:{name}',
             f'the {name} of the two Buildables are compared on every path'
             if ok else
             f'a path through record_buildable_diffs skips the comparison of '
             f'the {name} (it depends on another facet having compared equal): '
             'a diff between configurations that differ in both facets drops '
             f'the {name} changes, and apply_diff does not reproduce the '
             'target', ctx.loc(f, g.stmt[nodes[0]]),
             witness=[g.describe(x) for x in path])
  if not only or 'tags' in only:
    tag_ifs = [n for n in facets['tags'] if g.kind[n] == 'if']
    for m in tag_ifs:
      tr = g.reach([x for x, lab in g.succ[m] if lab == 'true'],
                   labels=cfg_lib.NO_EXC)
      calls = [n for n in tr if g.kind[n] == 'stmt' and any(
          isinstance(e, ast.Call) and unparse(e.func).endswith(
              '.record_tag_diffs') for e in cfg_lib.walk_node(g, n))]
      ok = bool(calls) and g.exit not in g.reach(
          [x for x, lab in g.succ[m] if lab == 'true'], blocked=set(calls),
          labels=cfg_lib.NO_EXC)
      rs.check(ok, rule, f'{f.qualname}:tags-recorded',
               'differing tag dictionaries always reach record_tag_diffs',
               ctx.loc(f, g.stmt[m]))


def dispatch_ends_in_raise(f) -> Tuple[bool, List[str]]:
  """A dispatch over isinstance(<subject>, ...) raises for a subject that is

  an instance of none of the tested classes - decided on the CFG, so guard
  clauses, negated tests and swapped arms are all the same to it.
  """
  import collections
  from fdlstatic import dispatch
  subjects = collections.Counter(
      unparse(c.args[0]) for c in ast.walk(f.node) if isinstance(c, ast.Call)
      and unparse(c.func) == 'isinstance' and len(c.args) == 2)
  if not subjects:
    return False, []
  subject = subjects.most_common(1)[0][0]
  g = cfg_lib.CFG(f.node.body, f.qualname)
  kinds = dispatch.tested_classes(f.node, subject)
  return dispatch.default_raises(g, subject), kinds


def run(ctx: Ctx, rs: RuleSet, tier: str):
  p = ctx.p
  ops = op_classes(ctx)
  if len(ops) < 5:
    raise AnalysisError(f'expected >=5 DiffOperation subclasses, found {ops}')

  # ---- EXH: operation sets agree
  rule = 'EXH.operation-set'
  rs.declare(rule, 'DiffOperation subclasses = applied set = validated set', 2)
  ac = ctx.func(f'{D}._apply_changes')
  order = None
  for n in walk_function(ac.node):
    it_ = ctx.const(n.iter, ac) if isinstance(n, ast.For) else None
    if isinstance(n, ast.For) and isinstance(it_, ast.Tuple) and all(
        isinstance(e, (ast.Name, ast.Attribute)) for e in it_.elts):
      names = [unparse(e).split('.')[-1] for e in it_.elts]
      if set(names) & set(ops):
        order = names
  if order is None:
    # the same order written out: one loop over the changes per operation type
    seq = []
    for st_ in ac.node.body:
      if isinstance(st_, ast.For) and unparse(st_.iter) == ac.params[0]:
        tys = [isinstance_names(b_.test) for b_ in st_.body
               if isinstance(b_, ast.If)]
        if len(st_.body) == 1 and len(tys) == 1 and len(tys[0]) == 1 and any(
            isinstance(c_, ast.Call) and isinstance(
                c_.func, ast.Attribute) and c_.func.attr == 'apply'
            for c_ in ast.walk(st_)):
          seq.append(next(iter(tys[0])))
    if seq and set(seq) & set(ops):
      order = seq
  if order is None:
    raise AnalysisError('_apply_changes: order tuple not found')
  rs.check(set(order) == set(ops) and len(order) == len(set(order)), rule,
           f'{ac.qualname}:order-tuple',
           f'applied in order {order}; subclasses {sorted(ops)}',
           ctx.loc(ac, ac.node))
  vc = ctx.func(f'{D}._validate_changes')
  accepted = None
  # the validating function, or a per-change helper it calls with the change
  vgroup = [vc]
  for c_ in ctx.calls(vc):
    h_ = p.funcs.get(p.resolve(c_.func, vc) or '')
    if h_ is not None and not h_.is_lambda and h_.module is vc.module and (
        h_.cls is None) and h_ not in vgroup:
      vgroup.append(h_)
  for vf in vgroup:
    g = ctx.cfg(vf)
    for n in g.nodes():
      if g.kind[n] == 'if':
        t = g.stmt[n].test
        if isinstance(t, ast.UnaryOp) and isinstance(t.op, ast.Not):
          names = isinstance_names(t.operand, lambda e, vf=vf: ctx.const(e, vf))
          r = g.reach([x for x, lab in g.succ[n] if lab == 'true'],
                      labels=cfg_lib.NO_EXC)
          if names and g.exit not in r and names & set(ops):
            accepted = names
  rs.check(accepted == set(ops), rule, f'{vc.qualname}:accepted',
           f'validated operation types {sorted(accepted or [])}',
           ctx.loc(vc, vc.node))

  # ---- ORD
  rule = 'ORD.application-order'
  rs.declare(rule, 'deletions / tag removals precede the callable change, '
             'additions follow it', len(REQUIRED_BEFORE))
  for a, b in REQUIRED_BEFORE:
    ok = a in order and b in order and order.index(a) < order.index(b)
    rs.check(ok, rule, f'{ac.qualname}:{a}<{b}',
             f'{a} is applied before {b}' if ok else
             f'{a} must be applied before {b} (update_callable rejects '
             f'arguments invalid for the new callable; tag edits validate '
             f'against the current signature) but the order is {order}',
             ctx.loc(ac, ac.node))
  # the loop applies every change of the current type to its parent
  applies = [n for n in walk_function(ac.node) if isinstance(
      n, ast.Call) and isinstance(n.func, ast.Attribute) and
             n.func.attr == 'apply' and len(n.args) == 2]
  ok = bool(applies)
  g_ac = ctx.cfg(ac)
  for n in applies:
    recv = unparse(n.func.value)
    at = ctx.node_of(ac, n)

    def val(e):
      # the argument as defined where the call happens (a name may be bound
      # once per written-out loop)
      if isinstance(e, ast.Name) and at:
        e = roles.value_at(g_ac, at[0], e)[0]
      return unparse(roles.deref_deep(ac, e))

    a0, a1 = val(n.args[0]), val(n.args[1])
    ok = ok and a1 == f'{recv}.target[-1]' and a0.endswith(
        f'[{recv}.target[:-1]]')
  rs.check(ok, 'ORD.application-order', f'{ac.qualname}:apply',
           'each change is applied to the value at target[:-1] with element '
           'target[-1]', ctx.loc(ac, ac.node))

  # ---- loud dispatch + emitted pairs are supported pairs
  rule = 'EXH.apply-dispatch'
  rs.declare(rule, 'apply() dispatches end in raise; emitted (operation, '
             'element) pairs are supported', 8)
  supported: Dict[str, Set[str]] = {}
  for name, q in sorted(ops.items()):
    m = p.classes[q].methods.get('apply')
    if m is None:
      rs.fail(rule, f'{q}.apply', 'no apply method', '')
      continue
    ok, kinds = dispatch_ends_in_raise(m)
    supported[name] = set(kinds)
    rs.check(ok, rule, f'{q}.apply',
             f'dispatches on {kinds}; unsupported elements raise',
             ctx.loc(m, m.node))
  for hq in (f'{D}._child_has_value',):
    h = ctx.func(hq)
    ok, kinds = dispatch_ends_in_raise(h)
    rs.check(ok, rule, hq, f'dispatches on {kinds}; default raises',
             ctx.loc(h, h.node))
  builder = ctx.cls(f'{D}._DiffFromAlignmentBuilder')
  emitted: Set[Tuple[str, str]] = set()
  for mname, m in builder.methods.items():
    if not mname.startswith('record_'):
      continue
    # path variables: x = old_path + (daglish.K(...),)
    pv: Dict[str, str] = {}
    for n in walk_function(m.node):
      if isinstance(n, ast.Assign) and isinstance(n.value, ast.BinOp) and (
          isinstance(n.value.right, ast.Tuple)) and n.value.right.elts and (
              isinstance(n.value.right.elts[0], ast.Call)):
        pv[unparse(n.targets[0])] = unparse(
            n.value.right.elts[0].func).split('.')[-1]
    for n in walk_function(m.node):
      if isinstance(n, ast.Call) and isinstance(
          n.func, ast.Name) and n.func.id in ops and n.args:
        kind = pv.get(unparse(n.args[0]))
        if kind:
          emitted.add((n.func.id, kind))
  if len(emitted) < 8:
    raise AnalysisError(f'only {len(emitted)} emitted (op, element) pairs '
                        f'recognised: {sorted(emitted)}')
  # Attr subclasses accepted by an Attr branch
  attr_like = {'Attr', 'BuildableAttr'}
  for opn, kind in sorted(emitted):
    sup = supported.get(opn, set())
    ok = kind in sup or (kind in attr_like and 'Attr' in sup)
    rs.check(ok, rule, f'{builder.qualname}:emits {opn}({kind})',
             f'{opn}.apply supports {sorted(sup)}', ctx.loc(builder,
                                                            builder.node))

  # ---- DOM: apply_diff
  rule = 'DOM.apply-diff'
  rs.declare(rule, 'apply_diff copies the diff first, validates before the '
             'first mutation, rejects root changes', 4)
  ad = ctx.func(f'{D}.apply_diff')
  g = ctx.cfg(ad)
  dparam = ad.params[0]
  # the parameter is read once, by copy.deepcopy; whatever is done afterwards
  # works on the copy (held under the same or another name)
  copies = {n for n in g.nodes() if isinstance(g.stmt[n], ast.Assign) and
            isinstance(g.stmt[n].value, ast.Call) and
            p.resolve(g.stmt[n].value.func, ad) == 'copy.deepcopy' and
            unparse(g.stmt[n].value.args[0]) == dparam}
  rebinding = {n for n in copies
               if unparse(g.stmt[n].targets[0]) == dparam}
  uses = [n for n in g.nodes() if n not in copies and any(
      isinstance(e, ast.Name) and e.id == dparam and isinstance(e.ctx, ast.Load)
      for e in cfg_lib.walk_node(g, n))]
  rs.check(bool(copies) and all(
      g.dominated_by(u, rebinding, labels=cfg_lib.NO_EXC) for u in uses), rule,
           f'{ad.qualname}:deepcopy',
           f'copy.deepcopy({dparam}) is the only read of the caller\'s diff '
           f'({len(uses)} later uses, all of the rebound copy)',
           ctx.loc(ad, ad.node))
  calls = [p.resolve(c.func, ad) for c in ctx.calls(ad)]
  rs.check(f'{D}.resolve_diff_references' in calls and
           f'{D}._apply_changes' in calls, rule, f'{ad.qualname}:pipeline',
           'references are resolved against the structure, then changes are '
           'applied', ctx.loc(ad, ad.node))
  g = ctx.cfg(ac)
  val = {n for n in g.nodes() if any(
      isinstance(e, ast.Call) and p.resolve(e.func, ac) ==
      f'{D}._validate_changes' for e in cfg_lib.walk_node(g, n))}
  app = [n for n in g.nodes() if any(
      isinstance(e, ast.Call) and isinstance(e.func, ast.Attribute) and
      e.func.attr == 'apply' for e in cfg_lib.walk_node(g, n))]
  rs.check(bool(val) and bool(app) and all(
      g.dominated_by(a, val, labels=cfg_lib.NO_EXC) for a in app), rule,
           f'{ac.qualname}:validate-first',
           'all changes are validated before the first one is applied',
           ctx.loc(ac, ac.node))
  ok = False
  err_lists = roles.assigned_from(vc, lambda e: isinstance(
      e, ast.List) and not e.elts)
  for vf in vgroup:
    gv_ = ctx.cfg(vf)
    tvars = roles.assigned_from(vf, lambda e: isinstance(
        e, ast.Attribute) and e.attr == 'target')
    for n in gv_.nodes():
      if gv_.kind[n] != 'if':
        continue
      t = gv_.stmt[n].test
      # `not <op>.target` directly or through a local holding it
      if not (isinstance(t, ast.UnaryOp) and isinstance(t.op, ast.Not) and (
          (isinstance(t.operand, ast.Name) and t.operand.id in tvars) or
          (isinstance(t.operand, ast.Attribute) and
           t.operand.attr == 'target'))):
        continue
      body = gv_.stmt[n].body
      if vf is vc:
        # the branch records an error in the list that is raised at the end
        ok = ok or any(
            isinstance(s_, ast.Expr) and isinstance(s_.value, ast.Call) and
            isinstance(s_.value.func, ast.Attribute) and
            s_.value.func.attr == 'append' and
            unparse(s_.value.func.value) in err_lists for s_ in body)
      else:
        # a per-change helper answers with a message; the validating function
        # appends every answer that is not None to the error list
        says = any(isinstance(s_, ast.Return) and s_.value is not None and not (
            isinstance(s_.value, ast.Constant) and s_.value.value is None)
                   for s_ in body)
        answers = roles.assigned_from(vc, lambda e, vf=vf: isinstance(
            e, ast.Call) and p.resolve(e.func, vc) == vf.qualname)
        recorded = any(
            isinstance(c_, ast.Call) and isinstance(
                c_.func, ast.Attribute) and c_.func.attr == 'append' and
            unparse(c_.func.value) in err_lists and c_.args and unparse(
                c_.args[0]) in answers for c_ in ctx.calls(vc))
        ok = ok or (says and recorded)
  g = ctx.cfg(vc)
  raises = [n for n in g.nodes() if isinstance(g.stmt[n], ast.Raise)]
  rs.check(ok and len(raises) >= 2, rule, f'{vc.qualname}:root',
           'a change whose target is the root is an error; collected errors '
           'raise', ctx.loc(vc, vc.node))

  # ---- facets of an aligned Buildable are compared independently
  rs.declare('INDEP.buildable-facets', 'callable, tags, old and new arguments '
             'of aligned Buildables are each compared on every path', 4)
  buildable_facets(ctx, rs, 'INDEP.buildable-facets')

  # ---- a change of the callable leaves the tags to AddTag / RemoveTag
  from fdlstatic.rules import c16
  rule_f = 'FRAME.callable-change-keeps-tags'
  rs.declare(rule_f, 'update_callable (how a ModifyValue of the callable is '
             'applied) does not edit argument tags', 1)
  uc = ctx.func('fiddle._src.mutate_buildable.update_callable')
  _, muts = c16._tag_mutations(ctx, uc)
  tag_calls = [c for c in ctx.calls(uc) if unparse(c.func).split('.')[-1] in (
      'add_tag', 'remove_tag', 'set_tags', 'clear_tags',
      'find_tags_from_annotations')]
  bad = [m[1] for m in muts] + tag_calls
  rs.check(not bad, rule_f, uc.qualname,
           'no tag set is written: the diff\'s AddTag / RemoveTag operations '
           'alone decide the tags of the result' if not bad else
           f'`{unparse(bad[0])[:70]}` edits argument tags while the callable '
           'is swapped: build_diff compares the tags of old and new, so tags '
           'that update_callable adds on its own (e.g. from the new '
           'callable\'s annotations) are never removed again and the patched '
           'configuration keeps tags the target does not have',
           ctx.loc(uc, bad[0] if bad else uc.node))

  # ---- only values that can be edited in place are aligned when unequal
  rule_a = 'AGREE.alignable-types'
  rs.declare(rule_a, 'unequal values are aligned only if their type supports '
             'in-place edits (list, dict, Buildable); the automatic and the '
             'explicit alignment check agree', 2)
  MUTABLE = {'list', 'dict', 'config_lib.Buildable', 'Buildable'}
  exempt = {}
  for q in (f'{D}.DiffAlignment.can_align',
            f'{D}.DiffAlignment._validate_alignment'):
    f = ctx.func(q)
    found = None
    for n in walk_function(f.node):
      if isinstance(n, ast.If):
        for c in ast.walk(n.test):
          if isinstance(c, ast.Call) and unparse(c.func) == 'isinstance' and len(
              c.args) == 2 and isinstance(c.args[1], ast.Tuple) and any(
                  isinstance(x, ast.Compare) and isinstance(
                      x.ops[0], ast.NotEq) for x in ast.walk(n.test)):
            found = [unparse(e) for e in c.args[1].elts]
    if found is None:
      raise AnalysisError(f'{q}: equality exemption list not found')
    exempt[q] = found
    bad = [t for t in found if t not in MUTABLE]
    rs.check(not bad, rule_a, q,
             f'aligned without being equal: {found}' if not bad else
             f'values of type {bad} are aligned although they differ, but '
             'cannot be edited in place: build_diff emits ModifyValue on an '
             'element (`.a[1]`) and apply_diff raises TypeError (\'tuple\' '
             'object does not support item assignment)', ctx.loc(f, f.node))
  vals = list(exempt.values())
  rs.check(len(vals) == 2 and sorted(vals[0]) == sorted(vals[1]), rule_a,
           f'{D}.DiffAlignment:siblings',
           f'can_align and _validate_alignment use the same list {vals[0]}',
           '', nontrivial=False)

  # ---- "aligned with nothing" is never confused with "aligned with None"
  rule_n = 'NULL.alignment-lookup'
  rs.declare(rule_n, 'the alignment lookups raise for an unaligned value, or '
             'every identity test on their result is guarded by the '
             'is-aligned test of the same value', 2)
  GUARD = {'new_from_old': 'is_old_value_aligned',
           'old_from_new': 'is_new_value_aligned'}
  may_none = {}
  for name in GUARD:
    lf = ctx.func(f'{D}.DiffAlignment.{name}')
    rets_ = [r for r in walk_function(lf.node) if isinstance(r, ast.Return)]
    may_none[name] = (not rets_) or any(
        r.value is None or (isinstance(r.value, ast.Constant) and
                            r.value.value is None) or any(
            isinstance(c, ast.Call) and isinstance(c.func, ast.Attribute) and
            c.func.attr in ('get', 'pop', 'setdefault') and len(c.args) < 2
            for c in ast.walk(r.value)) for r in rets_)
    if not may_none[name]:
      rs.ok(rule_n, f'{lf.qualname}:total-or-raises',
            'an unaligned value raises (item lookup), None is never the answer',
            ctx.loc(lf, lf.node))
  for h in p.funcs.values():
    if h.module.name != D or h.is_lambda:
      continue
    def visit(e, guards):
      if isinstance(e, ast.BoolOp) and isinstance(e.op, ast.And):
        cur = list(guards)
        for v in e.values:
          visit(v, cur)
          if isinstance(v, ast.Call) and isinstance(v.func, ast.Attribute) and v.args:
            cur.append((v.func.attr, unparse(v.args[0])))
        return
      if isinstance(e, ast.Compare) and len(e.ops) == 1 and isinstance(
          e.ops[0], (ast.Is, ast.IsNot)):
        for side in (e.left, e.comparators[0]):
          if isinstance(side, ast.Call) and isinstance(
              side.func, ast.Attribute) and side.func.attr in GUARD and may_none[
                  side.func.attr] and side.args:
            other = e.comparators[0] if side is e.left else e.left
            if isinstance(other, ast.Constant) and other.value is None:
              continue  # an explicit None test is the guard itself
            okg = (GUARD[side.func.attr], unparse(side.args[0])) in guards
            rs.check(okg, rule_n, f'{h.qualname}:`{unparse(e)[:70]}`',
                     'guarded by the is-aligned test' if okg else
                     f'`{unparse(e)[:90]}`: {side.func.attr} answers None for '
                     'a value aligned with nothing, and the other operand may '
                     'itself be None (an argument set to None): an unaligned '
                     'sub-object replaced by None is taken as aligned, no '
                     'ModifyValue is recorded and apply_diff keeps the old '
                     'object', ctx.loc(h, e))
      for c in ast.iter_child_nodes(e):
        if not isinstance(c, (ast.FunctionDef, ast.AsyncFunctionDef, ast.Lambda)):
          visit(c, guards)
    for st in h.node.body:
      visit(st, [])

  # ---- memoizable values are "equal" only if aligned
  rule = 'DOM.aligned-or-equal'
  rs.declare(rule, 'for memoizable values only the alignment decides; '
             'identity / equality shortcuts apply to non-memoizable values', 1)
  ae = ctx.func(f'{D}._DiffFromAlignmentBuilder.aligned_or_equal')
  g = ctx.cfg(ae)
  memo_if = [n for n in g.nodes() if g.kind[n] == 'if' and
             'is_memoizable' in unparse(g.stmt[n].test)]
  rets = [n for n in g.nodes() if isinstance(g.stmt[n], ast.Return)]
  align_rets = [n for n in rets if 'alignment' in unparse(g.stmt[n].value)]
  other_rets = [n for n in rets if n not in align_rets]
  ok = len(memo_if) == 1 and bool(align_rets)
  if ok:
    m = memo_if[0]
    t_reach = g.reach([x for x, lab in g.succ[m] if lab == 'true'],
                      labels=cfg_lib.NO_EXC)
    ok = (g.dominated_by(m, {g.entry}, labels=cfg_lib.NO_EXC) and
          all(g.dominated_by(r, {m}, labels=cfg_lib.NO_EXC) for r in rets) and
          all(r not in t_reach for r in other_rets) and
          all(r in t_reach for r in align_rets))
  # non-memoizable leaves: identity answers before ==, so a leaf that is not
  # equal to itself (NaN) is still unchanged when it is the same object
  o_p, n_p = ae.params[1], ae.params[2]
  id_ifs = [n for n in g.nodes() if g.kind[n] == 'if' and isinstance(
      g.stmt[n].test, ast.Compare) and len(g.stmt[n].test.ops) == 1 and
            isinstance(g.stmt[n].test.ops[0], ast.Is) and
            {unparse(g.stmt[n].test.left),
             unparse(g.stmt[n].test.comparators[0])} == {o_p, n_p}]
  eq_rets = [n for n in rets if any(
      isinstance(c, ast.Compare) and any(isinstance(o, (ast.Eq, ast.NotEq))
                                         for o in c.ops)
      for c in ast.walk(g.stmt[n].value))]
  id_ok = bool(eq_rets) and all(
      any(g.dominated_by(r, {m}, labels=cfg_lib.NO_EXC) for m in id_ifs)
      for r in eq_rets) and all(
          any(isinstance(g.stmt[x], ast.Return) and isinstance(
              g.stmt[x].value, ast.Constant) and g.stmt[x].value.value is True
              for x in g.reach([y for y, lab in g.succ[m] if lab == 'true'],
                               labels=cfg_lib.NO_EXC)) for m in id_ifs)
  rs.check(id_ok, rule, f'{ae.qualname}:identity-before-equality',
           'for leaves `old is new` answers True before == is consulted'
           if id_ok else
           'the == comparison of two leaves is not preceded by an identity '
           'test: a leaf that is not equal to itself (float(\'nan\'), which '
           'copy.deepcopy keeps as the same object) is reported as modified, '
           'so build_diff(cfg, deepcopy(cfg)) is not empty',
           ctx.loc(ae, ae.node))
  rs.check(ok, rule, ae.qualname,
           'the memoizable test comes first; on its true branch the only '
           'result is the alignment lookup' if ok else
           'a shortcut (identity or equality) can answer for a memoizable '
           'value before / instead of the alignment: an object shared by '
           'identity between old and new but aligned to a different object '
           'is reported unchanged, so the diff drops a change',
           ctx.loc(ae, ae.node))

  # ---- OWN
  ownrule.run_entry_points(
      ctx, rs, 'OWN.diff-unmodified',
      [f'{D}.apply_diff', f'{D}.build_diff', f'{D}.resolve_diff_references'],
      inputs={f'{D}.apply_diff': ['diff'], f'{D}.build_diff': ['old', 'new'],
              f'{D}.resolve_diff_references': ['diff', 'old_root']},
      statement='apply_diff does not mutate the diff it is given; build_diff '
      'and reference resolution mutate none of their inputs')

  # ---- IDMEMO
  rule = 'IDMEMO.diff-tables'
  rs.declare(rule, 'identity-keyed tables of the diff machinery pin their '
             'objects', 3)
  reasons = {
      (f'{D}.resolve_diff_references.replace_references',
       'original_to_transformed_diff_value'):
          'keys are ids of nodes of `diff`, which the caller (and the '
          'enclosing frame, through its parameter) holds for the whole '
          'resolution',
  }
  # the reference-replacing callback of resolve_diff_references, whatever it
  # is called and wherever it lives (closure, lifted function, bound method)
  owner = ctx.func(f'{D}.resolve_diff_references')
  cb_scopes, cb_classes = set(), set()
  for cb in ctx.p.callbacks(owner):
    base = getattr(cb, '_base', None) or cb
    cb_scopes |= {cb.qualname, base.qualname}
    if getattr(base, 'cls', None) is not None:
      cb_classes.add(base.cls.qualname)
  # ... or the methods of a helper object the function makes for this call
  for c_ in ctx.calls(owner):
    cq_ = ctx.p.resolve(c_.func, owner)
    if cq_ in ctx.p.classes and ctx.p.classes[cq_].module is owner.module:
      cb_classes.add(cq_)
  the_reason = next(iter(reasons.values()))
  for s in idmemo.scan_module(ctx, D):
    loc = ctx.loc(s.scope, s.node)
    in_cb = s.scope.qualname in cb_scopes or (
        getattr(s.scope, 'cls', None) is not None and
        s.scope.cls.qualname in cb_classes)
    if s.pinned:
      rs.ok(rule, s.key, s.how, loc)
    elif (s.scope.qualname, s.table) in reasons or in_cb:
      r = reasons.get((s.scope.qualname, s.table), the_reason)
      # side condition: the memoised object is a parameter of the callback
      ok = unparse(s.x) in s.scope.params
      rs.check(ok, rule, s.key, 'accepted: ' + r, loc)
      rs.exception(rule, s.key, r)
    else:
      rs.fail(rule, s.key, f'table `{s.table}` keyed by id({unparse(s.x)}) '
              'does not keep that object alive', loc)

  # ---- KD
  c14.kd_rule(ctx, rs, 'KD.diff-keys', [
      f'{D}._DiffFromAlignmentBuilder.record_buildable_diffs',
      f'{D}._DiffFromAlignmentBuilder.record_tag_diffs',
      'fiddle._src.mutate_buildable.update_callable',
  ], 3)


MANIFEST = dict(
    text=('Decides structural clauses of C10 for every pair: agreement of '
          'the operation class family with the applied / validated sets, '
          'loud dispatch, builder-emitted vs. apply-supported (operation, '
          'element) pairs, the precedence pairs of the application order, '
          'copy-before-use and validate-before-apply dominance, ownership '
          '(diff and inputs unmodified), identity-table pinning, and '
          'key-kind discipline of the builder. That the alignment reproduces '
          '`new` is not decided.'),
    note='Trusted: ast, CFG, call graph, the OWN analysis (see C17).',
    technique='static analysis: class-family / table agreement, precedence-pair order rule, CFG dominance, ownership dataflow, key-kind dataflow',
)
