"""OWN rule wrapper: entry points must not mutate what their inputs reach."""
from __future__ import annotations

from typing import Dict, List, Optional, Tuple

from fdlstatic.ctx import Ctx
from fdlstatic.own import Own
from fdlstatic.report import RuleSet

_CACHE: Dict[Tuple, Own] = {}


def analyse(ctx: Ctx, entries: List[str]) -> Own:
  key = (id(ctx), tuple(sorted(entries)))
  if key not in _CACHE:
    for e in entries:
      ctx.func(e)
    _CACHE[key] = Own(ctx).analyse(entries)
  return _CACHE[key]


def run_entry_points(ctx: Ctx, rs: RuleSet, rule: str, entries: List[str],
                     inputs: Dict[str, List[str]] = None,
                     exceptions: Dict[Tuple[str, str], str] = None,
                     statement: str = None, own: Own = None):
  """One obligation per (entry point, input parameter)."""
  inputs = inputs or {}
  exceptions = exceptions or {}
  own = own or analyse(ctx, entries)
  rs.declare(rule, statement or 'no mutation sink reachable from the entry '
             'point acts on an object that may alias (a part of) its input',
             len(entries))
  for e in entries:
    f = ctx.func(e)
    s = own.summaries[e]
    params = f.params
    want = inputs.get(e)
    for i, name in enumerate(params):
      if want is not None and name not in want:
        continue
      if want is None and name in ('self', 'cls') and i == 0 and not e.endswith(
          ('__eq__', '__repr__', '__copy__', '__deepcopy__', '__getitem__',
           '__dir__', '__getstate__', '__iter__', '__flatten__',
           '__path_elements__', 'get')):
        continue
      facts = []
      for (o, lvl), fct in s.mut.items():
        if o == i:
          facts += s.all.get((o, lvl)) or [fct]
      key = f'{e}:{name}'
      live = []
      for fct in facts:
        sink_text = fct.chain[-1]
        exc = None
        for (ee, frag), reason in exceptions.items():
          if ee in (e, '*') and frag in sink_text:
            exc = reason
        if exc:
          rs.exception(rule, f'{key} <- {sink_text}', exc)
        else:
          live.append(fct)
      if live:
        fct = live[0]
        rs.fail(rule, key,
                f'`{name}` (or something reachable from it) may be modified: '
                f'{fct.chain[-1]}', ctx.loc(f, f.node),
                witness=list(fct.chain))
      else:
        rs.ok(rule, key,
              f'no sink in the closure acts on an alias of `{name}` '
              f'({len(facts)} excepted)', ctx.loc(f, f.node))
  return own
