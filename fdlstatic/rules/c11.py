"""C11 - auto_config: building as_buildable() equals calling the function."""
from __future__ import annotations

import ast

from fdlstatic import cfg as cfg_lib
from fdlstatic.ctx import Ctx, kwarg
from fdlstatic.model import AnalysisError, unparse, walk_function, walk_stmts
from fdlstatic import roles
from fdlstatic.report import RuleSet
from fdlstatic.rules import ownrule

AC = 'fiddle._src.experimental.auto_config'
TR = f'{AC}._AutoConfigNodeTransformer'

# constructs that must be rejected, or only accepted with allow_control_flow
ACTIVATABLE = {'For', 'While', 'If', 'IfExp', 'ListComp', 'SetComp',
               'DictComp', 'GeneratorExp', 'Raise'}
ALWAYS_REJECTED = {'Try', 'With', 'Yield', 'YieldFrom', 'ClassDef',
                   'AsyncFunctionDef'}

EXPLANATION = (
    'Static clauses of C11 decided on the current source: (DEFUSE) calling '
    'the decorated function forwards (*args, **kwargs) unmodified to the '
    'original function object, as_buildable forwards them to the rewritten '
    'one, and make_auto_config hands the original fn (re-wrapped by the same '
    'method type) and the rewritten function to AutoConfig, copying defaults '
    'and globals; (EXH) the AST rewriter replaces every Call by a call of '
    'the handler with the original callee as first argument and the visited '
    'arguments / keywords, never returning the original call; every '
    'control-flow construct is routed to the single gate that raises unless '
    'control flow is enabled and the construct is activatable, with the '
    'never-supported constructs (try, with, yield, class, async def, nested '
    'def / lambda) always raising; the handler names the rewriter emits are '
    'exactly those make_auto_config inserts as closure cells; (GUARD) in the '
    'call handler every direct invocation fn_or_cls(*args, **kwargs) is '
    'control-dependent on an exemption test, the default path constructs '
    'config_cls(fn_or_cls, *args, **kwargs), always-inline AutoConfigs go '
    'through as_buildable, functools.partial / arg_factory.partial map to '
    'the Partial / ArgFactory types - so as_buildable invokes no '
    'configurable callable. Node classes of the running grammar that have no '
    'visit method are listed as observations. Not decided: semantic equality '
    'of the two interpretations of a program - the core of the property.')
ASSUMPTIONS = ['ast.NodeTransformer dispatches to visit_<ClassName>',
               'the exemption policy decides configurability (not analysed)']


def _always_raises(ctx, f) -> bool:
  g = ctx.cfg(f)
  return g.exit not in g.reach([g.entry], labels=cfg_lib.NO_EXC)


def closure_insert_order(ctx: Ctx, rs: RuleSet, mk):
  """The rewritten code object lists the handler names among its free

  variables; their cells are spliced into a copy of fn.__closure__ with
  list.insert at the index each name has in co_freevars.  That is only right
  when the insertions happen at ascending indices (an earlier insertion shifts
  everything after it).
  """
  rule = 'ORD.closure-cells'
  rs.declare(rule, 'handler cells are inserted into the closure at ascending '
             'co_freevars indices', 1)
  mod = mk.module
  inserts = []
  parents = {}
  for n in ast.walk(mk.node):
    for c in ast.iter_child_nodes(n):
      parents[c] = n
  own_nodes = set(walk_function(mk.node))
  for n in own_nodes:
    if isinstance(n, ast.Call) and isinstance(
        n.func, ast.Attribute) and n.func.attr == 'insert' and len(
            n.args) == 2 and isinstance(n.func.value, ast.Name):
      inserts.append(n)
  # the list that becomes the closure of the new function object
  clos = None
  for n in own_nodes:
    if isinstance(n, ast.Call) and unparse(n.func).endswith('FunctionType'):
      clos = roles.deref(mk, kwarg(n, 'closure'))
      if isinstance(clos, ast.Call) and isinstance(
          clos.func, ast.Name) and clos.func.id in ('tuple', 'list') and len(
              clos.args) == 1:
        clos = clos.args[0]  # tuple(<the list the cells were inserted into>)
  if clos is None or not inserts:
    raise AnalysisError('make_auto_config: closure construction not found')
  inserts = [c for c in inserts if c.func.value.id == unparse(clos)]
  if not inserts:
    raise AnalysisError('make_auto_config: no insertion into the closure list')

  def enclosing_for(n):
    while n in parents:
      n = parents[n]
      if isinstance(n, ast.For):
        return n
      if isinstance(n, (ast.FunctionDef, ast.Lambda)):
        return None
    return None

  def const_str(e):
    if isinstance(e, ast.Constant) and isinstance(e.value, str):
      return e.value
    if isinstance(e, ast.Name):
      v = mod.assigns.get(e.id)
      if isinstance(v, ast.Constant) and isinstance(v.value, str):
        return v.value
    return None

  for c in inserts:
    loop = enclosing_for(c)
    key = f'{mk.qualname}:`{unparse(c)[:50]}`'
    ok, why = False, 'the insertion is not inside a loop over the handlers'
    if loop is not None and isinstance(loop.iter, ast.Call) and unparse(
        loop.iter.func) == 'sorted' and len(loop.iter.args) == 1 and (
            not loop.iter.keywords) and isinstance(loop.target, ast.Tuple):
      tnames = [unparse(t) for t in loop.target.elts]
      lst = unparse(loop.iter.args[0])
      # every element appended to the sorted list is (index, cell)
      apps = [a for a in own_nodes if isinstance(a, ast.Call) and isinstance(
          a.func, ast.Attribute) and a.func.attr == 'append' and unparse(
              a.func.value) == lst]
      def pair_ok(el):
        return isinstance(el, ast.Tuple) and len(
            el.elts) == 2 and _is_freevar_index(mk, el.elts[0])

      # the list starts empty or as a comprehension of such pairs
      inits = [s_.value for s_ in own_nodes if isinstance(s_, ast.Assign) and
               any(unparse(t) == lst for t in s_.targets)]
      init_pairs = [i_ for i_ in inits if isinstance(i_, ast.ListComp)]
      inits_ok = all(
          (isinstance(i_, ast.List) and all(pair_ok(e_) for e_ in i_.elts)) or
          (isinstance(i_, ast.ListComp) and pair_ok(i_.elt)) for i_ in inits)
      idx_first = (bool(apps) or bool(init_pairs)) and inits_ok and all(
          len(a.args) == 1 and pair_ok(a.args[0]) for a in apps)
      ok = (len(tnames) == 2 and [unparse(a) for a in c.args] == tnames and
            idx_first)
      why = (f'iterates sorted({lst}) of (co_freevars index, cell) pairs: '
             'ascending indices' if ok else
             f'sorted({lst}) is not a list of (co_freevars index, cell) pairs '
             'inserted as (index, cell)')
    elif loop is not None and isinstance(loop.iter, ast.Name) and isinstance(
        loop.target, ast.Tuple) and [unparse(a) for a in c.args] == [
            unparse(t) for t in loop.target.elts]:
      # an unsorted list: the cells go in in the order they were appended;
      # ascending iff the handler names were appended in name order
      # (co_freevars is sorted by name)
      lst = loop.iter.id
      apps = sorted((a for a in own_nodes if isinstance(a, ast.Call) and
                     isinstance(a.func, ast.Attribute) and
                     a.func.attr == 'append' and unparse(a.func.value) == lst),
                    key=lambda a: (a.lineno, a.col_offset))
      ids = []
      for a in apps:
        el = a.args[0] if a.args else None
        if not (isinstance(el, ast.Tuple) and len(el.elts) == 2 and
                _is_freevar_index(mk, el.elts[0])):
          ids = None
          break
        idx = el.elts[0]
        if isinstance(idx, ast.Name):
          idx = [s.value for s in walk_function(mk.node)
                 if isinstance(s, ast.Assign) and any(
                     isinstance(t, ast.Name) and t.id == idx.id
                     for t in s.targets) and s.lineno <= a.lineno][-1]
        arg = idx.args[0]
        lp = enclosing_for(a)
        if const_str(arg) is not None:
          ids.append(const_str(arg))
        elif lp is not None and isinstance(lp.iter, (ast.Tuple, ast.List)) and (
            isinstance(lp.target, ast.Tuple) and isinstance(arg, ast.Name) and
            unparse(lp.target.elts[0]) == arg.id):
          ids += [const_str(e.elts[0]) if isinstance(e, ast.Tuple) and e.elts
                  else None for e in lp.iter.elts]
        else:
          ids = None
          break
      if ids and None not in ids:
        ok = ids == sorted(ids)
        why = (f'cells are appended for {ids} in ascending name order and '
               'inserted in that order (co_freevars is sorted by name)' if ok
               else f'cells are inserted in the order {ids} without sorting '
               'by index: a later insertion at a smaller index shifts the '
               'earlier cell')
      else:
        why = 'insertion order of the handler cells cannot be established'
    elif loop is not None and _enumerated_freevars(ctx, mk, loop, c):
      ok = True
      why = ('the cells are inserted while enumerating co_freevars: indices '
             'ascend by construction')
    elif loop is not None and isinstance(loop.iter, (ast.Tuple, ast.List)):
      # a literal sequence of (handler id, handler): ascending iff the ids
      # are in ascending name order (co_freevars is sorted by name)
      ids = [const_str(e.elts[0]) if isinstance(e, ast.Tuple) and e.elts
             else None for e in loop.iter.elts]
      if None not in ids and _is_freevar_index(mk, c.args[0]) and len(
          inserts) == 1:
        ok = ids == sorted(ids)
        why = (f'handler names {ids} are visited in ascending name order '
               '(co_freevars is sorted by name)' if ok else
               f'handler names are visited in the order {ids}, which is not '
               'the order of their co_freevars indices: an insertion at a '
               'larger index followed by one at a smaller index shifts the '
               'first cell, so a free variable of the user function is bound '
               'to a handler (and vice versa)')
      else:
        why = 'insertion order of the handler cells cannot be established'
    rs.check(ok, rule, key, why, ctx.loc(mk, c))


def _enumerated_freevars(ctx, mk, loop, insert_call) -> bool:
  """The loop walks (index, name) pairs taken from enumerate(co_freevars) -
  directly or through a comprehension that filters them / wraps them in a
  small record - and the insertion index is that enumerate index."""
  it = roles.deref(mk, loop.iter) if isinstance(loop.iter, ast.Name) else (
      loop.iter)
  idx_expr = insert_call.args[0]

  def enum_of_freevars(e):
    return (isinstance(e, ast.Call) and unparse(e.func) == 'enumerate' and
            e.args and 'co_freevars' in unparse(
                roles.deref_deep(mk, e.args[0])))

  if enum_of_freevars(it):
    tg = loop.target
    return isinstance(tg, ast.Tuple) and len(tg.elts) == 2 and unparse(
        idx_expr) == unparse(tg.elts[0])
  if isinstance(it, (ast.ListComp, ast.GeneratorExp)) and len(
      it.generators) == 1 and enum_of_freevars(it.generators[0].iter):
    gt = it.generators[0].target
    if not (isinstance(gt, ast.Tuple) and len(gt.elts) == 2 and isinstance(
        gt.elts[0], ast.Name)):
      return False
    idx = gt.elts[0].id
    elt = it.elt
    if isinstance(elt, ast.Tuple) and isinstance(loop.target, ast.Tuple) and (
        len(elt.elts) == len(loop.target.elts)):
      for e_, t_ in zip(elt.elts, loop.target.elts):
        if isinstance(e_, ast.Name) and e_.id == idx:
          return unparse(idx_expr) == unparse(t_)
      return False
    if isinstance(elt, ast.Call) and isinstance(loop.target, ast.Name):
      b = ctx.bound_args(elt, mk) or {}
      fields = [k for k, v in b.items() if isinstance(v, ast.Name) and
                v.id == idx]
      return isinstance(idx_expr, ast.Attribute) and isinstance(
          idx_expr.value, ast.Name) and idx_expr.value.id == loop.target.id and (
              idx_expr.attr in fields)
  return False


def _is_freevar_index(mk, e) -> bool:
  """`e` is code.co_freevars.index(ID) or a local assigned exactly that."""
  def direct(x):
    return (isinstance(x, ast.Call) and isinstance(x.func, ast.Attribute) and
            x.func.attr == 'index' and unparse(
                roles.deref(mk, x.func.value)).endswith(
                    '.co_freevars') and len(x.args) == 1)
  if direct(e):
    return True
  if isinstance(e, ast.Name):
    defs = [s.value for s in walk_function(mk.node)
            if isinstance(s, ast.Assign) and any(
                isinstance(t, ast.Name) and t.id == e.id for t in s.targets)]
    return bool(defs) and all(direct(d) for d in defs)
  return False


def run(ctx: Ctx, rs: RuleSet, tier: str):
  p = ctx.p
  # ---- DEFUSE
  rule = 'DEFUSE.wrapper-delegation'
  rs.declare(rule, 'the wrapper forwards arguments unmodified to the '
             'original / rewritten function', 4)
  for name, field in (('__call__', 'func'), ('as_buildable',
                                             'buildable_func')):
    m = ctx.func(f'{AC}.AutoConfig.{name}')
    a = m.node.args
    rets = [r for r in walk_function(m.node) if isinstance(r, ast.Return)]
    ok = len(rets) == 1 and a.vararg is not None and a.kwarg is not None and (
        unparse(rets[0].value) ==
        f'{m.params[0]}.{field}(*{a.vararg.arg}, **{a.kwarg.arg})') and len(
            m.node.body) <= 2
    rs.check(ok, rule, m.qualname,
             f'returns self.{field}(*args, **kwargs)', ctx.loc(m, m.node))
  # descriptor access binds both functions to (obj, objtype) anew each time
  gt = ctx.func(f'{AC}.AutoConfig.__get__')
  sp, op, tp = gt.params[0], gt.params[1], gt.params[2]
  rets = [r for r in walk_function(gt.node) if isinstance(r, ast.Return)]

  def _bound(e, field):
    return (isinstance(e, ast.Call) and unparse(e.func) ==
            f'{sp}.{field}.__get__' and [unparse(a) for a in e.args] == [op, tp])

  def _fresh_binding(e, depth=0):
    if isinstance(e, ast.Name) and depth < 2:
      defs = roles.defs_of(gt, e.id)
      return bool(defs) and all(_fresh_binding(d, depth + 1) for d in defs)
    return (isinstance(e, ast.Call) and unparse(e.func) == 'AutoConfig' and
            kwarg(e, 'func') is not None and _bound(kwarg(e, 'func'), 'func')
            and kwarg(e, 'buildable_func') is not None and
            _bound(kwarg(e, 'buildable_func'), 'buildable_func'))

  stores_self = [n for n in walk_function(gt.node) if (
      isinstance(n, ast.Call) and unparse(n.func).endswith('__setattr__') and
      n.args and unparse(n.args[0]) == sp) or (
          isinstance(n, (ast.Assign, ast.AugAssign)) and any(
              unparse(t).startswith(f'{sp}.') or unparse(t).startswith(
                  f'{sp}.__dict__') for t in (
                      n.targets if isinstance(n, ast.Assign) else [n.target])))]
  ok = bool(rets) and all(_fresh_binding(r.value) for r in rets) and (
      not stores_self)
  rs.check(ok, rule, gt.qualname,
           'returns AutoConfig(func=self.func.__get__(obj, objtype), '
           'buildable_func=self.buildable_func.__get__(obj, objtype), ...) '
           'and keeps nothing on the descriptor' if ok else
           'attribute access does not bind both functions to (obj, objtype) '
           'afresh' + (f' (`{unparse(stores_self[0])[:50]}` stores a binding '
                       'on the shared descriptor)' if stores_self else '') +
           ': a classmethod reached through a subclass after its base class '
           'is called with the class bound first, unlike the plain function',
           ctx.loc(gt, gt.node))
  mk = ctx.func(f'{AC}.auto_config.make_auto_config')
  g = ctx.cfg(mk)
  fn = mk.params[0]
  # fn is only rebound to fn.__func__ / method_type(fn), possibly through a
  # local that names the decorated object (`orig = fn`)
  binds = {}
  for n in g.nodes():
    if g.stmt[n] is not None and g.kind[n] in ('stmt', 'for', 'with'):
      for t, kind, v in roles._store_targets(g.stmt[n]):  # pylint: disable=protected-access
        binds.setdefault(t.id, []).append(v if kind == 'value' else None)
  same = {fn}
  while True:
    more = {k for k, vs in binds.items() if k not in same and len(vs) == 1 and
            isinstance(vs[0], ast.Name) and vs[0].id in same}
    if not more:
      break
    same |= more
  rebinds = [unparse(v) if v is not None else '<unpacked>'
             for v in binds.get(fn, [])]
  # locals holding the method wrapper type: <v> = type(fn)
  mtypes = {k for k, vs in binds.items() if vs and all(
      v is not None and (
          (isinstance(v, ast.Call) and unparse(v.func) == 'type' and len(
              v.args) == 1 and unparse(v.args[0]) in same) or
          (isinstance(v, ast.Constant) and v.value is None)) for v in vs) and
            any(isinstance(v, ast.Call) for v in vs)}
  ok_rebind = set(rebinds) <= ({f'{x}.__func__' for x in same} |
                               (same - {fn}) |
                               {f'{t}({fn})' for t in mtypes})
  ctor = [c for c in ctx.calls(mk) if p.resolve(c.func, mk) ==
          f'{AC}.AutoConfig']
  # the second argument is the (checking wrapper around the) rewritten
  # function object
  rewritten = roles.assigned_from(mk, roles.call_of('types.FunctionType'))
  ab_names = set(rewritten)
  for nf_name, nf in mk.nested.items():
    if any(isinstance(c.func, ast.Name) and c.func.id in rewritten
           for c in ctx.calls(nf)):
      ab_names.add(nf_name)
  ok_ctor = (len(ctor) == 1 and len(ctor[0].args) >= 2 and
             unparse(ctor[0].args[0]) == fn and
             unparse(ctor[0].args[1]) in ab_names)
  rs.check(ok_rebind and ok_ctor, rule, f'{mk.qualname}:AutoConfig',
           f'AutoConfig({fn}, as_buildable, ...); {fn} rebound only by '
           f'{rebinds}', ctx.loc(mk, mk.node))
  ok = False
  for st in walk_function(mk.node):
    if isinstance(st, ast.Assign) and isinstance(st.value, ast.Call) and unparse(
        st.value.func) == 'types.FunctionType' and len(st.value.args) >= 2:
      new_fn = unparse(st.targets[0])
      shares_globals = unparse(st.value.args[1]) == f'{fn}.__globals__'
      has_closure = kwarg(st.value, 'closure') is not None
      copied = {unparse(a.targets[0]): unparse(a.value)
                for a in walk_function(mk.node) if isinstance(a, ast.Assign)}
      ok = (shares_globals and has_closure and
            copied.get(f'{new_fn}.__defaults__') == f'{fn}.__defaults__' and
            copied.get(f'{new_fn}.__kwdefaults__') == f'{fn}.__kwdefaults__')
  rs.check(ok, rule, f'{mk.qualname}:function-object',
           'the rewritten function shares globals, defaults and keyword '
           'defaults with the original', ctx.loc(mk, mk.node))
  # as_buildable wrapper calls the rewritten function with its own arguments
  ab = ctx.p.nested_of(mk, 'as_buildable')
  ok = False
  if ab is not None and ab.node.args.vararg and ab.node.args.kwarg:
    va, kw = ab.node.args.vararg.arg, ab.node.args.kwarg.arg
    ok = any(isinstance(c.func, ast.Name) and c.func.id in rewritten and
             [unparse(a) for a in c.args] == [f'*{va}'] and
             [(k.arg, unparse(k.value)) for k in c.keywords] == [(None, kw)]
             for c in ctx.calls(ab))
  rs.check(ok, rule, f'{mk.qualname}:as_buildable',
           'the checking wrapper calls auto_config_fn(*args, **kwargs) and '
           'returns its output', ctx.loc(mk, mk.node))

  # ---- EXH over the rewriter
  rule = 'EXH.rewriter-constructs'
  rs.declare(rule, 'control-flow and unsupported constructs reach the '
             'rejecting gate; calls are always rewritten', 12)
  tr = ctx.cls(TR)
  visits = {n[len('visit_'):]: m for n, m in tr.methods.items()
            if n.startswith('visit_')}
  gate = tr.methods.get('_handle_control_flow')
  if gate is None:
    raise AnalysisError('_handle_control_flow not found')
  # the gate: generic_visit only under (allow and activatable), else raise
  gg = ctx.cfg(gate)
  ok = False
  for n in gg.nodes():
    if gg.kind[n] == 'if':
      t = gg.stmt[n].test
      if isinstance(t, ast.BoolOp) and isinstance(t.op, ast.And) and sorted(
          unparse(v) for v in t.values) == sorted(
              [f'{gate.params[0]}._allow_control_flow', gate.params[2]]):
        f_succ = [x for x, lab in gg.succ[n] if lab == 'false']
        r = gg.reach(f_succ, labels=cfg_lib.NO_EXC)
        ok = gg.exit not in r and gg.raise_exit in r
  rs.check(ok, rule, gate.qualname,
           'constructs pass only if control flow is allowed and the construct '
           'is activatable; otherwise UnsupportedLanguageConstructError',
           ctx.loc(gate, gate.node))
  for cname in sorted(ACTIVATABLE | ALWAYS_REJECTED):
    m = visits.get(cname)
    if m is None:
      rs.fail(rule, f'{TR}.visit_{cname}',
              f'{cname} nodes are no longer intercepted: they would be '
              'copied into the rewritten function without being checked', '')
      continue
    calls = [c for c in ctx.calls(m) if isinstance(c.func, ast.Attribute) and
             c.func.attr == '_handle_control_flow']
    if calls:
      act = kwarg(calls[0], 'activatable')
      is_act = isinstance(act, ast.Constant) and act.value is True
      want = cname in ACTIVATABLE
      rets = [r for r in walk_function(m.node) if isinstance(r, ast.Return)]
      routed = len(rets) == 1 and rets[0].value is calls[0]
      rs.check(routed and is_act == want, rule, f'{TR}.visit_{cname}',
               f'routed to the gate with activatable={is_act}' + (
                   '' if is_act == want else
                   f' (expected {want}: {cname} is '
                   f'{"" if want else "never "}supported)'),
               ctx.loc(m, m.node))
    else:
      rs.check(_always_raises(ctx, m), rule, f'{TR}.visit_{cname}',
               'always raises UnsupportedLanguageConstructError',
               ctx.loc(m, m.node))
  # nested defs / lambdas inside the function are rejected
  for cname in ('FunctionDef', 'Lambda'):
    m = visits.get(cname)
    ok = False
    if m is not None:
      g = ctx.cfg(m)
      def _nested(t):
        return (isinstance(t, ast.Compare) and len(t.ops) == 1 and isinstance(
            t.ops[0], ast.Gt) and unparse(t.left).endswith(
                '._function_def_depth') and unparse(t.comparators[0]) == '0')
      for n in g.nodes():
        lab_n = roles.branch_when(g.stmt[n].test, _nested) if (
            g.kind[n] == 'if') else None
        if lab_n is not None:
          r = g.reach([x for x, lab in g.succ[n] if lab == lab_n],
                      labels=cfg_lib.NO_EXC)
          ok = g.exit not in r and g.raise_exit in r
    rs.check(ok, rule, f'{TR}.visit_{cname}',
             f'a nested {cname} raises', ctx.loc(m, m.node) if m else '')
  # visit_Call
  vc = visits.get('Call')
  ok = False
  if vc is not None:
    rets = [r for r in walk_function(vc.node) if isinstance(r, ast.Return)]
    if len(rets) == 1 and isinstance(rets[0].value, ast.Call) and unparse(
        rets[0].value.func) == 'ast.Call':
      c = rets[0].value
      func = kwarg(c, 'func')
      args = kwarg(c, 'args')
      kws = kwarg(c, 'keywords')
      node = vc.params[1]
      callee = unparse(args.elts[0]) if isinstance(
          args, ast.List) and args.elts else ''
      callee_visited = callee == f'{vc.params[0]}.visit({node}.func)'
      ok = (func is not None and '_CALL_HANDLER_ID' in unparse(func) and
            isinstance(args, ast.List) and callee in (
                f'{node}.func', f'{vc.params[0]}.visit({node}.func)') and
            'self.visit(arg)' in unparse(args) and
            f'{node}.args' in unparse(args) and kws is not None and
            'self.visit(keyword)' in unparse(kws) and
            f'{node}.keywords' in unparse(kws))
  rs.check(ok, rule, f'{TR}.visit_Call',
           'every call becomes handler(<callee>, *visited args, **visited '
           'keywords); no path returns the original call',
           ctx.loc(vc, vc.node) if vc else '')
  if vc is not None and ok:
    rs.check(callee_visited, rule, f'{TR}.visit_Call:callee-visited',
             'the callee expression is rewritten too' if callee_visited else
             f'the callee expression `{node}.func` is handed to the handler '
             'unvisited: calls and attribute accesses inside it are not '
             'rewritten, so `Holder(Builder(3).make(2))` really runs '
             '`Builder(3)` while as_buildable() is evaluated (as_buildable '
             'must invoke no configurable callable)',
             ctx.loc(vc, vc.node))
  # observation: grammar classes without a visit method
  grammar = sorted(n for n in dir(ast) if isinstance(getattr(ast, n), type) and
                   issubclass(getattr(ast, n), (ast.stmt, ast.expr)) and
                   getattr(ast, n) not in (ast.stmt, ast.expr))
  unhandled = [n for n in grammar if n not in visits]
  risky = [n for n in unhandled if n in (
      'Match', 'TryStar', 'AsyncFor', 'AsyncWith', 'Await', 'NamedExpr')]
  rs.observe(f'{len(grammar)} stmt/expr classes in the running grammar, '
             f'{len(visits)} have visit methods; control-flow-like classes '
             f'falling through to generic_visit: {risky} (outside the '
             'property\'s stated subset)')

  # handler ids agree
  rule = 'EXH.handler-cells'
  rs.declare(rule, 'handler names emitted by the rewriter = closure cells '
             'inserted by make_auto_config', 1)
  emitted = set()
  for m in tr.methods.values():
    for n in ast.walk(m.node):  # including helpers nested in the visitors
      if isinstance(n, ast.Name) and n.id.endswith('_HANDLER_ID'):
        emitted.add(n.id)
  inserted = {n.id for n in walk_function(mk.node)
              if isinstance(n, ast.Name) and n.id.endswith('_HANDLER_ID')}
  rs.check(emitted <= inserted and len(emitted) >= 3, rule,
           f'{mk.qualname}:handlers',
           f'emitted {sorted(emitted)}; inserted {sorted(inserted)}',
           ctx.loc(mk, mk.node))

  # ---- GUARD: the call handler
  rule = 'GUARD.call-handler'
  rs.declare(rule, 'direct invocation only under an exemption test; default '
             'path builds a Config', 5)
  ch = ctx.func(f'{AC}.auto_config.auto_config_call_handler')
  g = ctx.cfg(ch)
  fparam = ch.params[0]
  direct = [n for n in g.nodes() if any(
      isinstance(e, ast.Call) and unparse(e.func) == fparam
      for e in cfg_lib.walk_node(g, n))]
  exempt_atoms = [e for n in g.nodes() if g.kind[n] == 'if'
                  for e in ast.walk(g.stmt[n].test) if unparse(e) in (
                      f'{fparam} is exempt',
                      f'experimental_exemption_policy({fparam})')]
  if not direct:
    rs.fail(rule, f'{ch.qualname}:direct-call',
            'no exempt path calls the callable directly', ctx.loc(ch, ch.node))
  from fdlstatic import dispatch

  def exemption(v):
    def ev(t):
      if unparse(t) in (f'{fparam} is exempt',
                        f'experimental_exemption_policy({fparam})'):
        return v
      return None
    return ev

  not_exempt = dispatch.reach_atoms(g, exemption(False))
  for n in direct:
    # never reached when no exemption test holds (whatever the tests are
    # combined with), and there is an exemption test at all
    ok = bool(exempt_atoms) and n not in not_exempt
    rs.check(ok, rule, f'{ch.qualname}:`{g.describe(n)[5:60]}`',
             'reached only through an exemption test' if ok else
             'the configured callable is invoked without an exemption test: '
             'as_buildable would run user code', ctx.loc(ch, g.stmt[n]))
  rets = [g.stmt[n] for n in g.nodes() if isinstance(g.stmt[n], ast.Return)]
  last = ch.node.body[-1]
  ok = isinstance(last, ast.Return) and unparse(last.value) == (
      f'experimental_config_types.config_cls({fparam}, *args, **kwargs)')
  rs.check(ok, rule, f'{ch.qualname}:default',
           'everything else becomes config_cls(fn_or_cls, *args, **kwargs)',
           ctx.loc(ch, ch.node))
  src = unparse(ch.node)
  ok = (f'isinstance({fparam}, AutoConfig) and {fparam}.always_inline' in src
        and f'return {fparam}.as_buildable(*args, **kwargs)' in src)
  rs.check(ok, rule, f'{ch.qualname}:inline',
           'always-inline auto_config functions are expanded through '
           'as_buildable', ctx.loc(ch, ch.node))
  va = ch.node.args.vararg.arg if ch.node.args.vararg else None
  kw = ch.node.args.kwarg.arg if ch.node.args.kwarg else None

  def _branch(target_text):
    for n in walk_function(ch.node):
      if isinstance(n, ast.If) and isinstance(n.test, ast.Compare) and len(
          n.test.ops) == 1 and isinstance(n.test.ops[0], ast.Is) and unparse(
              n.test.left) == fparam and unparse(
                  n.test.comparators[0]) == target_text:
        return n
    return None

  def _partial_cls_expr(e):
    # experimental_config_types.partial_cls, directly or through a local
    return any(isinstance(x, ast.Attribute) and x.attr == 'partial_cls'
               for x in roles.expand(ch, e, 2))

  def _make_partial_call(br):
    rets = [r for r in br.body if isinstance(r, ast.Return)]
    if len(rets) != 1 or not isinstance(rets[0].value, ast.Call):
      return None
    c = rets[0].value
    if unparse(c.func) != '_make_partial' or len(c.args) != 3:
      return None
    # named intermediate results read as the expressions they name
    pc = c.args[0]
    c = roles.deref_deep(ch, c)
    if not (_partial_cls_expr(pc) and unparse(c.args[1]) == f'{va}[0]'
            and isinstance(c.args[2], ast.Starred) and len(c.keywords) == 1 and
            c.keywords[0].arg is None):
      return None
    return c

  br = _branch('functools.partial')
  c = _make_partial_call(br) if br is not None else None
  ok = (c is not None and unparse(c.args[2].value) == f'{va}[1:]' and
        unparse(c.keywords[0].value) == kw)
  rs.check(ok, rule, f'{ch.qualname}:functools.partial',
           'functools.partial(f, ...) becomes Partial(f, ...)',
           ctx.loc(ch, ch.node))

  def _wraps_each(comp, src_text):
    """comp maps every element of src through _maybe_as_arg_factory."""
    if not isinstance(comp, (ast.ListComp, ast.GeneratorExp, ast.DictComp)):
      return False
    gen = comp.generators[0]
    if len(comp.generators) != 1 or gen.ifs or unparse(gen.iter) != src_text:
      return False
    val = comp.value if isinstance(comp, ast.DictComp) else comp.elt
    tg = gen.target
    elem = tg.elts[1] if isinstance(comp, ast.DictComp) and isinstance(
        tg, ast.Tuple) and len(tg.elts) == 2 else tg
    keyed = (not isinstance(comp, ast.DictComp)) or unparse(
        comp.key) == unparse(tg.elts[0])
    return (keyed and isinstance(val, ast.Call) and unparse(val.func) ==
            '_maybe_as_arg_factory' and len(val.args) == 2 and
            unparse(val.args[1]) == unparse(elem))

  br = _branch('arg_factory.partial')
  c = _make_partial_call(br) if br is not None else None
  ok = (c is not None and _wraps_each(c.args[2].value, f'{va}[1:]') and
        _wraps_each(c.keywords[0].value, f'{kw}.items()'))
  rs.check(ok, rule, f'{ch.qualname}:arg_factory.partial',
           'arg_factory.partial maps every argument to an ArgFactory',
           ctx.loc(ch, ch.node))

  # ---- OWN: the runtime handlers leave what the user function passes alone
  handlers = [f'{AC}._maybe_as_arg_factory',
              f'{AC}._make_partial',
              f'{AC}.auto_config.auto_config_call_handler',
              f'{AC}.auto_config.auto_config_attr_load_handler',
              f'{AC}.auto_config.auto_config_attr_save_handler']
  ownrule.run_entry_points(
      ctx, rs, 'OWN.handler-arguments', handlers,
      inputs={handlers[-1]: ['attr', 'value']},
      statement='the handlers substituted for calls and attribute accesses '
      'never modify the objects the user function hands them (the plain '
      'function would not): a Partial bound to a local and then extended by a '
      'chained functools.partial stays as it was')
  rs.exception('OWN.handler-arguments', f'{handlers[-1]}:obj',
               'the attribute-store handler exists to perform `obj.attr = '
               'value` on obj, as the plain function does')

  # ---- ORD: closure cells are spliced at ascending co_freevars indices
  closure_insert_order(ctx, rs, mk)


MANIFEST = dict(
    text=('Decides the structural clauses of C11 only: argument-preserving '
          'delegation of the wrapper, exhaustive routing of control-flow and '
          'unsupported AST constructs to a rejecting gate, unconditional '
          'rewriting of calls, agreement of emitted handler names with '
          'inserted closure cells, and control dependence of every direct '
          'invocation on an exemption test (so as_buildable runs no '
          'configurable callable). The semantic equality of fn(*args) and '
          'build(fn.as_buildable(*args)) over programs is not decided by '
          'any static argument in reach.'),
    note='Trusted: ast.NodeTransformer dispatch; the exemption policy.',
    technique='static analysis: dispatch exhaustiveness over AST node classes, CFG control dependence, def-use shape rules, table agreement',
)
