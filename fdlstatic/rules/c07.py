"""C07 - copies are faithful and independent (copy, deepcopy, pickle, cast)."""
from __future__ import annotations

import ast
from typing import Optional, Tuple

from fdlstatic import cfg as cfg_lib
from fdlstatic.ctx import Ctx, kwarg
from fdlstatic.model import AnalysisError, unparse, walk_function
from fdlstatic import roles
from fdlstatic.report import RuleSet
from fdlstatic.rules import c08

CFG = 'fiddle._src.config'
B = f'{CFG}.Buildable'
MD = f'{CFG}.BuildableTraverserMetadata'

EXPLANATION = (
    'Static clauses of C07 decided on the current source (FRESHC / OWN): the '
    'flatten step snapshots every tag set into a frozenset and every history '
    'list into a tuple; the metadata accessors used by unflatten return a '
    'new dict of new sets (tags), a new History of new lists (history) and a '
    'new dict (arguments); __unflatten__ allocates a new object, installs a '
    'new argument dict and assigns exactly those three fresh containers; '
    '__copy__ and cast are unflatten(flatten(x)) of the source; __deepcopy__ '
    'allocates a new object and deep-copies the whole instance dict, '
    'pre-seeding the memo only with the immutable inspect.Signature; '
    '__getstate__ works on a copy of the instance dict and never writes the '
    'original; copy_with / deepcopy_with edit only the copy they just made '
    '(the copy dominates the edit). The immutable objects deliberately shared '
    'by deep copies (NoValue, HistoryEntry, Location) are frozen or '
    'sentinel classes. Not decided: equality of a copy with its original.')
ASSUMPTIONS = [
    'copy.copy / copy.deepcopy / pickle behave as documented',
    'frozenset / tuple snapshots cannot be mutated',
]

IMMUTABLE_SNAPSHOT = {'frozenset', 'tuple'}
FRESH_MUTABLE = {'set', 'list', 'dict'}


def comp_value_wrapper(comp: ast.DictComp) -> Optional[str]:
  """{k: W(v) for k, v in ...} -> 'W' if the value is W(<loop var>)."""
  v = comp.value
  if isinstance(v, ast.Call) and isinstance(v.func, ast.Name) and len(
      v.args) == 1 and isinstance(v.args[0], ast.Name):
    tgt = comp.generators[0].target
    names = {x.id for x in ast.walk(tgt) if isinstance(x, ast.Name)}
    if v.args[0].id in names:
      return v.func.id
  return None


def deepcopy_memo_rules(ctx: Ctx, rs: RuleSet, rule: str):
  """The memo handed to copy.deepcopy is the caller's, pre-seeded only with

  the immutable signature (nothing mutable is exempted from copying).
  """
  p = ctx.p
  df = ctx.func(f'{B}.__deepcopy__')
  g = ctx.cfg(df)
  memo = df.params[1]
  seeds = [n for n in walk_function(df.node) if isinstance(n, ast.Assign) and
           any(isinstance(t, ast.Subscript) and unparse(t.value) == memo
               for t in n.targets)]
  ok_seed = all(unparse(roles.deref_deep(df, s.value)).endswith('.signature')
                and unparse(roles.deref_deep(df, s.targets[0].slice)) == (
                    f'id({unparse(roles.deref_deep(df, s.value))})')
                for s in seeds) and len(seeds) <= 1
  rebound = [n for n in walk_function(df.node) if isinstance(
      n, (ast.Assign, ast.AugAssign, ast.AnnAssign)) and any(
          isinstance(t, ast.Name) and t.id == memo
          for t in (n.targets if isinstance(n, ast.Assign) else [n.target]))]
  rs.check(not rebound, rule, f'{df.qualname}:memo-shared',
           'the memo passed on to copy.deepcopy is the caller\'s memo object '
           '(objects shared between sub-Buildables are copied once)'
           if not rebound else
           f'`{unparse(rebound[0])}` replaces the caller\'s memo: copies made '
           'below this Buildable are not recorded for its siblings, so a node '
           'shared across sub-Buildables is duplicated by deepcopy',
           ctx.loc(df, rebound[0] if rebound else df.node))
  rs.check(ok_seed, rule, f'{df.qualname}:memo-seed',
           'the memo is pre-seeded only with the immutable signature object '
           f'({[unparse(s) for s in seeds]})', ctx.loc(df, df.node))
  return df, g, memo


def sentinel_and_override_rules(ctx: Ctx, rs: RuleSet):
  """(a) A sentinel whose copy and deepcopy are itself must also unpickle to

  itself; (b) a Buildable subclass that overrides __unflatten__ must restore
  the tags the metadata carries (copy.copy / cast / copy_with go through it).
  """
  p = ctx.p
  rule = 'IDENTITY.sentinel-pickle'
  rs.declare(rule, 'objects that are their own copy and deep copy (compared '
             'with `is`) are also their own unpickled value', 1)
  n = 0
  for cq, ci in sorted(p.classes.items()):
    if not cq.startswith('fiddle._src.') or cq.endswith('_test'):
      continue
    cp, dc = ci.methods.get('__copy__'), ci.methods.get('__deepcopy__')
    if cp is None or dc is None:
      continue

    def returns_self(m):
      rets = [r for r in walk_function(m.node) if isinstance(r, ast.Return)]
      return bool(rets) and all(unparse(r.value) == m.params[0] for r in rets)

    if not (returns_self(cp) and returns_self(dc)):
      continue
    n += 1
    red = ci.methods.get('__reduce__') or ci.methods.get('__reduce_ex__')
    ok = False
    if red is not None:
      rets = [r for r in walk_function(red.node) if isinstance(r, ast.Return)]
      mod = ci.module if hasattr(ci, 'module') else None
      ok = bool(rets) and all(isinstance(r.value, ast.Constant) and isinstance(
          r.value.value, str) for r in rets)
      if ok and mod is not None:
        ok = all(r.value.value in mod.assigns for r in rets)
    rs.check(ok, rule, cq,
             '__reduce__ names the module-level instance: pickle returns the '
             'same object' if ok else
             f'{ci.name} instances are their own copy / deep copy but pickle '
             'creates a new instance: a configuration holding the sentinel '
             '(fdl.NO_VALUE) comes back from a pickle round trip with an '
             'argument that is no longer `is` the sentinel and != the original',
             ctx.loc(cp, cp.node))
  if n == 0:
    raise AnalysisError('no identity-copied sentinel class found (NoValue)')
  rule = 'FRESHC.unflatten-overrides'
  rs.declare(rule, 'every __unflatten__ of a Buildable class restores the '
             'argument tags from the metadata', 1)
  base = f'{B}.__unflatten__'
  for cq in sorted(p.subclasses(B, strict=False)):
    ci = p.classes[cq]
    m = ci.methods.get('__unflatten__')
    if m is None:
      continue
    uses_tags = any(isinstance(c, ast.Call) and isinstance(
        c.func, ast.Attribute) and c.func.attr == 'tags'
                    for c in walk_function(m.node))
    delegates = any(isinstance(c, ast.Call) and '__unflatten__' in unparse(
        c.func) and 'super()' in unparse(c.func) for c in walk_function(m.node))
    init = ci.methods.get('__init__')
    argless = (init is not None and len(init.params) == 1 and
               not init.node.args.vararg and not init.node.args.kwarg and
               all(isinstance(r, ast.Return) and unparse(r.value) == 'cls()'
                   for r in walk_function(m.node) if isinstance(r, ast.Return)))
    if argless and not (uses_tags or delegates):
      rs.exception(rule, m.qualname, 'the class takes no arguments at all '
                   '(its __init__ has no parameters and __unflatten__ is '
                   'cls()): there is nothing to tag (re-verified)')
      rs.ok(rule, m.qualname, 'argument-less placeholder class', ctx.loc(m, m.node))
      continue
    rs.check(uses_tags or delegates, rule, m.qualname,
             'restores metadata.tags()' if uses_tags else
             'delegates to the base implementation' if delegates else
             f'{m.qualname} rebuilds the object from the arguments only: '
             'copy.copy, fdl.cast and fdl.copy_with of such a configuration '
             'lose its argument tags (the base implementation restores them)',
             ctx.loc(m, m.node))


def run(ctx: Ctx, rs: RuleSet, tier: str):
  sentinel_and_override_rules(ctx, rs)
  # copies are unflatten(flatten(x)): what flatten leaves out of the
  # metadata (a tag set, whatever its key kind) no copy has
  from fdlstatic.rules import c14
  c14.tags_in_metadata(ctx, rs)
  p = ctx.p
  rule = 'FRESHC.copy-containers'
  rs.declare(rule, 'every mutable internal of a copy is a fresh container of '
             'fresh or immutable elements', 10)

  # 1. flatten snapshots
  ff = ctx.func(f'{CFG}._buildable_flatten')
  comps = {}
  for n in walk_function(ff.node):
    if isinstance(n, ast.Assign) and isinstance(n.value, ast.DictComp) and (
        isinstance(n.targets[0], ast.Name)):
      comps[n.targets[0].id] = n.value
  md_call = None
  for c in ctx.calls(ff):
    if p.resolve(c.func, ff) == MD:
      md_call = c
  if md_call is None:
    raise AnalysisError('_buildable_flatten no longer builds the metadata')
  for field, src_attr in (('argument_tags', '__argument_tags__'),
                          ('argument_history', '__argument_history__')):
    v = kwarg(md_call, field) or (ctx.bound_args(md_call, ff) or {}).get(field)
    comp = comps.get(v.id) if isinstance(v, ast.Name) else (
        v if isinstance(v, ast.DictComp) else None)
    if comp is None and v is not None:
      # dict((k, w(x)) for k, x in src.items()) is the same comprehension
      d_ = roles.deref(ff, v) if isinstance(v, ast.Name) else v
      if isinstance(d_, ast.DictComp):
        comp = d_
      elif isinstance(d_, ast.Call) and isinstance(
          d_.func, ast.Name) and d_.func.id == 'dict' and len(
              d_.args) == 1 and isinstance(
                  d_.args[0], ast.GeneratorExp) and isinstance(
                      d_.args[0].elt, ast.Tuple) and len(
                          d_.args[0].elt.elts) == 2:
        comp = ast.DictComp(key=d_.args[0].elt.elts[0],
                            value=d_.args[0].elt.elts[1],
                            generators=d_.args[0].generators)
    w = comp_value_wrapper(comp) if comp is not None else None
    src_ok = comp is not None and src_attr in unparse(comp.generators[0].iter)
    rs.check(w in IMMUTABLE_SNAPSHOT and src_ok, rule,
             f'{ff.qualname}:{field}',
             f'{field} = {{key: {w}(...) for ... in {src_attr}}}: immutable '
             'snapshot per key' if w in IMMUTABLE_SNAPSHOT and src_ok else
             f'{field} is `{unparse(v) if v is not None else None}` -> '
             f'`{unparse(comp)[:80] if comp is not None else None}`: the '
             'per-key containers of the source would be shared with '
             'traversal metadata and every copy made from it',
             ctx.loc(ff, md_call))
  v = kwarg(md_call, 'fn_or_cls') or (ctx.bound_args(md_call, ff) or {}).get(
      'fn_or_cls')
  rs.check(v is not None and unparse(v).endswith('.__fn_or_cls__'), rule,
           f'{ff.qualname}:fn_or_cls', 'callable taken from the source',
           ctx.loc(ff, md_call), nontrivial=False)

  # 2-4. metadata accessors
  tf = ctx.func(f'{MD}.tags')
  ret, _ = c08.fn_return(tf)
  ok = False
  d = f'returns `{unparse(ret)[:90] if ret is not None else None}`'
  acc = None
  if isinstance(ret, ast.Call) and unparse(ret.func) == '__accumulate__':
    ret, acc = ret.args[0], ret.args[1]
  if isinstance(ret, ast.Call) and unparse(ret.func).endswith('defaultdict'):
    inner = ret.args[1] if len(ret.args) > 1 else acc
    ok = (unparse(ret.args[0]) == 'set' and isinstance(inner, ast.DictComp) and
          comp_value_wrapper(inner) == 'set' and
          'argument_tags' in unparse(inner.generators[0].iter))
  elif isinstance(ret, ast.DictComp):
    ok = comp_value_wrapper(ret) == 'set'
  rs.check(ok, rule, tf.qualname, d + (': new dict of new sets' if ok else
           ': tag sets would be shared between source and copy'),
           ctx.loc(tf, tf.node))
  hf = ctx.func(f'{MD}.history')
  ret, _ = c08.fn_return(hf)
  ok = False
  shown = ret
  acc = None
  if isinstance(ret, ast.Call) and unparse(ret.func) == '__accumulate__':
    ret, acc = ret.args[0], ret.args[1]
  if isinstance(ret, ast.Call) and p.resolve(
      ret.func, hf) == 'fiddle._src.history.History':
    inner = ret.args[0] if ret.args else acc
    ok = isinstance(inner, ast.DictComp) and comp_value_wrapper(
        inner) == 'list' and 'argument_history' in unparse(
            inner.generators[0].iter) and not inner.generators[0].ifs
  ret = shown
  rs.check(ok, rule, hf.qualname,
           f'returns `{unparse(ret)[:90] if ret is not None else None}`' + (
               ': new History of new lists' if ok else
               ': history lists would be shared'), ctx.loc(hf, hf.node))
  af = ctx.func(f'{MD}.arguments')
  ret, _ = c08.fn_return(af)
  ok = (isinstance(ret, ast.Call) and isinstance(
      ret.func, ast.Name) and ret.func.id == 'dict') or isinstance(
          ret, (ast.DictComp, ast.Dict))
  rs.check(ok, rule, af.qualname,
           f'returns `{unparse(ret) if ret is not None else None}`: a new dict',
           ctx.loc(af, af.node))

  # 5. __unflatten__
  uf = ctx.func(f'{B}.__unflatten__')
  g = ctx.cfg(uf)
  new_obj = None
  for n in walk_function(uf.node):
    if isinstance(n, ast.Assign) and isinstance(n.value, ast.Call) and (
        isinstance(n.value.func, ast.Attribute) and
        n.value.func.attr == '__new__') and isinstance(
            n.targets[0], ast.Name):
      new_obj = n.targets[0].id
  rs.check(new_obj is not None, rule, f'{uf.qualname}:new-object',
           f'`{new_obj}` is allocated with __new__', ctx.loc(uf, uf.node))
  want = {'__argument_tags__': 'tags', '__argument_history__': 'history',
          '__arguments__': 'arguments'}
  seen = {}
  for c in ctx.calls(uf):
    if isinstance(c.func, ast.Attribute) and c.func.attr == '__setattr__' and len(
        c.args) == 3 and isinstance(c.args[1], ast.Constant):
      seen[c.args[1].value] = (c.args[0], c.args[2], c)
  md_param = uf.params[2]
  for attr, meth in want.items():
    tgt, val, c = seen.get(attr, (None, None, None))
    val = roles.deref(uf, val) if val is not None else None
    ok = (val is not None and isinstance(val, ast.Call) and isinstance(
        val.func, ast.Attribute) and val.func.attr == meth and
          unparse(val.func.value) == md_param and unparse(tgt) == new_obj)
    rs.check(ok, rule, f'{uf.qualname}:{attr}',
             f'{attr} = {unparse(val) if val is not None else "<not set>"}' + (
                 '' if ok else f' (expected {md_param}.{meth}(...), a fresh '
                 'container)'), ctx.loc(uf, c if c is not None else uf.node))
  ic = ctx.func(f'{B}.__init_callable__')
  ok = any(isinstance(c.func, ast.Attribute) and c.func.attr == '__setattr__'
           and len(c.args) == 2 and isinstance(c.args[0], ast.Constant) and
           c.args[0].value == '__arguments__' and isinstance(
               c.args[1], ast.Dict) and not c.args[1].keys
           for c in ctx.calls(ic))
  rs.check(ok, rule, f'{ic.qualname}:__arguments__',
           'a new Buildable starts with its own empty argument dict',
           ctx.loc(ic, ic.node))
  init = ctx.func(f'{B}.__init__')
  ok_t = any(isinstance(c.func, ast.Attribute) and c.func.attr == '__setattr__'
             and len(c.args) == 2 and isinstance(c.args[0], ast.Constant) and
             c.args[0].value == '__argument_tags__' and isinstance(
                 c.args[1], ast.Call) and
             unparse(c.args[1].func).endswith('defaultdict')
             for c in ctx.calls(init))
  rs.check(ok_t, rule, f'{init.qualname}:__argument_tags__',
           'a new Buildable starts with its own tag dict', ctx.loc(init, init.node))

  # 6. __copy__ / cast
  for q, recv in ((f'{B}.__copy__', None), ('fiddle._src.casting.cast', None)):
    f = ctx.func(q)
    rets = [n for n in walk_function(f.node) if isinstance(n, ast.Return)]
    ok = bool(rets)
    for r in rets:
      c = roles.deref(f, r.value) if r.value is not None else None
      fl = roles.deref(f, c.args[0].value) if isinstance(
          c, ast.Call) and len(c.args) == 1 and isinstance(
              c.args[0], ast.Starred) else None
      good = (isinstance(c, ast.Call) and isinstance(c.func, ast.Attribute) and
              c.func.attr == '__unflatten__' and isinstance(
                  fl, ast.Call) and isinstance(fl.func, ast.Attribute) and
              fl.func.attr == '__flatten__' and
              not fl.args and not c.keywords)
      if not good and isinstance(c, ast.Call) and isinstance(
          c.func, ast.Attribute) and c.func.attr == '__unflatten__' and len(
              c.args) == 2 and not c.keywords and all(
                  isinstance(a_, ast.Name) for a_ in c.args):
        # values, metadata = <source>.__flatten__();
        # return <type>.__unflatten__(values, metadata)
        for st_ in walk_function(f.node):
          if isinstance(st_, ast.Assign) and len(st_.targets) == 1 and isinstance(
              st_.targets[0], ast.Tuple) and [
                  unparse(t_) for t_ in st_.targets[0].elts] == [
                      a_.id for a_ in c.args] and isinstance(
                          st_.value, ast.Call) and isinstance(
                              st_.value.func, ast.Attribute) and (
                                  st_.value.func.attr == '__flatten__') and (
                                      not st_.value.args):
            stores_ = [n_ for n_ in walk_function(f.node) if isinstance(
                n_, ast.Name) and n_.id in [a_.id for a_ in c.args] and
                       isinstance(n_.ctx, ast.Store)]
            if len(stores_) == 2:
              fl, good = st_.value, True
      if good:
        src = unparse(fl.func.value)
        good = src in f.params
      ok = ok and good
    rs.check(ok, rule, q,
             'returns <type>.__unflatten__(*<source>.__flatten__())',
             ctx.loc(f, f.node))

  # 7. __deepcopy__
  import re as _re

  def dtext(e):
    # vars(x) is x.__dict__
    return _re.sub(r'\bvars\(([A-Za-z_][\w.]*)\)', r'\1.__dict__', unparse(e))

  df, g, memo = deepcopy_memo_rules(ctx, rs, rule)
  ok = False
  for c in ctx.calls(df):
    if isinstance(c.func, ast.Attribute) and c.func.attr == 'update' and (
        dtext(c.func.value).endswith('.__dict__')) and c.args:
      a = c.args[0]
      if isinstance(a, ast.Call) and p.resolve(
          a.func, df) == 'copy.deepcopy' and len(a.args) == 2 and dtext(
              a.args[0]) == f'{df.params[0]}.__dict__' and unparse(
                  a.args[1]) == memo:
        ok = True
  news = [n for n in walk_function(df.node) if isinstance(n, ast.Assign) and
          isinstance(n.value, ast.Call) and
          unparse(n.value.func).endswith('__new__')]
  rets = [n for n in walk_function(df.node) if isinstance(n, ast.Return)]
  ok = ok and bool(news) and all(
      isinstance(r.value, ast.Name) and
      r.value.id == news[0].targets[0].id for r in rets)
  rs.check(ok, rule, f'{df.qualname}:deep',
           'a new object receives copy.deepcopy(self.__dict__, memo): every '
           'argument container, tag set and history list is copied',
           ctx.loc(df, df.node))

  # 8. __getstate__ / __setstate__
  gs = ctx.func(f'{B}.__getstate__')
  copies = [n for n in walk_function(gs.node) if isinstance(n, ast.Assign) and
            isinstance(n.value, ast.Call) and (
                (isinstance(n.value.func, ast.Name) and
                 n.value.func.id == 'dict') or
                (isinstance(n.value.func, ast.Attribute) and
                 n.value.func.attr == 'copy')) and
            '__dict__' in unparse(n.value)]
  writes_self = [n for n in walk_function(gs.node) if isinstance(
      n, (ast.Assign, ast.Delete)) and any(
          unparse(t).startswith(f'{gs.params[0]}.')
          for t in (n.targets if hasattr(n, 'targets') else []))]
  rets = [n for n in walk_function(gs.node) if isinstance(n, ast.Return)]
  ok = bool(copies) and not writes_self and all(
      isinstance(r.value, ast.Name) and r.value.id == copies[0].targets[0].id
      for r in rets)
  # ... or the copy and the override in one display:
  # `{**self.__dict__, '__signature_info__': None}`
  display_keys = None
  if not copies and len(rets) == 1 and isinstance(
      roles.deref(gs, rets[0].value), ast.Dict):
    dd = roles.deref(gs, rets[0].value)
    spread = [v for k, v in zip(dd.keys, dd.values) if k is None]
    if len(spread) == 1 and dd.keys[0] is None and dtext(
        spread[0]) == f'{gs.params[0]}.__dict__':
      ok = not writes_self
      display_keys = [unparse(k) for k in dd.keys if k is not None]
  rs.check(ok, rule, gs.qualname,
           'pickle state is a copy of the instance dict; the original is not '
           'written', ctx.loc(gs, gs.node))
  # the state drops only the signature info
  dropped = [unparse(t.slice) for n in walk_function(gs.node)
             if isinstance(n, ast.Assign) for t in n.targets
             if isinstance(t, ast.Subscript)]
  if display_keys is not None:
    dropped = display_keys
  rs.check(dropped == ["'__signature_info__'"], rule,
           f'{gs.qualname}:dropped',
           f'fields overwritten in the pickle state: {dropped}',
           ctx.loc(gs, gs.node))
  ss = ctx.func(f'{B}.__setstate__')
  ok = any(isinstance(c.func, ast.Attribute) and c.func.attr == 'update' and
           dtext(c.func.value) == f'{ss.params[0]}.__dict__' and
           unparse(c.args[0]) == ss.params[1] for c in ctx.calls(ss))

  def _derives_signature(fn, depth=0):
    for c in ctx.calls(fn):
      q_ = p.resolve(c.func, fn)
      if q_ == 'fiddle._src.signatures.SignatureInfo':
        return True
      h_ = p.funcs.get(q_ or '')
      if h_ is not None and depth < 1 and not h_.is_lambda and (
          _derives_signature(h_, depth + 1)):
        return True
    return False

  re_sig = _derives_signature(ss)
  rs.check(ok and re_sig, rule, ss.qualname,
           'unpickling restores the whole state and re-derives the signature',
           ctx.loc(ss, ss.node))

  # 10. copy_with / deepcopy_with edit only their copy
  rule2 = 'OWN.edit-the-copy'
  rs.declare(rule2, 'copy_with / deepcopy_with edit only the copy they made', 2)
  for name, copier in (('copy_with', 'copy.copy'),
                       ('deepcopy_with', 'copy.deepcopy')):
    f = ctx.func(f'fiddle._src.copying.{name}')
    g = ctx.cfg(f)
    src = f.params[0]
    copy_nodes = {}
    for n in g.nodes():
      st = g.stmt[n]
      if isinstance(st, ast.Assign) and isinstance(
          st.value, ast.Call) and p.resolve(st.value.func, f) == copier and (
              st.value.args and isinstance(st.value.args[0], ast.Name) and
              st.value.args[0].id == src):
        copy_nodes.setdefault(st.targets[0].id, set()).add(n)
    edits = []
    for n in g.nodes():
      for e in cfg_lib.walk_node(g, n):
        if isinstance(e, ast.Call) and p.resolve(e.func, f) in (
            'fiddle._src.mutate_buildable.assign', 'builtins.setattr'):
          edits.append((n, e))
    ok = bool(edits)
    for n, e in edits:
      tgt = e.args[0]
      if not isinstance(tgt, ast.Name) or tgt.id not in copy_nodes:
        ok = False
        continue
      # the copy dominates the edit and no other assignment to the name
      # lies between (rebinding idiom `x = copy.copy(x)`)
      other_defs = {m for m in g.nodes() if isinstance(g.stmt[m], ast.Assign)
                    and any(isinstance(t, ast.Name) and t.id == tgt.id
                            for t in g.stmt[m].targets)} - copy_nodes[tgt.id]
      ok = ok and g.dominated_by(n, copy_nodes[tgt.id],
                                 labels=cfg_lib.NO_EXC) and not other_defs
    rets = [g.stmt[n] for n in g.nodes() if isinstance(g.stmt[n], ast.Return)]
    ok = ok and all(isinstance(r.value, ast.Name) and r.value.id in copy_nodes
                    for r in rets)
    rs.check(ok, rule2, f.qualname,
             f'edits and returns the object produced by {copier}({src}), '
             'never the argument itself', ctx.loc(f, f.node))

  # 11. immutables shared by deep copies are frozen / sentinel classes
  rule3 = 'FRESHC.shared-immutables'
  rs.declare(rule3, 'classes whose __deepcopy__ returns self are immutable', 3)
  for cq, ci in sorted(p.classes.items()):
    m = ci.methods.get('__deepcopy__')
    if m is None or not cq.startswith('fiddle._src.'):
      continue
    rets = [n for n in walk_function(m.node) if isinstance(n, ast.Return)]
    if not rets or not all(unparse(r.value) == m.params[0] for r in rets):
      continue
    frozen = any(isinstance(d, ast.Call) and unparse(d.func).endswith(
        'dataclass') and any(k.arg == 'frozen' and isinstance(
            k.value, ast.Constant) and k.value.value is True
                             for k in d.keywords)
                 for d in ci.node.decorator_list)
    has_fields = bool(ci.annotations) or '__init__' in ci.methods
    rs.check(frozen or not has_fields, rule3, cq,
             'shared by deepcopy; ' + ('frozen dataclass' if frozen else
                                       'stateless sentinel class'
                                       if not has_fields else
                                       'has mutable state'),
             ctx.loc(ci, ci.node))


MANIFEST = dict(
    text=('Decides the ownership clauses of C07 for every configuration: '
          'each copy path (copy, cast, copy_with, deepcopy, pickle) installs '
          'fresh argument / tag / history containers with fresh or immutable '
          'per-key elements, and edits made by copy_with act on the fresh '
          'copy only. Expression-level freshness classification along the '
          'flatten -> metadata -> unflatten chain. Faithfulness (equality of '
          'copy and original) is not decided.'),
    note=('Trusted: ast; copy/pickle protocol semantics; immutability of '
          'frozenset/tuple snapshots.'),
    technique='static analysis: freshness classification of container-valued expressions along the copy chain, CFG dominance for copy-before-edit',
)
