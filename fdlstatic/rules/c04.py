"""C04 - built Partial is functools.partial; ArgFactory arguments fresh per call."""
from __future__ import annotations

import ast

from fdlstatic import cfg as cfg_lib
from fdlstatic.ctx import Ctx
from fdlstatic.model import AnalysisError, unparse, walk_function, walk_stmts
from fdlstatic import roles
from fdlstatic.report import RuleSet
from fdlstatic.rules import c01
from fdlstatic import roles
from fdlstatic.report import RuleSet as _RS

P = 'fiddle._src.partial'
AF = 'fiddle._src.arg_factory'

# the only places where a factory may be *invoked*; all run at call time of
# the built partial (or of a supply_defaults-wrapped function)
ALLOWED_INVOKERS = {
    f'{AF}._arg_factory_value':
        'called from _InvokeArgFactoryWrapper.__call__, i.e. on every call of '
        'the partial',
    f'{P}._invoke_arg_factories.visit':
        'reached only through functools.partial(_invoke_arg_factories, arg), '
        'which is itself an arg factory evaluated per call',
    f'{AF}.supply_defaults.wrapper':
        'per call of the decorated function',
}

EXPLANATION = (
    'Static clauses of C04 decided on the current source: (WMC) a factory is '
    'invoked only inside the three per-call functions; the build-time code '
    '(Partial.__build__, ArgFactory.__build__, _build_partial, '
    '_promote_arg_factory) never invokes one and refers to '
    '_invoke_arg_factories only as the function argument of functools.partial '
    '(deferred); (PARTITION) in _build_partial the promoted keyword arguments '
    'are split by two complementary predicates over the same test into '
    'factory-bound (unwrapped .factory) and value-bound layers, each layer\'s '
    'keywords are consumed exactly once, positional groups alternate by the '
    'same predicate, and the outermost object returned is '
    'functools.partial(result, **value kwargs) so call-time keywords '
    'override configured ones; (IDENTITY) the per-call expansion returns the '
    'very container when no child changed (identity test per child) and any '
    'non-traversable value unchanged, so objects without ArgFactory pass '
    'through uncopied; arg_factory.partial evaluates ArgFactory arguments in '
    '__call__ (per call) and passes other values through; (DEFUSE) '
    'Partial/ArgFactory.__build__ hand (callable, args, kwargs) to '
    '_build_partial unchanged, and positional-or-keyword arguments reach it '
    'as keywords (default translation flags). Not decided: behaviour of the '
    'composed partial layers for every signature; freshness of what the '
    'factories themselves return.')
ASSUMPTIONS = ['functools.partial semantics (later keywords override)']


def _mapped(g, n, expr, elem_ok):
  """`expr`, evaluated at CFG node n, is an unfiltered comprehension (or
  tuple(...) / list(...) of a generator) that applies `elem_ok(element
  expression, element variable)` to every element of one source.  Returns
  (source expression, node where it is evaluated, 'items' | 'elements') or
  None.  Dict comprehensions must keep the key."""
  e, at = roles.value_at(g, n, expr)
  if isinstance(e, ast.Call) and isinstance(e.func, ast.Name) and e.func.id in (
      'tuple', 'list') and len(e.args) == 1 and not e.keywords:
    e = e.args[0]
  if not (isinstance(e, (ast.ListComp, ast.GeneratorExp, ast.DictComp)) and
          len(e.generators) == 1 and not e.generators[0].ifs):
    return None
  gen = e.generators[0]
  src, how = gen.iter, 'elements'
  if isinstance(e, ast.DictComp):
    if not (isinstance(src, ast.Call) and isinstance(
        src.func, ast.Attribute) and src.func.attr == 'items' and
            not src.args and isinstance(gen.target, ast.Tuple) and len(
                gen.target.elts) == 2 and all(
                    isinstance(x, ast.Name) for x in gen.target.elts)):
      return None
    if unparse(e.key) != gen.target.elts[0].id:
      return None
    var, elt, src, how = gen.target.elts[1].id, e.value, src.func.value, 'items'
  else:
    if not isinstance(gen.target, ast.Name):
      return None
    var, elt = gen.target.id, e.elt
  if not elem_ok(elt, var):
    return None
  return src, at, how


def _mapped_rebinds(f, wrapper_name: str):
  """Names rebound by a comprehension that applies `wrapper_name` to each

  element of the same name: x = [W(a) for a in x] / {k: W(a) for k, a in
  x.items()} / tuple(W(a) for a in x).
  """
  out = set()
  for n in walk_function(f.node):
    if not (isinstance(n, ast.Assign) and len(n.targets) == 1 and
            isinstance(n.targets[0], ast.Name)):
      continue
    name = n.targets[0].id
    for comp in ast.walk(n.value):
      if isinstance(comp, (ast.ListComp, ast.GeneratorExp, ast.DictComp,
                           ast.SetComp)) and len(comp.generators) == 1:
        gen = comp.generators[0]
        src = gen.iter
        if isinstance(src, ast.Call) and isinstance(
            src.func, ast.Attribute) and src.func.attr == 'items':
          src = src.func.value
        if not (isinstance(src, ast.Name) and src.id == name) or gen.ifs:
          continue
        elt = comp.value if isinstance(comp, ast.DictComp) else comp.elt
        tnames = {x.id for x in ast.walk(gen.target)
                  if isinstance(x, ast.Name)}
        if (isinstance(elt, ast.Call) and
            unparse(elt.func).split('.')[-1] == wrapper_name and
            len(elt.args) == 1 and isinstance(elt.args[0], ast.Name) and
            elt.args[0].id in tnames):
          out.add(name)
  return out


def _iteration_targets(f) -> set:
  out = set()
  for n in walk_function(f.node):
    tg = None
    if isinstance(n, (ast.For, ast.AsyncFor)):
      tg = n.target
    elif isinstance(n, ast.comprehension):
      tg = n.target
    if tg is not None:
      out |= {x.id for x in ast.walk(tg) if isinstance(x, ast.Name)}
  return out


def run(ctx: Ctx, rs: RuleSet, tier: str):
  p = ctx.p
  # ---- WMC: factory invocation sites
  rule = 'WMC.factory-invocation'
  rs.declare(rule, 'factories are invoked only in per-call code', 3)
  sites = []
  core = {P, AF, 'fiddle._src.building'}
  for modname in sorted(p.modules):
    if not modname.startswith('fiddle._src.') or modname.endswith('_test'):
      continue
    # the modules of the mechanism, and any module they import privately
    # (code moved out of them stays in scope)
    if modname not in core and not any(
        modname in (getattr(p.modules[c_], 'imports', {}) or {}).values()
        for c_ in core if c_ in p.modules):
      continue
    for f in ctx.mod(modname).all_funcs:
      # names bound to a factory: `for name, factory in factories.items()`
      for c in ctx.calls(f):
        fn = c.func
        if isinstance(fn, ast.Attribute) and fn.attr == 'factory':
          sites.append((f, c))
        elif isinstance(fn, ast.Name) and not c.args and not c.keywords and (
            fn.id in _iteration_targets(f)):
          # a zero-argument call of an iteration variable: an element of a
          # collection of callables (the factories) is invoked
          sites.append((f, c))
  # A site is per-call code when it is reachable (calls, nested functions,
  # function references) from one of the per-call entry points and not from
  # the build-time ones.  _invoke_arg_factories is per-call because it is only
  # ever referenced deferred (WMC.deferred-expansion below re-verifies that).
  inv_q = ctx.func(f'{P}._invoke_arg_factories').qualname  # wherever it lives
  build_roots = [q for q, f_ in p.funcs.items() if f_.name == '__build__'] + [
      ctx.func(f'{P}._build_partial').qualname,
      ctx.func(f'{P}._promote_arg_factory').qualname,
      'fiddle._src.building.build', 'fiddle._src.building.call_buildable']
  build_roots = [q for q in build_roots if q in p.funcs]
  # creating a callable object ('inst' edges) does not call it
  build_time = ctx.cg.reachable(
      build_roots, kinds=('exact', 'approx', 'ref', 'nested', 'proto'),
      stop={inv_q})
  build_time.pop(inv_q, None)
  percall_roots = [ctx.func(f'{AF}._InvokeArgFactoryWrapper.__call__').qualname,
                   ctx.func(inv_q).qualname]
  if f'{AF}.supply_defaults.wrapper' in p.funcs:
    percall_roots.append(f'{AF}.supply_defaults.wrapper')
  per_call = ctx.cg.reachable(percall_roots, kinds=('exact', 'nested', 'ref'))
  for f, c in sites:
    in_build = f.qualname in build_time
    ok = not in_build and f.qualname in per_call
    rs.check(ok, rule, f'{f.qualname}:`{unparse(c)}`',
             ALLOWED_INVOKERS.get(f.qualname, 'reached only from ' + ' / '.join(
                 ctx.cg.path_to(per_call, f.qualname)[:1])) if ok else
             f'{f.qualname} invokes an argument factory' + (
                 ' and is reachable while building: ' + ' -> '.join(
                     ctx.cg.path_to(build_time, f.qualname)) if in_build else
                 ' but is not reached from the per-call entry points') +
             '; factories may only run when the built partial is called, '
             'never while building', ctx.loc(f, c))
  # _invoke_arg_factories / _arg_factory_value referenced only deferred
  refs = []
  inv_f = ctx.func(inv_q)
  for mname, mod_ in sorted(p.modules.items()):
    if not mname.startswith('fiddle._src.') or mname.endswith('_test'):
      continue
    for f in mod_.all_funcs:
      if f.qualname.startswith(inv_f.qualname):
        continue
      for n in walk_function(f.node):
        if isinstance(n, (ast.Name, ast.Attribute)) and isinstance(
            n.ctx, ast.Load) and unparse(n).split('.')[-1] == inv_f.name and (
                p.resolve(n, f) in (inv_f.qualname, inv_q)):
          refs.append((f, n))
  rule = 'WMC.deferred-expansion'
  rs.declare(rule, 'the container expansion is only ever deferred', 1)
  if not refs:
    rs.fail(rule, f'{inv_q}:refs', 'no reference to _invoke_arg_factories '
            'found', '')
  for f, n in refs:
    deferred = False
    for c in ctx.calls(f):
      if unparse(c.func) == 'functools.partial' and c.args and c.args[0] is n:
        deferred = True
        wrapped = any(
            isinstance(w, ast.Call) and unparse(w.func).split('.')[-1] == (
                '_BuiltArgFactory')
            and w.args and w.args[0] is c for w in ctx.calls(f))
        deferred = deferred and wrapped
    rs.check(deferred, rule, f'{f.qualname}:_invoke_arg_factories',
             'referenced only as _BuiltArgFactory(functools.partial('
             '_invoke_arg_factories, arg)): evaluated per call' if deferred
             else 'the expansion of factories in containers is called '
             'directly at build time', ctx.loc(f, n))

  # ---- premise: call_buildable hands (args, kwargs) to __build__ unchanged
  # (a re-binding would turn configured keywords into positionals of the
  # functools.partial, which a call-time keyword can then no longer override)
  from fdlstatic.rules import c01
  c01.delegation(ctx, rs)

  # ---- PARTITION in _build_partial
  rule = 'PARTITION.kwargs-layers'
  rs.declare(rule, 'keywords are split by complementary predicates; the '
             'outermost layer is the value-bound functools.partial', 5)
  bp = ctx.func(f'{P}._build_partial')
  g = ctx.cfg(bp)
  # predicate helpers: any function (nested, module-level or lambda) whose
  # result is isinstance(<its parameter>, _BuiltArgFactory)
  def is_predicate_fn(h) -> bool:
    if h is None:
      return False
    if h.is_lambda:
      body = h.node.body
    else:
      rets = [r for r in walk_function(h.node) if isinstance(r, ast.Return)]
      if len(rets) != 1:
        return False
      body = rets[0].value
    return bool(h.params) and body is not None and unparse(body) == (
        f'isinstance({h.params[0]}, _BuiltArgFactory)')

  def predicate_ref(e) -> bool:
    """e denotes a predicate helper (by name, or a lambda written in place)."""
    if isinstance(e, ast.Lambda):
      return len(e.args.args) == 1 and unparse(e.body) == (
          f'isinstance({e.args.args[0].arg}, _BuiltArgFactory)')
    if isinstance(e, ast.Name) and e.id in bp.nested:
      return is_predicate_fn(bp.nested[e.id])
    q = ctx.p.resolve(e, bp)
    return q is not None and is_predicate_fn(ctx.p.funcs.get(q))

  def predicate(cond):
    """-> (positive?, operand text) for P(x) / not P(x)."""
    pos = True
    if isinstance(cond, ast.UnaryOp) and isinstance(cond.op, ast.Not):
      pos = False
      cond = cond.operand
    if isinstance(cond, ast.Call):
      if predicate_ref(cond.func) and len(cond.args) == 1:
        return pos, unparse(cond.args[0])
      if unparse(cond.func) == 'isinstance' and unparse(
          cond.args[1]) == '_BuiltArgFactory':
        return pos, unparse(cond.args[0])
    return None

  args_p, kwargs_p = bp.params[1], bp.params[2]
  comps = {}
  for n in walk_function(bp.node):
    if isinstance(n, ast.Assign) and isinstance(n.value, ast.DictComp) and (
        isinstance(n.targets[0], ast.Name)):
      comps[n.targets[0].id] = n.value
  # the two layers are told apart by the polarity of their filter, not by
  # what the variables are called
  fk = vk = None
  FK = VK = None
  for name, c in comps.items():
    gen = c.generators[0]
    if unparse(gen.iter) != f'{kwargs_p}.items()' or name == kwargs_p:
      continue
    pr = predicate(gen.ifs[0]) if gen.ifs else None
    if pr is not None and pr[0] is True and fk is None:
      fk, FK = c, name
    elif (pr is None or pr[0] is False) and vk is None:
      vk, VK = c, name
  ok = False
  detail = 'the two keyword comprehensions were not found'
  part_loop = None
  if fk is None or vk is None:
    # one loop that puts each keyword into exactly one of two dicts:
    #   for k, a in kwargs.items():
    #     if P(a): F[k] = a.factory
    #     else:    V[k] = a
    for n in walk_function(bp.node):
      if not (isinstance(n, ast.For) and unparse(
          n.iter) == f'{kwargs_p}.items()' and isinstance(
              n.target, ast.Tuple) and len(n.target.elts) == 2 and len(
                  n.body) == 1 and isinstance(n.body[0], ast.If) and len(
                      n.body[0].body) == 1 and len(n.body[0].orelse) == 1):
        continue
      kv, av = [unparse(t_) for t_ in n.target.elts]
      pr = predicate(n.body[0].test)
      a_, b_ = n.body[0].body[0], n.body[0].orelse[0]
      if pr is None or pr[1] != av:
        continue
      if pr[0] is False:
        a_, b_ = b_, a_

      def store(st_):
        if isinstance(st_, ast.Assign) and len(st_.targets) == 1 and isinstance(
            st_.targets[0], ast.Subscript) and isinstance(
                st_.targets[0].value, ast.Name) and unparse(
                    st_.targets[0].slice) == kv:
          return st_.targets[0].value.id, unparse(st_.value)
        return None

      sa, sb = store(a_), store(b_)
      if sa and sb and sa[0] != sb[0]:
        part_loop = (n, sa, sb, av)
  if part_loop is not None:
    n_, sa, sb, av = part_loop
    FK, VK = sa[0], sb[0]
    ok = True
    detail = (f'one loop over {kwargs_p}.items() stores each keyword in '
              f'exactly one of `{FK}` (factory) / `{VK}` (value) by the '
              'factory predicate')
    rs.check(ok, rule, f'{bp.qualname}:complementary', detail,
             ctx.loc(bp, bp.node))
    rs.check(sa[1] == f'{av}.factory' and sb[1] == av, rule,
             f'{bp.qualname}:layer-values',
             'factory layer binds arg.factory, value layer binds the value',
             ctx.loc(bp, bp.node))
  if fk is not None and vk is not None:
    pf = predicate(fk.generators[0].ifs[0]) if fk.generators[0].ifs else None
    pv = predicate(vk.generators[0].ifs[0]) if vk.generators[0].ifs else None
    same_src = unparse(fk.generators[0].iter) == unparse(
        vk.generators[0].iter) == f'{kwargs_p}.items()'
    ok = (pf is not None and pv is not None and pf[0] is True and
          pv[0] is False and pf[1] == unparse(fk.generators[0].target.elts[1])
          and pv[1] == unparse(vk.generators[0].target.elts[1]) and same_src
          and len(fk.generators[0].ifs) == 1 and len(vk.generators[0].ifs) == 1)
    detail = ('factory layer: if ' + ' and '.join(
        unparse(c) for c in fk.generators[0].ifs) + '; value layer: if ' +
              (' and '.join(unparse(c) for c in vk.generators[0].ifs) or
               '<no filter: factory keywords are bound in both layers>') +
              f'; same source {same_src}')
  if part_loop is None:
    rs.check(ok, rule, f'{bp.qualname}:complementary', detail,
             ctx.loc(bp, bp.node))
    # values: unwrapped factory vs. the value itself
    ok = (fk is not None and unparse(fk.value) == unparse(
        fk.generators[0].target.elts[1]) + '.factory' and vk is not None and
          unparse(vk.value) == unparse(vk.generators[0].target.elts[1]))
    rs.check(ok, rule, f'{bp.qualname}:layer-values',
             'factory layer binds arg.factory, value layer binds the value',
             ctx.loc(bp, bp.node))
  # the two layers may be handed on under other names (fk2 = fk)
  def aliases(nm):
    out = {nm} if nm else set()
    for _ in range(3):
      out |= roles.assigned_from(bp, lambda e: isinstance(
          e, ast.Name) and e.id in out)
    return out

  FKS, VKS = aliases(FK), aliases(VK)
  # the kwargs were promoted first (containers holding factories)
  promo = [n for n in g.nodes() if isinstance(g.stmt[n], ast.Assign) and
           unparse(g.stmt[n].targets[0]) == kwargs_p and
           '_promote_arg_factory' in unparse(g.stmt[n].value)]
  promo_a = [n for n in g.nodes() if isinstance(g.stmt[n], ast.Assign) and
             unparse(g.stmt[n].targets[0]) == args_p and
             '_promote_arg_factory' in unparse(g.stmt[n].value)]
  comp_nodes = [n for n in g.nodes() if isinstance(g.stmt[n], ast.Assign) and
                g.stmt[n].value in (fk, vk)]
  if part_loop is not None:
    comp_nodes = [n for n in g.nodes() if g.stmt[n] is part_loop[0]]
  ok = bool(promo) and bool(promo_a) and all(
      g.dominated_by(c, set(promo), labels=cfg_lib.NO_EXC)
      for c in comp_nodes)
  rs.check(ok, rule, f'{bp.qualname}:promoted-first',
           'args and kwargs are promoted (containers with factories become '
           'factories) before they are split', ctx.loc(bp, bp.node))
  # outermost layer: functools.partial(<accumulated result>, **<value layer>)
  rets = [g.stmt[n] for n in g.nodes() if isinstance(g.stmt[n], ast.Return)]
  R = None
  ok = False
  if len(rets) == 1 and isinstance(rets[0].value, ast.Call) and unparse(
      rets[0].value.func) == 'functools.partial' and len(
          rets[0].value.args) == 1 and isinstance(
              rets[0].value.args[0], ast.Name):
    R = rets[0].value.args[0].id
    kws = rets[0].value.keywords
    ok = (len(kws) == 1 and kws[0].arg is None and VK is not None and
          unparse(kws[0].value) in VKS)
  rs.check(ok, rule, f'{bp.qualname}:outermost',
           f'returns {unparse(rets[0].value) if rets else None}: call-time '
           'keywords override the configured value keywords',
           ctx.loc(bp, bp.node))
  # each kwargs dict is consumed once: reset to {} after a use inside the loop
  resets = {unparse(s.targets[0]) for n in walk_function(bp.node)
            if isinstance(n, ast.For) for s in walk_stmts(n.body)
            if isinstance(s, ast.Assign) and isinstance(s.value, ast.Dict)
            and not s.value.keys}
  rs.check(FK is not None and len(resets) == 2 and resets <= (FKS | VKS) and
           bool(resets & FKS) and bool(resets & VKS), rule,
           f'{bp.qualname}:consumed-once',
           f'keyword dicts reset after use in the positional loop: '
           f'{sorted(resets)}', ctx.loc(bp, bp.node))
  # positional groups alternate by the same predicate
  ok = False

  def _is_partial_call(c, fn_text, star, dstar):
    return (isinstance(c, ast.Call) and unparse(c.func) == fn_text and
            len(c.args) == 2 and unparse(c.args[0]) == R and isinstance(
                c.args[1], ast.Starred) and unparse(c.args[1].value) == star
            and len(c.keywords) == 1 and c.keywords[0].arg is None and
            unparse(c.keywords[0].value) == dstar)

  from fdlstatic import dispatch as _dispatch
  for n in walk_function(bp.node):
    if isinstance(n, ast.For) and isinstance(n.iter, ast.Call) and unparse(
        n.iter.func) == 'itertools.groupby' and len(
            n.iter.args) == 2 and unparse(
                n.iter.args[0]) == args_p and predicate_ref(
                    n.iter.args[1]) and (
            isinstance(n.target, ast.Tuple) and len(n.target.elts) == 2):
      G, V = [unparse(t_) for t_ in n.target.elts]
      heads = [m for m in g.nodes() if g.stmt[m] is n]
      if not heads:
        continue
      body_start = [x for x, lab in g.succ[heads[0]] if lab == 'iter']

      def group_is_factory(v):
        def ev(t):
          if isinstance(t, ast.Name) and t.id == G:
            return v
          return None
        return _dispatch.through_locals(bp, ev)

      r_fac = _dispatch.reach_atoms(g, group_is_factory(True),
                                    start=body_start, stop={heads[0]})
      r_val = _dispatch.reach_atoms(g, group_is_factory(False),
                                    start=body_start, stop={heads[0]})

      def sites(fn_text, dstar):
        out = []
        for m in g.nodes():
          for c in cfg_lib.walk_node(g, m):
            if (isinstance(c, ast.Call) and unparse(c.func) == fn_text and
                len(c.args) == 2 and unparse(c.args[0]) == R and isinstance(
                    c.args[1], ast.Starred) and len(c.keywords) == 1 and
                c.keywords[0].arg is None and
                unparse(c.keywords[0].value) in dstar and m in g.reach(
                    body_start, blocked={heads[0]}, labels=cfg_lib.NO_EXC)):
              out.append((m, c.args[1].value))
        return out

      def unwrapped(e, m):
        e, _ = roles.value_at(g, m, e)
        return isinstance(e, ast.ListComp) and isinstance(
            e.elt, ast.Attribute) and e.elt.attr == 'factory' and unparse(
                e.elt.value) == unparse(e.generators[0].target) and unparse(
                    e.generators[0].iter) == V and not e.generators[0].ifs

      def raw(e, m):
        e, _ = roles.value_at(g, m, e)
        return unparse(e) in (V, f'list({V})', f'tuple({V})')

      fac_sites = sites('arg_factory.partial', FKS)
      val_sites = sites('functools.partial', VKS)
      ok = (bool(fac_sites) and bool(val_sites) and
            all(m in r_fac and m not in r_val and unwrapped(e, m)
                for m, e in fac_sites) and
            all(m in r_val and m not in r_fac and raw(e, m)
                for m, e in val_sites))
  rs.check(ok, rule, f'{bp.qualname}:positional-groups',
           'positional arguments are grouped by the same predicate; factory '
           'groups are bound unwrapped through arg_factory.partial',
           ctx.loc(bp, bp.node))

  # ---- IDENTITY: uncopied pass-through
  rule = 'IDENTITY.pass-through'
  rs.declare(rule, 'values without ArgFactory pass through uncopied', 4)
  visit = ctx.func(f'{P}._invoke_arg_factories.visit')
  node = visit.params[0]
  from fdlstatic import dispatch
  gv = ctx.cfg(visit)

  def identity_test(e) -> bool:
    """all(<old is new for (old, new) in zip(...)>), parts possibly in locals."""
    e = roles.deref(visit, e)
    if not (isinstance(e, ast.Call) and unparse(e.func) == 'all' and
            len(e.args) == 1):
      return False
    comp = roles.deref(visit, e.args[0])
    if not (isinstance(comp, (ast.ListComp, ast.GeneratorExp)) and isinstance(
        comp.elt, ast.Compare) and len(comp.elt.ops) == 1 and isinstance(
            comp.elt.ops[0], ast.Is) and len(comp.generators) == 1 and
            not comp.generators[0].ifs and isinstance(
                comp.generators[0].target, ast.Tuple)):
      return False
    tg = [unparse(x) for x in comp.generators[0].target.elts]
    it = roles.deref(visit, comp.generators[0].iter)
    if not (sorted([unparse(comp.elt.left),
                    unparse(comp.elt.comparators[0])]) == sorted(tg) and
            isinstance(it, ast.Call) and unparse(it.func) == 'zip'):
      return False
    # the old children are what the node's traverser flattens it to (for a
    # dict iterating the node itself gives its keys, not its values)
    zipped_node_itself.extend(a for a in it.args if unparse(a) == node)
    return True

  zipped_node_itself: list = []

  def v_atoms(is_factory, traversable, unchanged):
    def ev(t):
      if isinstance(t, ast.Call) and unparse(t.func) == 'isinstance' and len(
          t.args) == 2 and unparse(t.args[0]) == node and unparse(
              t.args[1]) == '_BuiltArgFactory':
        return is_factory
      if isinstance(t, ast.Call) and isinstance(
          t.func, ast.Attribute) and t.func.attr == 'is_traversable' and [
              unparse(a_) for a_ in t.args] == [node]:
        return traversable
      if identity_test(t):
        return unchanged
      return None
    return ev

  def rv(*a_):
    return sorted({unparse(x) for x in dispatch.returned_under(
        gv, v_atoms(*a_), visit)})

  fac, leaf = rv(True, None, None), rv(False, False, None)
  same, changed = rv(False, True, True), rv(False, True, False)
  # the identity test written as a loop with an early exit:
  #   for old, new in zip(<old children>, <new children>):
  #     if old is not new: return <rebuilt>
  #   return node
  loop_form = False
  for blk_owner in [visit.node] + list(walk_function(visit.node)):
    for fld in ('body', 'orelse'):
      blk = getattr(blk_owner, fld, None)
      if not isinstance(blk, list):
        continue
      for i_, L_ in enumerate(blk[:-1]):
        nxt = blk[i_ + 1]
        if not (isinstance(L_, ast.For) and not L_.orelse and isinstance(
            L_.target, ast.Tuple) and len(L_.target.elts) == 2 and
                len(L_.body) == 1 and isinstance(L_.body[0], ast.If) and
                not L_.body[0].orelse and isinstance(nxt, ast.Return)):
          continue
        it_ = roles.deref(visit, L_.iter)
        t_ = L_.body[0].test
        tg_ = sorted(unparse(x) for x in L_.target.elts)
        inner = L_.body[0].body
        if isinstance(it_, ast.Call) and unparse(it_.func) == 'zip' and (
            isinstance(t_, ast.Compare) and len(t_.ops) == 1 and isinstance(
                t_.ops[0], ast.IsNot) and sorted(
                    [unparse(t_.left), unparse(t_.comparators[0])]) == tg_ and
            len(inner) == 1 and isinstance(inner[0], ast.Return) and
            unparse(inner[0].value).endswith('.unflatten()') and
            unparse(nxt.value) == node):
          loop_form = True
          zipped_node_itself.extend(a for a in it_.args if unparse(a) == node)
          same, changed = [node], [unparse(inner[0].value)]
  texts = {'factory': fac, 'leaf': leaf, 'unchanged container': same,
           'changed container': changed}
  ok = (fac == [f'{node}.factory()'] and leaf == [node] and same == [node] and
        len(changed) == 1 and changed[0].endswith('.unflatten()'))
  rs.check(ok, rule, f'{visit.qualname}:returns', f'returns {texts}',
           ctx.loc(visit, visit.node))
  has_test = loop_form or any(identity_test(e)
                              for e in walk_function(visit.node)
                              if isinstance(e, ast.Call))
  rs.check(has_test and same == [node] and node not in changed and
           not zipped_node_itself, rule,
           f'{visit.qualname}:identity-test',
           'a container is rebuilt only if some child is not identical (is) '
           'to the original child' if not zipped_node_itself else
           f'the new children are compared with `{node}` iterated directly, '
           'not with the children its traverser flattens it to: for a dict '
           'those are the keys, so every dict looks changed and is rebuilt on '
           'each call (a container without ArgFactory is no longer passed '
           'through uncopied)', ctx.loc(visit, visit.node))
  pr = ctx.func(f'{P}._promote_arg_factory')
  g = ctx.cfg(pr)
  argp = pr.params[0]

  def atoms(is_factory, contains):
    def ev(t):
      if isinstance(t, ast.Call) and unparse(t.func) == 'isinstance' and len(
          t.args) == 2 and unparse(t.args[0]) == argp and unparse(
              t.args[1]) == '_BuiltArgFactory':
        return is_factory
      if isinstance(t, ast.Call) and unparse(t.func) == (
          '_contains_arg_factory') and [unparse(a) for a in t.args] == [argp]:
        return contains
      return None
    return ev

  def returns_under(is_factory, contains):
    r = dispatch.reach_atoms(g, atoms(is_factory, contains))
    return {unparse(g.stmt[n].value) for n in r
            if isinstance(g.stmt[n], ast.Return) and g.stmt[n].value is not None}

  ok = (returns_under(True, None) == {argp} and
        returns_under(None, False) == {argp} and
        argp not in returns_under(False, True) and
        bool(returns_under(False, True)))
  rs.check(ok, rule, f'{pr.qualname}',
           'arguments that are factories or contain none are returned as they '
           'are', ctx.loc(pr, pr.node))
  # the wrapper evaluates every factory argument at call time: the element
  # expression `x.factory() if isinstance(x, ArgFactory) else x`, written in
  # place or as a helper
  def evaluates(elt, var) -> bool:
    if isinstance(elt, ast.Call) and len(elt.args) == 1 and not elt.keywords \
        and unparse(elt.args[0]) == var:
      h = ctx.p.funcs.get(ctx.p.resolve(elt.func, wc) or '')
      if h is None or h.is_lambda or not h.params:
        return False
      rets_ = [r for r in walk_function(h.node) if isinstance(r, ast.Return)]
      return len(rets_) == 1 and evaluates_inline(rets_[0].value, h.params[0])
    return evaluates_inline(elt, var)

  def evaluates_inline(e, var) -> bool:
    return isinstance(e, ast.IfExp) and unparse(e.orelse) == var and unparse(
        e.body) == f'{var}.factory()' and unparse(
            e.test) == f'isinstance({var}, ArgFactory)'

  wc = ctx.func(f'{AF}._InvokeArgFactoryWrapper.__call__')
  gw = ctx.cfg(wc)
  a = wc.node.args
  ok = False
  rets = [n for n in gw.nodes() if isinstance(gw.stmt[n], ast.Return)]
  if len(rets) == 1 and a.vararg is not None and a.kwarg is not None:
    rv_ = gw.stmt[rets[0]].value
    if isinstance(rv_, ast.Call) and unparse(rv_.func) == (
        f'{wc.params[0]}.func') and len(rv_.args) == 1 and isinstance(
            rv_.args[0], ast.Starred) and len(rv_.keywords) == 1 and (
                rv_.keywords[0].arg is None):
      ma = _mapped(gw, rets[0], rv_.args[0].value, evaluates)
      mk = _mapped(gw, rets[0], rv_.keywords[0].value, evaluates)
      ok = (ma is not None and mk is not None and ma[2] == 'elements' and
            mk[2] == 'items' and isinstance(ma[0], ast.Name) and
            ma[0].id == a.vararg.arg and isinstance(
                mk[0], ast.Name) and mk[0].id == a.kwarg.arg)
      if ok:
        # the sources are the parameters themselves
        ok = all(r_[1] == 'param' for nm, at in (
            (a.vararg.arg, ma[1]), (a.kwarg.arg, mk[1]))
                 for r_ in roles.reaching(gw, at, nm))
  rs.check(ok, rule, f'{wc.qualname}',
           'every positional and keyword argument is evaluated at call time '
           '(ArgFactory -> fresh factory() result, anything else unchanged), '
           'then the function is called', ctx.loc(wc, wc.node))

  # ---- DEFUSE: __build__ methods
  rule = 'DEFUSE.partial-build'
  rs.declare(rule, '__build__ hands (callable, args, kwargs) to '
             '_build_partial unchanged', 3)
  pb = ctx.func(f'{P}.Partial.__build__')
  rets = [r for r in walk_function(pb.node) if isinstance(r, ast.Return)]
  a = pb.node.args
  want = f'_build_partial({pb.params[0]}.__fn_or_cls__, {a.vararg.arg}, {a.kwarg.arg})'
  rs.check(len(rets) == 1 and unparse(rets[0].value) == want, rule,
           pb.qualname, f'returns {want}', ctx.loc(pb, pb.node))
  ab = ctx.func(f'{P}.ArgFactory.__build__')
  rets = [unparse(r.value) for r in walk_function(ab.node)
          if isinstance(r, ast.Return)]
  a = ab.node.args
  w1 = (f'_BuiltArgFactory(_build_partial({ab.params[0]}.__fn_or_cls__, '
        f'{a.vararg.arg}, {a.kwarg.arg}))')
  w2 = f'_BuiltArgFactory({ab.params[0]}.__fn_or_cls__)'
  rs.check(sorted(rets) == sorted([w1, w2]), rule, ab.qualname,
           f'returns {rets}', ctx.loc(ab, ab.node))
  # positional-or-keyword by keyword: call_buildable uses default flags
  sub = RuleSet(rs.prop)
  c01.delegation(ctx, sub)
  for o in sub.obs:
    if o.construct.endswith('call_buildable:translate'):
      rs.add(o)
  rs.rules_run.setdefault('DEFUSE.delegation', {
      'rule': 'DEFUSE.delegation', 'statement': 'call_buildable translates '
      'with the default flags (positional-or-keyword bound by keyword)',
      'min_instances': 1})
  # arg_factory.partial wraps every argument
  ap = ctx.func(f'{AF}.partial')
  a = ap.node.args
  gp = ctx.cfg(ap)

  def wraps(elt, var) -> bool:
    return isinstance(elt, ast.Call) and unparse(elt.func).split('.')[-1] == (
        'ArgFactory') and len(elt.args) == 1 and not elt.keywords and unparse(
            elt.args[0]) == var

  ok = False
  rets = [n for n in gp.nodes() if isinstance(gp.stmt[n], ast.Return)]
  if len(rets) == 1 and a.vararg is not None and a.kwarg is not None:
    rv_ = gp.stmt[rets[0]].value
    if (isinstance(rv_, ast.Call) and
        unparse(rv_.func) == 'functools.partial' and len(rv_.args) == 2 and
        isinstance(rv_.args[0], ast.Call) and
        unparse(rv_.args[0].func) == '_InvokeArgFactoryWrapper' and
        len(rv_.args[0].args) == 1 and
        isinstance(rv_.args[1], ast.Starred) and len(rv_.keywords) == 1 and
        rv_.keywords[0].arg is None):
      ma = _mapped(gp, rets[0], rv_.args[1].value, wraps)
      mk = _mapped(gp, rets[0], rv_.keywords[0].value, wraps)
      ok = ma is not None and mk is not None and ma[2] == 'elements' and (
          mk[2] == 'items')
      if ok:
        # keyword source: the **kwargs parameter itself (possibly handed on
        # under another name)
        ks, kat = roles.value_at(gp, mk[1], mk[0])
        ok = isinstance(ks, ast.Name) and ks.id == a.kwarg.arg and all(
            r_[1] == 'param' for r_ in roles.reaching(gp, kat, a.kwarg.arg))
      if ok:
        # positional source: everything after the function in *args
        # (`func, *rest = args`), the function being what the wrapper gets
        rd = roles.reaching(gp, ma[1], ma[0].id) if isinstance(
            ma[0], ast.Name) else []
        fd = roles.reaching(gp, rets[0], unparse(rv_.args[0].args[0]))
        ok = (len(rd) == 1 and rd[0][1] == 'rest' and len(fd) == 1 and
              fd[0][1] == 'elt' and fd[0][0] == rd[0][0])
        if ok:
          vs, vat = roles.value_at(gp, rd[0][0], rd[0][2])
          ok = unparse(vs) == a.vararg.arg and all(
              r_[1] == 'param' for r_ in roles.reaching(
                  gp, vat, a.vararg.arg))
        if ok:
          st_ = gp.stmt[rd[0][0]]
          tg_ = st_.targets[0] if isinstance(st_, ast.Assign) else None
          ok = isinstance(tg_, (ast.Tuple, ast.List)) and len(
              tg_.elts) == 2 and isinstance(tg_.elts[1], ast.Starred)
  rs.check(ok, rule, ap.qualname,
           'every argument becomes an ArgFactory bound on '
           '_InvokeArgFactoryWrapper(func) with functools.partial',
           ctx.loc(ap, ap.node))


MANIFEST = dict(
    text=('Decides structural clauses of C04 for all nestings and call '
          'sequences: who-may-invoke a factory (per-call code only, deferred '
          'expansion), complementary partition of keyword arguments into '
          'factory and value layers with the value layer outermost, identity '
          'pass-through of factory-free values, per-call evaluation in the '
          'arg_factory wrapper, and unmodified delegation from __build__. '
          'The behaviour of the composed layers for every signature is not '
          'decided.'),
    note='Trusted: ast, CFG; functools.partial keyword-override semantics.',
    technique='static analysis: who-may-call rule, predicate complementarity / table agreement, def-use shape rules, CFG dominance',
)
