"""C15 - select() hits exactly the matching nodes; replace keeps the rest."""
from __future__ import annotations

import ast

from fdlstatic import cfg as cfg_lib
from fdlstatic.ctx import Ctx, kwarg
from fdlstatic.model import norm_text, AnalysisError, unparse, walk_function, walk_stmts
from fdlstatic import roles
from fdlstatic.report import RuleSet
from fdlstatic.rules import c14

SEL = 'fiddle._src.selectors'
NS = f'{SEL}.NodeSelection'
TS = f'{SEL}.TagSelection'

EXPLANATION = (
    'Static clauses of C15 decided on the current source: (WALK) the '
    'selection walk is a MemoizedTraversal whose callback yields the visited '
    'value on every path after descending, so each reachable object is '
    'produced once; NodeSelection.__iter__ yields exactly the walked values '
    'for which _matches holds, and set() assigns through setattr on exactly '
    'those; (MATCH) _matches rejects values that are not instances of '
    'buildable_type, compares the callable for equality, and accepts a '
    'subclass only when match_subclasses is on, both are types, and '
    'issubclass(node callable, selected callable) - in that direction; '
    '(IDENTITY) in replace() the callback returns the replacement for '
    'matching nodes and, for every other Buildable, the very node object it '
    'was given after moving the rebuilt internals into it, the root is '
    'treated the same way and a matching root is rejected; '
    'move_buildable_internals copies every internal attribute Buildable '
    'declares; (KD) tag selection handles int keys; (DISPATCH) select() '
    'forwards its arguments unchanged to the selection classes. Not decided: '
    'the extension of the match predicate on concrete graphs.')
ASSUMPTIONS = ['MemoizedTraversal visits each object once (C02/C08)']


def run(ctx: Ctx, rs: RuleSet, tier: str):
  p = ctx.p
  # ---- walk
  rule = 'WALK.memoized-leaves-first'
  rs.declare(rule, 'the walk is memoized and yields each visited value', 3)
  w = ctx.func(f'{SEL}._memoized_walk_leaves_first')
  g = ctx.cfg(w)
  val = w.params[0]
  ok_begin = any(p.resolve(c.func, w) in (
      'fiddle._src.daglish.MemoizedTraversal.begin',) and
                 [unparse(a) for a in c.args] == [w.name, val]
                 for c in ctx.calls(w))
  rs.check(ok_begin, rule, f'{w.qualname}:traversal',
           'self-seeds with MemoizedTraversal.begin(<itself>, value)',
           ctx.loc(w, w.node))
  ys = [n for n in g.nodes() if isinstance(g.stmt[n], ast.Expr) and isinstance(
      g.stmt[n].value, ast.Yield) and unparse(g.stmt[n].value.value) == val]
  ok = bool(ys) and g.exit not in g.reach([g.entry], blocked=set(ys),
                                          labels=cfg_lib.NO_EXC)
  rs.check(ok, rule, f'{w.qualname}:yield-self',
           'every path of the callback yields the visited value',
           ctx.loc(w, w.node))
  ok = any(isinstance(n, ast.For) and 'yield_map_child_values' in unparse(n.iter)
           and unparse(n.iter.args[0]) == val and any(
               isinstance(s, ast.YieldFrom) for b in n.body for s in ast.walk(b))
           for n in walk_function(w.node))
  rs.check(ok, rule, f'{w.qualname}:children',
           'children are walked with yield_map_child_values(value) and their '
           'results re-yielded', ctx.loc(w, w.node))

  # ---- iteration = walk filtered by _matches
  rule = 'SHAPE.selection-iteration'
  rs.declare(rule, 'iteration / set / get act on exactly the matching walked '
             'values', 3)
  it = ctx.func(f'{NS}.__iter__')
  ok = False
  for n in walk_function(it.node):
    if isinstance(n, ast.For) and p.resolve(
        n.iter.func, it) == w.qualname and unparse(
            n.iter.args[0]) == f'{it.params[0]}.cfg':
      body = n.body
      if len(body) == 1 and isinstance(body[0], ast.If) and unparse(
          body[0].test) == f'{it.params[0]}._matches({unparse(n.target)})':
        ys = [s for s in ast.walk(body[0]) if isinstance(s, ast.Yield)]
        ok = len(ys) == 1 and unparse(ys[0].value) == unparse(n.target) and (
            not body[0].orelse)
  rs.check(ok, rule, it.qualname,
           'for value in walk(self.cfg): if self._matches(value): yield value',
           ctx.loc(it, it.node))
  st = ctx.func(f'{NS}.set')
  ok = False
  for n in walk_function(st.node):
    if isinstance(n, ast.For) and unparse(n.iter) == st.params[0]:
      for s in walk_stmts(n.body):
        if isinstance(s, ast.Call) and unparse(s.func) == 'setattr' and unparse(
            s.args[0]) == unparse(n.target):
          ok = True
        elif isinstance(s, ast.Call) and s.args and unparse(
            s.args[0]) == unparse(n.target) and any(
                k.arg is None for k in s.keywords):
          # handed on, with the keyword arguments, to a function of the tree
          # that assigns each of them on its first parameter
          h = ctx.p.funcs.get(ctx.p.resolve(s.func, st) or '')
          if h is not None and not h.is_lambda and h.params and (
              h.node.args.kwarg is not None):
            kwn = h.node.args.kwarg.arg
            for lp in walk_function(h.node):
              if isinstance(lp, ast.For) and unparse(
                  lp.iter) == f'{kwn}.items()' and isinstance(
                      lp.target, ast.Tuple) and len(lp.target.elts) == 2:
                for s2 in walk_stmts(lp.body):
                  if isinstance(s2, ast.Call) and unparse(
                      s2.func) == 'setattr' and [
                          unparse(a) for a in s2.args] == [
                              h.params[0]] + [unparse(e) for e in
                                              lp.target.elts]:
                    ok = True
  rs.check(ok, rule, st.qualname,
           'set(**kw) assigns on each yielded (matching) node',
           ctx.loc(st, st.node))
  gt = ctx.func(f'{NS}.get')
  ok = any(isinstance(n, ast.For) and unparse(n.iter) == gt.params[0]
           for n in walk_function(gt.node))
  rs.check(ok, rule, gt.qualname, 'get(name) reads from each matching node',
           ctx.loc(gt, gt.node))

  # ---- _matches
  rule = 'MATCH.predicate'
  rs.declare(rule, '_matches: type filter, callable equality, guarded '
             'subclass relation in the right direction', 5)
  m = ctx.func(f'{NS}._matches')
  g = ctx.cfg(m)
  node = m.params[1]
  slf = m.params[0]
  def mentions(e, *names):
    txt = unparse(e)
    return all(nm in txt for nm in names)

  # type filter: a failing isinstance(node, self.buildable_type) returns False
  ok = False
  for n in g.nodes():
    if g.kind[n] != 'if':
      continue
    t = g.stmt[n].test
    neg = isinstance(t, ast.UnaryOp) and isinstance(t.op, ast.Not)
    c = t.operand if neg else t
    if (isinstance(c, ast.Call) and unparse(c.func) == 'isinstance' and
        unparse(c.args[0]) == node and mentions(c.args[1], 'buildable_type')):
      fail_lab = 'true' if neg else 'false'
      succ = [x for x, lab in g.succ[n] if lab == fail_lab]
      r = g.reach(succ, labels=cfg_lib.NO_EXC)
      rets = [x for x in r if isinstance(g.stmt[x], ast.Return)]
      first = [x for x in succ if isinstance(g.stmt[x], ast.Return)]
      ok = bool(first) and all(unparse(g.stmt[x].value) == 'False'
                               for x in first)
      # the test is evaluated before any other decision
      others = [x for x in g.nodes() if isinstance(g.stmt[x], ast.Return)
                and x not in first]
      ok = ok and all(g.dominated_by(x, {n}, labels=cfg_lib.NO_EXC)
                      for x in others)
  rs.check(ok, rule, f'{m.qualname}:buildable_type',
           'values that are not instances of buildable_type never match',
           ctx.loc(m, m.node))
  def ex(e):
    # named intermediate results read as the expressions they name
    return roles.deref_deep(m, e)

  subs = [c for c in walk_function(m.node) if isinstance(c, ast.Call) and
          unparse(c.func) == 'issubclass' and len(c.args) == 2]
  ok = bool(subs) and all(
      mentions(ex(c.args[0]), node) and
      not mentions(ex(c.args[0]), 'fn_or_cls') and
      mentions(ex(c.args[1]), 'fn_or_cls') and
      not mentions(ex(c.args[1]), node) for c in subs)
  rs.check(ok, rule, f'{m.qualname}:subclass-direction',
           'issubclass(<callable of the node>, <selected callable>): ' +
           ', '.join(unparse(c) for c in subs), ctx.loc(m, m.node))
  eq = [c for c in walk_function(m.node) if isinstance(c, ast.Compare) and
        isinstance(c.ops[0], (ast.Eq, ast.NotEq, ast.Is, ast.IsNot)) and
        mentions(ex(c), 'fn_or_cls', node)]
  # the subclass relation only counts when match_subclasses is set: a node
  # whose callable differs from the selected one never matches without it
  from fdlstatic import dispatch as _dp

  def _differs_unset(t, depth=0):
    if any(t is c for c in eq):
      return isinstance(t.ops[0], (ast.NotEq, ast.IsNot))
    if isinstance(t, ast.Compare) and len(t.ops) == 1 and mentions(
        ex(t.left), 'fn_or_cls') and isinstance(
            t.comparators[0], ast.Constant) and t.comparators[0].value is None:
      return isinstance(t.ops[0], ast.IsNot)   # a callable is selected
    if isinstance(t, ast.Attribute) and t.attr == 'match_subclasses':
      return False
    if isinstance(t, ast.Call) and unparse(t.func) == 'isinstance' and len(
        t.args) == 2 and unparse(t.args[0]) == node and mentions(
            t.args[1], 'buildable_type'):
      return True
    if isinstance(t, ast.Name) and depth < 3:
      d = roles.deref(m, t, 1)
      if d is not t:
        return _dp.eval_atoms(d, lambda x: _differs_unset(x, depth + 1))
    return None

  gated = bool(subs) and bool(eq)
  reached = _dp.reach_atoms(g, _differs_unset)
  for x in reached:
    stx = g.stmt[x]
    if isinstance(stx, ast.Return) and stx.value is not None:
      v = stx.value
      val = False if (isinstance(v, ast.Constant) and v.value is False) else (
          _dp.eval_atoms(v, _differs_unset))
      if val is not False:
        gated = False
  rs.check(gated, rule, f'{m.qualname}:subclass-gated',
           'the subclass relation counts only when match_subclasses is set',
           ctx.loc(m, m.node))
  by_identity = [c for c in eq if isinstance(c.ops[0], (ast.Is, ast.IsNot))]
  rs.check(bool(eq) and not by_identity, rule, f'{m.qualname}:equality',
           'the selected callable is compared with the node\'s callable by '
           'equality: ' + ', '.join(unparse(c) for c in eq)
           if eq and not by_identity else
           (f'`{unparse(by_identity[0])}` compares the callables by identity: '
            'bound methods and classmethods (`Tokenizer.from_file`) are equal '
            'but a new object on every attribute access, so nothing configured '
            'with them is ever selected' if by_identity else
            'no comparison of the callables found'), ctx.loc(m, m.node))
  rets = [r for r in walk_function(m.node) if isinstance(r, ast.Return)]
  has_true = any(unparse(r.value) == 'True' for r in rets) or any(
      not isinstance(r.value, ast.Constant) for r in rets)
  rs.check(has_true and len(rets) >= 2, rule, f'{m.qualname}:returns',
           f'returns {[unparse(r.value)[:40] for r in rets]}',
           ctx.loc(m, m.node), nontrivial=False)

  # ---- tag iteration: value, else default, else NO_VALUE
  rule_t = 'READ.tag-iteration'
  rs.declare(rule_t, 'a tag selection yields what the Buildable reports for '
             'the argument (its read API applies defaults), never the raw '
             'argument store', 1)
  ti = ctx.func('fiddle._src.selectors.TagSelection.__iter__')
  ys = [n for n in walk_function(ti.node) if isinstance(n, ast.Yield) and
        n.value is not None]
  if not ys:
    raise AnalysisError('TagSelection.__iter__ yields nothing')
  def arms(v, depth=0):
    if isinstance(v, ast.IfExp):
      return arms(v.body, depth) + arms(v.orelse, depth)
    if isinstance(v, ast.Name) and depth < 3:
      # a local assigned on every path to the yield: one arm per assignment
      ds = roles.defs_of(ti, v.id)
      stores = [n for n in walk_function(ti.node) if isinstance(
          n, ast.Name) and n.id == v.id and isinstance(
              n.ctx, (ast.Store, ast.Del))]
      if ds and len(ds) == len(stores) and v.id not in ti.params:
        return [a for d in ds for a in arms(d, depth + 1)]
    return [v]

  def arm_kind(v):
    # how one yielded value is obtained
    if any(isinstance(x, ast.Attribute) and x.attr == '__arguments__'
           for x in roles.expand(ti, v, 2)):
      return 'raw'
    if isinstance(v, ast.Call) and unparse(v.func) == 'getattr':
      return 'api'
    if isinstance(v, ast.Subscript):
      base = roles.deref(ti, v.value)
      if isinstance(base, ast.Subscript) and isinstance(base.slice, ast.Slice):
        return 'api'  # an element of the positional view X[:]
    if isinstance(v, (ast.Attribute, ast.Name)) and unparse(v).split(
        '.')[-1] == 'NO_VALUE':
      return 'sentinel'
    return 'other'

  n_api = 0
  for y in ys:
    kinds = [arm_kind(a) for a in arms(y.value)]
    n_api += kinds.count('api')
    ok = all(k in ('api', 'sentinel') for k in kinds)
    rs.check(ok, rule_t, f'{ti.qualname}:`{norm_text(ti, y.value, 50)}`',
             'read through getattr / the positional view, NO_VALUE as the '
             'last resort' if ok else
             f'`{unparse(y.value)[:70]}` ' + (
                 'reads the raw argument store: an unset argument with a '
                 'default yields NO_VALUE instead of the default'
                 if 'raw' in kinds else
                 'is not read through getattr / the positional view'),
             ctx.loc(ti, y))
  if not n_api:
    rs.fail(rule_t, f'{ti.qualname}:reads', 'no yielded value is read through '
            'getattr / the positional view', ctx.loc(ti, ti.node))

  # ---- replace() writes rebuilt children back through
  # move_buildable_internals: it must install the source's internals whenever
  # it returns (a shortcut for "equal" arguments keeps the old, merely equal,
  # child objects where the replacement value should be)
  mb = ctx.func('fiddle._src.mutate_buildable.move_buildable_internals')
  gm = ctx.cfg(mb)
  copies = {n for n in gm.nodes() if any(
      isinstance(e, ast.Call) and unparse(e.func).endswith('__setattr__') and
      len(e.args) == 3 and unparse(e.args[0]) == mb.params[1]
      for e in cfg_lib.walk_node(gm, n))}
  loops = {n for n in gm.nodes() if gm.kind[n] == 'for' and any(
      c in gm.reach([x for x, lab in gm.succ[n] if lab == 'iter'],
                    blocked={n}, labels=cfg_lib.NO_EXC) for c in copies)}
  through = bool(copies) and bool(loops) and gm.exit not in gm.reach(
      [gm.entry], blocked=loops, labels=cfg_lib.NO_EXC)
  rs.declare('DOM.write-back', 'move_buildable_internals installs the '
             'source\'s internals on every normal return', 1)
  rs.check(through, 'DOM.write-back', mb.qualname,
           'every return passes the loop that copies the internals' if through
           else 'a path returns without copying the internals: '
           'NodeSelection.replace() rebuilds parents through this function, so '
           'a replacement that compares equal to the old child is silently '
           'not installed (identity and sharing of the result differ)',
           ctx.loc(mb, mb.node))

  # ---- replace: identity of non-matching nodes
  rule = 'IDENTITY.replace'
  rs.declare(rule, 'replace() substitutes matches and keeps every other '
             'Buildable object identical', 5)
  rp = ctx.func(f'{NS}.replace')
  tr = ctx.p.nested_of(rp, 'traverse')
  if tr is None:
    raise AnalysisError('NodeSelection.replace.traverse not found')
  g = ctx.cfg(tr)
  nd = tr.params[0]
  from fdlstatic import dispatch
  selfp = rp.params[0]

  def _atoms(matches, is_buildable):
    def ev(t):
      if isinstance(t, ast.Call) and unparse(t.func) == f'{selfp}._matches' and (
          [unparse(a) for a in t.args] == [nd]):
        return matches
      if isinstance(t, ast.Call) and unparse(t.func) == 'isinstance' and len(
          t.args) == 2 and unparse(t.args[0]) == nd and unparse(
              t.args[1]).endswith('Buildable'):
        return is_buildable
      # every Buildable class registers a traverser
      if is_buildable and isinstance(t, ast.Call) and unparse(
          t.func).endswith('.is_traversable') and [
              unparse(a) for a in t.args] == [nd]:
        return True
      return None
    return ev

  def _returns(nodes):
    return [g.stmt[n] for n in nodes if isinstance(g.stmt[n], ast.Return)
            and g.stmt[n].value is not None]

  # a matching node: every result is the replacement value, never the node
  r_match = dispatch.reach_atoms(g, _atoms(True, None))
  rm = _returns(r_match)
  ok = bool(rm) and all(
      rp.params[1] in unparse(r.value) and nd not in [
          x.id for x in ast.walk(r.value) if isinstance(x, ast.Name)]
      for r in rm)
  rs.check(ok, rule, f'{tr.qualname}:match',
           'a matching node is replaced by the value (deep-copied when '
           'requested)', ctx.loc(tr, tr.node))
  # Buildable branch: move internals into the original, return the original
  mv = [c for c in ctx.calls(tr) if p.resolve(c.func, tr) ==
        'fiddle._src.mutate_buildable.move_buildable_internals']
  state_p = tr.params[1]
  def is_rebuilt(e):
    # state.map_children(node), directly or held in a local other than node
    if isinstance(e, ast.Name) and e.id == nd:
      return False
    e = roles.deref(tr, e)
    return isinstance(e, ast.Call) and unparse(
        e.func) == f'{state_p}.map_children' and len(e.args) == 1 and unparse(
            e.args[0]) == nd

  ok = len(mv) == 1 and kwarg(mv[0], 'destination') is not None and unparse(
      kwarg(mv[0], 'destination')) == nd and kwarg(
          mv[0], 'source') is not None and is_rebuilt(kwarg(mv[0], 'source'))
  mv_nodes = [n for n in g.nodes() if mv and any(
      e is mv[0] for e in cfg_lib.walk_node(g, n))]
  r_build = dispatch.reach_atoms(g, _atoms(False, True))
  r_other = dispatch.reach_atoms(g, _atoms(False, False))
  # the move happens on every path of a non-matching Buildable and on no path
  # of another value
  ok = ok and bool(mv_nodes) and all(m in r_build for m in mv_nodes) and not any(
      m in r_other for m in mv_nodes) and g.exit not in dispatch.reach_atoms(
          g, _atoms(False, True), stop=set(mv_nodes))
  rs.check(ok, rule, f'{tr.qualname}:buildable',
           'for a non-matching Buildable the rebuilt internals are moved into '
           'the original object', ctx.loc(tr, tr.node))
  rb = _returns(r_build)
  reassigned = [n for n in r_build if isinstance(g.stmt[n], ast.Assign) and
                g.kind[n] == 'stmt' and any(unparse(t) == nd
                                            for t in g.stmt[n].targets)]
  rs.check(bool(rb) and all(unparse(r.value) == nd for r in rb) and
           not reassigned, rule, f'{tr.qualname}:identity',
           'the callback returns the node object it was given (Buildables) or '
           'its rebuilt container (other traversables)', ctx.loc(tr, tr.node))
  # root handling
  g = ctx.cfg(rp)
  root_mv = [c for c in ctx.calls(rp) if p.resolve(c.func, rp) ==
             'fiddle._src.mutate_buildable.move_buildable_internals']
  def is_root_result(e):
    e = roles.deref(rp, e) if e is not None else None
    if not (isinstance(e, ast.Call) and bool(e.args) and unparse(
        e.args[0]) == f'{rp.params[0]}.cfg'):
      return False
    if unparse(e.func) in ('traverse', tr.name):
      return True
    # the callback is an object made here: `replacer = _Replacer(...)`
    base = getattr(tr, '_base', None) or tr
    d = roles.deref(rp, e.func) if isinstance(e.func, ast.Name) else None
    return isinstance(d, ast.Call) and getattr(
        base, 'cls', None) is not None and p.resolve(
            d.func, rp) == base.cls.qualname

  ok = len(root_mv) == 1 and kwarg(
      root_mv[0], 'destination') is not None and unparse(
          kwarg(root_mv[0], 'destination')) == (
              f'{rp.params[0]}.cfg') and is_root_result(
                  kwarg(root_mv[0], 'source'))
  rs.check(ok, rule, f'{rp.qualname}:root',
           'the root keeps its identity: rebuilt internals are moved into '
           'self.cfg', ctx.loc(rp, rp.node))
  ok = False
  for n in g.nodes():
    lab_r = roles.branch_when(g.stmt[n].test, lambda t: unparse(t) == (
        f'{rp.params[0]}._matches({rp.params[0]}.cfg)')) if (
            g.kind[n] == 'if') else None
    if lab_r is not None:
      r = g.reach([x for x, lab in g.succ[n] if lab == lab_r],
                  labels=cfg_lib.NO_EXC)
      ok = g.exit not in r and g.raise_exit in r
  rs.check(ok, rule, f'{rp.qualname}:root-match',
           'a selection matching the root is rejected', ctx.loc(rp, rp.node))
  # memoized traversal
  ok = any(p.resolve(c.func, rp) == 'fiddle._src.daglish.MemoizedTraversal.begin'
           for c in ctx.calls(rp))
  rs.check(ok, rule, f'{rp.qualname}:memoized',
           'the rewrite runs under a MemoizedTraversal (shared nodes handled '
           'once)', ctx.loc(rp, rp.node))

  # ---- move_buildable_internals covers all internals
  rule = 'EXH.buildable-internals'
  rs.declare(rule, 'move_buildable_internals copies every internal attribute '
             'Buildable declares', 1)
  mb = ctx.mod('fiddle._src.mutate_buildable')
  keys_node = mb.assigns.get('_buildable_internals_keys')
  keys = {c.value for c in ast.walk(keys_node)
          if isinstance(c, ast.Constant)} if keys_node is not None else set()
  declared = set(ctx.cls('fiddle._src.config.Buildable').annotations)
  mvf = ctx.func('fiddle._src.mutate_buildable.move_buildable_internals')
  loops = [n for n in walk_function(mvf.node) if isinstance(n, ast.For) and
           unparse(n.iter) == '_buildable_internals_keys']
  copies = loops and any(
      isinstance(s, ast.Call) and unparse(s.func) == 'object.__setattr__' and
      unparse(s.args[0]) == 'destination' and
      unparse(s.args[2]) == f'getattr(source, {unparse(loops[0].target)})'
      for s in walk_stmts(loops[0].body))
  rs.check(keys == declared and bool(copies), rule, mvf.qualname,
           f'copied: {sorted(keys)}; declared on Buildable: {sorted(declared)}',
           ctx.loc(mvf, mvf.node))

  # ---- tag selection keys
  c14.kd_rule(ctx, rs, 'KD.tag-keys',
              [f'{TS}.__iter__', f'{TS}.replace'], 2)

  # ---- select() dispatch
  rule = 'DISPATCH.select'
  rs.declare(rule, 'select() forwards its arguments unchanged', 2)
  sf = ctx.func(f'{SEL}.select')
  ok_t = ok_n = False
  for c in ctx.calls(sf):
    q = p.resolve(c.func, sf)
    if q == TS:
      ok_t = [unparse(a) for a in c.args] == ['cfg', 'tag']
    if q == NS:
      ok_n = ([unparse(a) for a in c.args] == ['cfg', 'fn_or_cls'] and
              {k.arg: unparse(k.value) for k in c.keywords} == {
                  'match_subclasses': 'match_subclasses',
                  'buildable_type': 'buildable_type'})
  rs.check(ok_t, rule, f'{sf.qualname}:tag', 'TagSelection(cfg, tag)',
           ctx.loc(sf, sf.node))
  rs.check(ok_n, rule, f'{sf.qualname}:node',
           'NodeSelection(cfg, fn_or_cls, match_subclasses=..., '
           'buildable_type=...)', ctx.loc(sf, sf.node))


MANIFEST = dict(
    text=('Decides structural clauses of C15 for every DAG: memoized '
          'leaves-first walk that yields each visited value, iteration as the '
          'walk filtered by the match predicate, the shape and direction of '
          'the predicate, identity preservation of non-matching Buildables '
          'in replace() (move-internals-into-original, root included), '
          'completeness of the internals moved, and key-kind safety of tag '
          'selection. The extension of the predicate on concrete graphs is '
          'not decided.'),
    note='Trusted: ast, CFG; exactly-once visiting rests on C02/C08.',
    technique='static analysis: def-use / shape rules on the resolved AST, CFG path coverage of the yield, table agreement (internals), key-kind dataflow',
)
