"""CLI: ./check <PROPERTY> [--tier quick|thorough] | ./check --replay <file>."""
from __future__ import annotations

import argparse
import importlib
import json
import os
import sys
import time
import traceback


def run_property(prop: str, tier: str, repo: str, only=None, quiet=False) -> int:
  from fdlstatic import report
  from fdlstatic.ctx import Ctx
  from fdlstatic.model import AnalysisError
  t0 = time.time()
  seed = int(os.environ.get('VERIF_SEED', '0') or 0)
  ev_path = os.path.join(report.EVIDENCE_DIR, f'{prop}.json')
  try:
    mod = importlib.import_module(f'fdlstatic.rules.{prop.lower()}')

    def analyse(expand):
      ctx_ = Ctx(repo, expand=expand)
      rs_ = report.RuleSet(prop)
      try:
        mod.run(ctx_, rs_, tier)
      except AnalysisError as e:
        return ctx_, rs_, e
      return ctx_, rs_, None

    def clean(rs_, err_):
      return err_ is None and not report.unlisted(rs_) and not report.vacuous(
          rs_)

    ctx, rs, err = analyse(False)
    view = 'as written'
    if not clean(rs, err) and not os.environ.get('FDLSTATIC_NO_EXPAND'):
      # Second view: private helpers the rules do not know are expanded at
      # their call sites (fdlstatic/inline.py) -- first only inside the
      # functions the failing obligations name, then everywhere.  Expansion
      # preserves behaviour, so obligations discharged on an expanded view
      # are discharged for the tree; if no view is clean the verdict of the
      # tree as written is reported.
      named = sorted({o.construct.split(':')[0] for o in report.unlisted(rs)})
      views = []
      if named and err is None:
        views.append({'helpers': named})
      views += [{'helpers': True},
                {'helpers': True, 'temps': True, 'loops': True},
                {'temps': True, 'loops': True},
                {'helpers': True, 'temps': True},
                {'helpers': True, 'loops': True}]
      seen_views = set()
      for expand in views:
        ctx2, rs2, err2 = analyse(expand)
        sig = tuple(ctx2.p.inlined)
        if not sig or sig in seen_views:
          continue
        seen_views.add(sig)
        if clean(rs2, err2):
          ctx, rs, err = ctx2, rs2, None
          what = sorted({s_.split(' ')[-1] for s_ in ctx2.p.inlined
                         if '<' in s_}) + [s_ for s_ in ctx2.p.inlined
                                           if '<' not in s_]
          view = 'expanded: ' + ', '.join(what)
          break
    if err is not None:
      # a violation established before an anchor went missing takes
      # precedence (as it does over the vacuity guard): it names the
      # construct, the analysis error only says the rest is undecided
      if not report.unlisted(rs):
        raise err
      rs.observe(f'analysis incomplete after the reported violation(s): {err}')
    if only is not None:
      rs.obs = [o for o in rs.obs if o.key() == only]
      rs.rules_run = {}
      if not rs.obs:
        print(f'replay: construct {only} no longer produces an obligation')
        return 2
    funcs = sorted({o.construct.split(':')[0] for o in rs.obs})
    analysed = ctx.analysed_summary(funcs)
    analysed['view'] = view
    if view != 'as written' and not quiet:
      print(f'note: {prop} decided on a second view of the tree ({view})')
    if tier == 'thorough' and only is None:
      from fdlstatic import thorough
      analysed['thorough'] = thorough.run(ctx, rs, prop, repo, seed)
    rc = report.finish(rs, tier, seed, t0, analysed,
                       mod.EXPLANATION, mod.ASSUMPTIONS, only=only)
    return rc
  except AnalysisError as e:
    print(f'ANALYSIS-ERROR property={prop}: {e}')
  except Exception:  # pylint: disable=broad-except
    traceback.print_exc()
    print(f'ANALYSIS-ERROR property={prop}: internal error in the checker')
  if only is None and os.path.exists(ev_path) and not os.environ.get(
      'FDLSTATIC_NO_EVIDENCE'):
    os.remove(ev_path)
  return 2


def main(argv=None) -> int:
  ap = argparse.ArgumentParser()
  ap.add_argument('prop', nargs='?')
  ap.add_argument('--tier', default=os.environ.get('VERIF_TIER', 'quick'))
  ap.add_argument('--replay')
  ap.add_argument('--no-evidence', action='store_true')
  ap.add_argument('--repo', default=os.environ.get('FDLSTATIC_REPO', '/repo'))
  a = ap.parse_args(argv)
  if a.no_evidence:
    os.environ['FDLSTATIC_NO_EVIDENCE'] = '1'
  if a.tier not in ('quick', 'thorough'):
    a.tier = 'quick'
  if a.replay:
    with open(a.replay) as f:
      r = json.load(f)
    return run_property(r['property'], a.tier, a.repo,
                        only=(r['rule'], r['construct']))
  if not a.prop:
    ap.error('property id required')
  return run_property(a.prop.upper(), a.tier, a.repo)


if __name__ == '__main__':
  sys.exit(main())
